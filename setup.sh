#!/bin/bash
# Builds every check once (warms /verif/.gocache) from files on disk only.
set -u
cd "$(dirname "$(readlink -f "$0")")"
export VERIF_ROOT="$(pwd)"
export GOFLAGS=-mod=mod GOPROXY=off GOSUMDB=off GOTOOLCHAIN=local GOCACHE=/verif/.gocache CGO_ENABLED=0
mkdir -p .work/bin evidence replays
cp /repo/go.sum ./go.sum 2>/dev/null || true
rc=0
for d in checks/*/; do
  n=$(basename "$d")
  if [ -x "$d/build.sh" ]; then "$d/build.sh" ".work/bin/$n" || rc=1
  else go build -o ".work/bin/$n" "./$d" || rc=1; fi
done
exit $rc
