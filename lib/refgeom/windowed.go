package refgeom

import (
	"fmt"
	"math"

	"github.com/paulmach/orb"
)

// Windowed returns a copy of g laid out the way decoders and pooled buffers lay geometries out: every point
// slice is a window into ONE flat coordinate buffer (so its capacity runs on into the next member's points),
// and every slice of members has one spare slot holding a sentinel. A function that appends to a slice of its
// argument, or writes past its length, then overwrites data the caller still owns without changing anything
// that is reachable through the argument itself. verify reports such a write ("" when nothing changed).
// Nil and empty slices are kept as they are.
func Windowed(g orb.Geometry) (w orb.Geometry, verify func() string) {
	total := 0
	Vertices(g, true, func(*orb.Point) { total++ })
	const guard = 4
	flat := make([]orb.Point, total+guard)
	for i := range flat {
		flat[i] = orb.Point{7e77, -7e77}
	}
	next := 0
	win := func(ps []orb.Point) []orb.Point {
		if len(ps) == 0 {
			return ps
		}
		o := flat[next : next+len(ps)]
		copy(o, ps)
		next += len(ps)
		return o
	}
	type spare struct {
		what  string
		check func() bool
	}
	var spares []spare
	var cp func(g orb.Geometry) orb.Geometry
	ring := func(r orb.Ring) orb.Ring { return orb.Ring(win(r)) }
	poly := func(p orb.Polygon) orb.Polygon {
		if len(p) == 0 {
			return p
		}
		o := make(orb.Polygon, len(p), len(p)+1)
		for i := range p {
			o[i] = ring(p[i])
		}
		s := o[:len(p)+1]
		s[len(p)] = orb.Ring{{7e77, 7e77}}
		spares = append(spares, spare{"polygon", func() bool { return len(s[len(p)]) == 1 && s[len(p)][0] == orb.Point{7e77, 7e77} }})
		return o
	}
	cp = func(g orb.Geometry) orb.Geometry {
		switch v := g.(type) {
		case orb.MultiPoint:
			return orb.MultiPoint(win(v))
		case orb.LineString:
			return orb.LineString(win(v))
		case orb.Ring:
			return ring(v)
		case orb.Polygon:
			return poly(v)
		case orb.MultiLineString:
			if len(v) == 0 {
				return v
			}
			o := make(orb.MultiLineString, len(v), len(v)+1)
			for i := range v {
				o[i] = orb.LineString(win(v[i]))
			}
			s := o[:len(v)+1]
			s[len(v)] = orb.LineString{{7e77, 7e77}}
			spares = append(spares, spare{"multi-line-string", func() bool { return len(s[len(v)]) == 1 && s[len(v)][0] == orb.Point{7e77, 7e77} }})
			return o
		case orb.MultiPolygon:
			if len(v) == 0 {
				return v
			}
			o := make(orb.MultiPolygon, len(v), len(v)+1)
			for i := range v {
				o[i] = poly(v[i])
			}
			s := o[:len(v)+1]
			s[len(v)] = orb.Polygon{{{7e77, 7e77}}}
			spares = append(spares, spare{"multi-polygon", func() bool { return len(s[len(v)]) == 1 && len(s[len(v)][0]) == 1 }})
			return o
		case orb.Collection:
			if len(v) == 0 {
				return v
			}
			o := make(orb.Collection, len(v), len(v)+1)
			for i := range v {
				o[i] = cp(v[i])
			}
			s := o[:len(v)+1]
			s[len(v)] = orb.Point{7e77, 7e77}
			spares = append(spares, spare{"collection", func() bool { p, ok := s[len(v)].(orb.Point); return ok && p == orb.Point{7e77, 7e77} }})
			return o
		}
		return g // nil, Point, Bound: values
	}
	w = cp(g)
	snap := make([]orb.Point, len(flat))
	copy(snap, flat)
	verify = func() string {
		for i := range flat {
			if math.Float64bits(flat[i][0]) != math.Float64bits(snap[i][0]) || math.Float64bits(flat[i][1]) != math.Float64bits(snap[i][1]) {
				where := "a later member's coordinates"
				if i >= total {
					where = "the buffer past the geometry"
				}
				return fmt.Sprintf("slot %d of the shared coordinate buffer (%s) changed from %v to %v", i, where, snap[i], flat[i])
			}
		}
		for _, s := range spares {
			if !s.check() {
				return "the spare slot behind a " + s.what + "'s members was overwritten"
			}
		}
		return ""
	}
	return w, verify
}

// Spare returns a copy of ps that has spare capacity filled with sentinel points (the layout of a slice built by
// append, or of a prefix of a longer slice). Functions must give the same answer for it as for an exact-capacity copy.
func Spare(ps []orb.Point) []orb.Point {
	if ps == nil {
		return nil
	}
	buf := make([]orb.Point, len(ps)+8)
	copy(buf, ps)
	for i := len(ps); i < len(buf); i++ {
		buf[i] = orb.Point{7e77, -7e77}
	}
	return buf[:len(ps)]
}

// Map returns a deep copy of g with f applied to every coordinate pair (bounds: to both corners, as stored).
// Nil-ness and emptiness of slices are kept.
func Map(g orb.Geometry, f func(orb.Point) orb.Point) orb.Geometry {
	mp := func(ps []orb.Point) []orb.Point {
		if ps == nil {
			return nil
		}
		o := make([]orb.Point, len(ps))
		for i, p := range ps {
			o[i] = f(p)
		}
		return o
	}
	switch v := g.(type) {
	case orb.Point:
		return f(v)
	case orb.Bound:
		return orb.Bound{Min: f(v.Min), Max: f(v.Max)}
	case orb.MultiPoint:
		return orb.MultiPoint(mp(v))
	case orb.LineString:
		return orb.LineString(mp(v))
	case orb.Ring:
		return orb.Ring(mp(v))
	case orb.MultiLineString:
		if v == nil {
			return v
		}
		o := make(orb.MultiLineString, len(v))
		for i := range v {
			o[i] = orb.LineString(mp(v[i]))
		}
		return o
	case orb.Polygon:
		if v == nil {
			return v
		}
		o := make(orb.Polygon, len(v))
		for i := range v {
			o[i] = orb.Ring(mp(v[i]))
		}
		return o
	case orb.MultiPolygon:
		if v == nil {
			return v
		}
		o := make(orb.MultiPolygon, len(v))
		for i := range v {
			o[i], _ = Map(v[i], f).(orb.Polygon)
		}
		return o
	case orb.Collection:
		if v == nil {
			return v
		}
		o := make(orb.Collection, len(v))
		for i := range v {
			o[i] = Map(v[i], f)
		}
		return o
	}
	return g
}

// Scale returns a deep copy of g with every coordinate multiplied by k. For k a power of two the
// multiplication is exact in float64, and so is every +,-,*,/ and sqrt-free comparison computed from the
// scaled values: an operation that is equivariant under scaling must return the bit-for-bit scaled result.
func Scale(g orb.Geometry, k float64) orb.Geometry {
	return Map(g, func(p orb.Point) orb.Point { return orb.Point{p[0] * k, p[1] * k} })
}

// ScaleBound is Scale for a bound passed as an argument.
func ScaleBound(b orb.Bound, k float64) orb.Bound {
	return orb.Bound{Min: orb.Point{b.Min[0] * k, b.Min[1] * k}, Max: orb.Point{b.Max[0] * k, b.Max[1] * k}}
}
