// Package refgeom is the boring reference model of the nine geometry kinds:
// structural equality, deep snapshot, tight bound and the codec normal form,
// written without using orb's own Equal/Clone/Bound.
package refgeom

import (
	"fmt"
	"math"
	"strings"

	"github.com/paulmach/orb"
)

// Bits renders a geometry completely (kind, nesting, nil-ness of slices, every
// coordinate as float64 bits). Two geometries are bit-identical iff their Bits agree.
func Bits(g orb.Geometry) string {
	var sb strings.Builder
	bits(&sb, g, true)
	return sb.String()
}

// Struct renders like Bits but does not distinguish nil from empty slices.
func Struct(g orb.Geometry) string {
	var sb strings.Builder
	bits(&sb, g, false)
	return sb.String()
}

func pts(sb *strings.Builder, ps []orb.Point, isNil, nilAware bool) {
	if isNil && nilAware {
		sb.WriteString("nil")
		return
	}
	sb.WriteByte('[')
	for _, p := range ps {
		fmt.Fprintf(sb, "%016x,%016x;", math.Float64bits(p[0]), math.Float64bits(p[1]))
	}
	sb.WriteByte(']')
}

func bits(sb *strings.Builder, g orb.Geometry, nilAware bool) {
	switch v := g.(type) {
	case nil:
		sb.WriteString("<nil>")
	case orb.Point:
		sb.WriteString("Pt")
		pts(sb, []orb.Point{v}, false, nilAware)
	case orb.MultiPoint:
		sb.WriteString("MP")
		pts(sb, v, v == nil, nilAware)
	case orb.LineString:
		sb.WriteString("LS")
		pts(sb, v, v == nil, nilAware)
	case orb.Ring:
		sb.WriteString("Rg")
		pts(sb, v, v == nil, nilAware)
	case orb.MultiLineString:
		sb.WriteString("MLS")
		if v == nil && nilAware {
			sb.WriteString("nil")
			return
		}
		sb.WriteByte('{')
		for _, l := range v {
			pts(sb, l, l == nil, nilAware)
		}
		sb.WriteByte('}')
	case orb.Polygon:
		sb.WriteString("Pg")
		if v == nil && nilAware {
			sb.WriteString("nil")
			return
		}
		sb.WriteByte('{')
		for _, l := range v {
			pts(sb, l, l == nil, nilAware)
		}
		sb.WriteByte('}')
	case orb.MultiPolygon:
		sb.WriteString("MPg")
		if v == nil && nilAware {
			sb.WriteString("nil")
			return
		}
		sb.WriteByte('{')
		for _, p := range v {
			bits(sb, p, nilAware)
		}
		sb.WriteByte('}')
	case orb.Collection:
		sb.WriteString("GC")
		if v == nil && nilAware {
			sb.WriteString("nil")
			return
		}
		sb.WriteByte('{')
		for _, m := range v {
			bits(sb, m, nilAware)
			sb.WriteByte('|')
		}
		sb.WriteByte('}')
	case orb.Bound:
		sb.WriteString("Bd")
		pts(sb, []orb.Point{v.Min, v.Max}, false, nilAware)
	default:
		fmt.Fprintf(sb, "?%T", g)
	}
}

// Equal is structural equality as the property states it: same kind, same
// nesting, same lengths (nil == empty), every coordinate == (so -0 == 0).
func Equal(a, b orb.Geometry) bool {
	switch x := a.(type) {
	case nil:
		return b == nil
	case orb.Point:
		y, ok := b.(orb.Point)
		return ok && x[0] == y[0] && x[1] == y[1]
	case orb.MultiPoint:
		y, ok := b.(orb.MultiPoint)
		return ok && eqPts(x, y)
	case orb.LineString:
		y, ok := b.(orb.LineString)
		return ok && eqPts(x, y)
	case orb.Ring:
		y, ok := b.(orb.Ring)
		return ok && eqPts(x, y)
	case orb.MultiLineString:
		y, ok := b.(orb.MultiLineString)
		if !ok || len(x) != len(y) {
			return false
		}
		for i := range x {
			if !eqPts(x[i], y[i]) {
				return false
			}
		}
		return true
	case orb.Polygon:
		y, ok := b.(orb.Polygon)
		if !ok || len(x) != len(y) {
			return false
		}
		for i := range x {
			if !eqPts(x[i], y[i]) {
				return false
			}
		}
		return true
	case orb.MultiPolygon:
		y, ok := b.(orb.MultiPolygon)
		if !ok || len(x) != len(y) {
			return false
		}
		for i := range x {
			if !Equal(x[i], y[i]) {
				return false
			}
		}
		return true
	case orb.Collection:
		y, ok := b.(orb.Collection)
		if !ok || len(x) != len(y) {
			return false
		}
		for i := range x {
			if !Equal(x[i], y[i]) {
				return false
			}
		}
		return true
	case orb.Bound:
		y, ok := b.(orb.Bound)
		return ok && x.Min[0] == y.Min[0] && x.Min[1] == y.Min[1] && x.Max[0] == y.Max[0] && x.Max[1] == y.Max[1]
	}
	return false
}

func eqPts(a, b []orb.Point) bool {
	if len(a) != len(b) {
		return false
	}
	for i := range a {
		if a[i][0] != b[i][0] || a[i][1] != b[i][1] {
			return false
		}
	}
	return true
}

// Vertices calls f with a pointer to every vertex that the *bound* of g depends
// on (outer rings only for polygons); all=true visits every vertex.
func Vertices(g orb.Geometry, all bool, f func(p *orb.Point)) {
	each := func(ps []orb.Point) {
		for i := range ps {
			f(&ps[i])
		}
	}
	switch v := g.(type) {
	case orb.Point:
		f(&v)
	case orb.MultiPoint:
		each(v)
	case orb.LineString:
		each(v)
	case orb.Ring:
		each(v)
	case orb.MultiLineString:
		for _, l := range v {
			each(l)
		}
	case orb.Polygon:
		for i, l := range v {
			if all || i == 0 {
				each(l)
			}
		}
	case orb.MultiPolygon:
		for _, p := range v {
			Vertices(p, all, f)
		}
	case orb.Collection:
		for _, m := range v {
			Vertices(m, all, f)
		}
	case orb.Bound:
		if all {
			f(&v.Min)
			f(&v.Max)
		} else if !(v.Min[0] > v.Max[0] || v.Min[1] > v.Max[1]) {
			f(&v.Min)
			f(&v.Max)
		}
	}
}

// TightBound is the smallest box around the bound-relevant vertices; ok=false when there are none.
func TightBound(g orb.Geometry) (b orb.Bound, ok bool) {
	Vertices(g, false, func(p *orb.Point) {
		if !ok {
			b = orb.Bound{Min: *p, Max: *p}
			ok = true
			return
		}
		b.Min[0] = math.Min(b.Min[0], p[0])
		b.Min[1] = math.Min(b.Min[1], p[1])
		b.Max[0] = math.Max(b.Max[0], p[0])
		b.Max[1] = math.Max(b.Max[1], p[1])
	})
	return
}

// Normal is the codec normal form: Ring and Bound become the one-ring polygon
// they denote; nil slices become empty slices; (optionally) an empty collection
// becomes the nil geometry. Members are normalised recursively.
func Normal(g orb.Geometry, emptyCollectionIsNil bool) orb.Geometry {
	cp := func(ps []orb.Point) []orb.Point {
		o := make([]orb.Point, len(ps))
		copy(o, ps)
		return o
	}
	switch v := g.(type) {
	case nil:
		return nil
	case orb.Point:
		return v
	case orb.MultiPoint:
		return orb.MultiPoint(cp(v))
	case orb.LineString:
		return orb.LineString(cp(v))
	case orb.Ring:
		return orb.Polygon{orb.Ring(cp(v))}
	case orb.Bound:
		return orb.Polygon{v.ToRing()}
	case orb.MultiLineString:
		o := make(orb.MultiLineString, len(v))
		for i := range v {
			o[i] = orb.LineString(cp(v[i]))
		}
		return o
	case orb.Polygon:
		o := make(orb.Polygon, len(v))
		for i := range v {
			o[i] = orb.Ring(cp(v[i]))
		}
		return o
	case orb.MultiPolygon:
		o := make(orb.MultiPolygon, len(v))
		for i := range v {
			o[i] = Normal(v[i], false).(orb.Polygon)
		}
		return o
	case orb.Collection:
		if len(v) == 0 && emptyCollectionIsNil {
			return nil
		}
		o := make(orb.Collection, len(v))
		for i := range v {
			o[i] = Normal(v[i], emptyCollectionIsNil)
		}
		return o
	}
	panic(fmt.Sprintf("refgeom: %T", g))
}
