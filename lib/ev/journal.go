package ev

import (
	"bytes"
	"context"
	"encoding/json"
	"fmt"
	"io"
	"os"
	"os/exec"
	"path/filepath"
	"strconv"
	"strings"
	"sync"
	"syscall"
	"time"

	"verif/lib/mc"
)

// A Go fatal error (stack overflow, out of memory, concurrent map writes, deadlock) cannot be recovered,
// so an execution that provokes one takes the exploring process with it. The crash journal is a small
// shared memory-mapped file with one slot per worker; before every execution the worker writes the part
// name and its forced choice prefix there (a memory store, no system call). When the process dies the
// supervisor — the same binary, one level up — reads the slots, re-executes each recorded vector in a
// fresh process, and files the ones that die again as violations with a replay file.

const (
	journalSlots    = 64
	journalSlotSize = 2048
)

type journal struct{ mem []byte }

func openJournal(path string, create bool) *journal {
	flags := os.O_RDWR
	if create {
		flags |= os.O_CREATE | os.O_TRUNC
	}
	f, err := os.OpenFile(path, flags, 0o644)
	if err != nil {
		return nil
	}
	defer f.Close()
	if err := f.Truncate(journalSlots * journalSlotSize); err != nil {
		return nil
	}
	mem, err := syscall.Mmap(int(f.Fd()), 0, journalSlots*journalSlotSize, syscall.PROT_READ|syscall.PROT_WRITE, syscall.MAP_SHARED)
	if err != nil {
		return nil
	}
	return &journal{mem: mem}
}

func (j *journal) writer(part string) func(worker int, forced []int) {
	head := append([]byte(part), 0)
	return func(w int, forced []int) {
		if w < 0 || w >= journalSlots {
			return
		}
		slot := j.mem[w*journalSlotSize : (w+1)*journalSlotSize]
		slot[0] = 0 // invalid while being written
		b := slot[1:1]
		b = append(b, head...)
		for _, v := range forced {
			if len(b) > journalSlotSize-32 {
				return // too long to record; stays invalid
			}
			b = strconv.AppendInt(b, int64(v), 10)
			b = append(b, ' ')
		}
		b = append(b, '\n')
		slot[0] = 1
	}
}

type crashCand struct {
	part    string
	choices []int
}

func readJournal(path string) []crashCand {
	b, err := os.ReadFile(path)
	if err != nil {
		return nil
	}
	var out []crashCand
	for w := 0; w+1 <= len(b)/journalSlotSize; w++ {
		slot := b[w*journalSlotSize : (w+1)*journalSlotSize]
		if slot[0] != 1 {
			continue
		}
		z := bytes.IndexByte(slot[1:], 0)
		nl := bytes.IndexByte(slot[1:], '\n')
		if z < 0 || nl < z {
			continue
		}
		c := crashCand{part: string(slot[1 : 1+z])}
		for _, f := range strings.Fields(string(slot[2+z : 1+nl])) {
			v, err := strconv.Atoi(f)
			if err != nil {
				c.choices = nil
				break
			}
			c.choices = append(c.choices, v)
		}
		out = append(out, c)
	}
	return out
}

// crashed recognises the output of a Go process that died rather than exited.
func crashed(out string) bool {
	return strings.Contains(out, "fatal error:") || strings.Contains(out, "\ngoroutine ") || strings.Contains(out, "signal:")
}

type tailWriter struct {
	mu  sync.Mutex
	buf []byte
	w   io.Writer
}

func (t *tailWriter) Write(p []byte) (int, error) {
	t.mu.Lock()
	t.buf = append(t.buf, p...)
	if len(t.buf) > 1<<16 {
		t.buf = append([]byte(nil), t.buf[len(t.buf)-(1<<15):]...)
	}
	t.mu.Unlock()
	return t.w.Write(p)
}

// supervise re-executes the check as a child with a crash journal, unless this process already is one.
func (r *Run) supervise() {
	if os.Getenv("VERIF_SUPERVISED") != "" || r.replay != nil || r.shardN > 0 {
		// every process that executes code under test runs under an address-space limit: code that allocates without
		// bound then dies with a Go fatal error - which the supervisor attributes to the input in flight - instead of
		// taking the machine down. (C19 starts a -race binary, whose shadow memory needs the whole address space.)
		if os.Getenv("VERIF_SUPERVISED") != "" && r.ID != "C19" && os.Getenv("VERIF_NO_AS_LIMIT") == "" {
			n := uint64(24) << 30
			syscall.Setrlimit(syscall.RLIMIT_AS, &syscall.Rlimit{Cur: n, Max: n})
		}
		if jp := os.Getenv("VERIF_JOURNAL_MMAP"); jp != "" && r.replay == nil && r.shardN == 0 {
			r.journal = openJournal(jp, false)
		}
		return
	}
	dir := filepath.Join(Root, ".work", "journal")
	os.MkdirAll(dir, 0o755)
	jpath := filepath.Join(dir, fmt.Sprintf("%s-%d", r.ID, os.Getpid()))
	if openJournal(jpath, true) == nil {
		return // no journal: run unsupervised
	}
	defer os.Remove(jpath)
	cmd := exec.Command(os.Args[0], os.Args[1:]...)
	cmd.Env = append(os.Environ(), "VERIF_SUPERVISED=1", "VERIF_JOURNAL_MMAP="+jpath)
	cmd.Stdin = os.Stdin
	so := &tailWriter{w: os.Stdout}
	se := &tailWriter{w: os.Stderr}
	cmd.Stdout, cmd.Stderr = so, se
	err := cmd.Run()
	if err == nil {
		os.Remove(jpath)
		os.Exit(0)
	}
	code := -1
	if ee, ok := err.(*exec.ExitError); ok {
		code = ee.ExitCode()
	}
	out := string(so.buf) + string(se.buf)
	if code == 1 || (code == 2 && !crashed(out)) || strings.Contains(out, "HARNESS-ERROR") {
		os.Remove(jpath)
		os.Exit(code)
	}
	// the child died: find the execution that killed it
	cands := readJournal(jpath)
	os.Remove(jpath)
	confirmed := 0
	for i, c := range cands {
		doc := replayDoc{Property: r.ID, Part: c.part, Tier: r.Tier, Class: "crash", Choices: c.choices}
		b, _ := json.Marshal(doc)
		cf := filepath.Join(dir, fmt.Sprintf("%s-%d-cand%d.json", r.ID, os.Getpid(), i))
		os.WriteFile(cf, b, 0o644)
		ctx, cancel := context.WithTimeout(context.Background(), 180*time.Second)
		rc := exec.CommandContext(ctx, os.Args[0], "--replay", cf)
		rc.Env = append(os.Environ(), "VERIF_SUPERVISED=1")
		ob, rerr := rc.CombinedOutput()
		cancel()
		os.Remove(cf)
		if rerr == nil {
			continue
		}
		if ee, ok := rerr.(*exec.ExitError); ok && ee.ExitCode() == 1 {
			continue // an ordinary oracle failure on this vector is not what killed the process
		}
		if !crashed(string(ob)) && ctx.Err() == nil {
			continue
		}
		confirmed++
		what := "the process died (a Go fatal error, not a recoverable panic) while executing this input; re-executed alone in a fresh process it dies again"
		if ctx.Err() != nil {
			what = "the process died during the exploration; re-executed alone this input did not finish within 180 s"
		}
		r.file(c.part, mc.Failure{Class: "crash", Choices: c.choices, Detail: what + " (choices after the prefix are 0): " + tail(string(ob), 1500)}, nil)
	}
	if confirmed > 0 {
		fmt.Printf("[%s] tier=%s the exploring process died; %d of the %d executions in flight die again when replayed alone\n", r.ID, r.Tier, confirmed, len(cands))
		os.Exit(1)
	}
	// No single execution reproduces the death: it needs the calls made before it in the same process
	// (state kept by the code under test between calls). The real code still died on a history of
	// legitimate calls, so it is reported; the replay re-runs the part the process died in.
	parts := map[string]bool{}
	for _, c := range cands {
		if parts[c.part] {
			continue
		}
		parts[c.part] = true
		var inflight [][]int
		for _, d := range cands {
			if d.part == c.part {
				inflight = append(inflight, d.choices)
			}
		}
		r.file(c.part, mc.Failure{Class: "crash-in-history", Detail: fmt.Sprintf("the exploring process died (exit %d, a Go fatal error) in this part and none of the %d executions in flight dies when replayed alone in a fresh process: the death depends on calls made earlier in the process. Replaying this file re-runs the part. Last output: %s", code, len(cands), tail(out, 1500))},
			map[string]interface{}{"in_flight": inflight})
	}
	if len(parts) > 0 {
		os.Exit(1)
	}
	fmt.Printf("HARNESS-ERROR the exploring process died (exit %d) outside any journalled execution: %s\n", code, tail(out, 1500))
	os.Exit(2)
}
