// Package ev is engine E6: the check runner, evidence writer, replay files and
// known-findings policy shared by every check.
package ev

import (
	"crypto/sha1"
	"encoding/hex"
	"encoding/json"
	"flag"
	"fmt"
	"os"
	"os/exec"
	"path/filepath"
	"sort"
	"strconv"
	"strings"
	"syscall"
	"time"

	"verif/lib/mc"
)

// Root is the verification directory (run.sh exports VERIF_ROOT; default /verif).
var Root = func() string {
	if r := os.Getenv("VERIF_ROOT"); r != "" {
		return r
	}
	return "/verif"
}()

// Finding is one entry of known_findings.json.
type Finding struct {
	ID       string           `json:"id"`
	Property string           `json:"property"`
	Status   string           `json:"status"` // open | fixed
	Class    string           `json:"class"`  // failure class (input predicate + observed outcome) it suppresses
	What     string           `json:"what"`
	Commit   string           `json:"commit,omitempty"`
	KeysFile string           `json:"keys_file,omitempty"` // optional: only failures whose key is listed are known
	MaxCount map[string]int64 `json:"max_count,omitempty"` // optional per tier: more failures than this is a violation
}

type partStat struct {
	Name       string  `json:"name"`
	Execs      int64   `json:"executions"`
	Points     int64   `json:"choice_points"`
	NonTrivial int64   `json:"nontrivial"`
	MaxDepth   int64   `json:"max_depth"`
	Exhaustive bool    `json:"exhaustive"`
	Bound      string  `json:"bound"`
	Fails      int64   `json:"failures"`
	Wall       float64 `json:"wall_s"`
}

// Run is one invocation of a check.
type Run struct {
	ID    string
	Tier  string
	Level string
	Seed  int64

	start          time.Time
	replayFile     string
	replay         *replayDoc
	only           string
	Isolate        bool // sharded children run under an address-space limit with a crash journal
	shardI, shardN int  // >0 N: this process is child shard I of N
	childOut       string
	journal        *journal

	parts                       []partStat
	samples                     []interface{}
	Extra                       map[string]interface{}
	Assume                      []string
	Rule                        string
	known                       map[string]*Finding
	knownCount                  map[string]int64
	knownKeys                   map[string]map[string]bool
	violations                  int
	harnessErr                  []string
	notices                     []string
	counters                    map[string]int64
	States, Transitions, Traces int64
	Programs, Disagreements     int64
}

type replayDoc struct {
	Property string          `json:"property"`
	Part     string          `json:"part"`
	Tier     string          `json:"tier"`
	Class    string          `json:"class"`
	Choices  []int           `json:"choices,omitempty"`
	Custom   json.RawMessage `json:"custom,omitempty"`
	Detail   string          `json:"detail"`
}

// New parses the command line (tier, --replay, --only) and loads known findings.
func New(id, level string) *Run {
	tier := flag.String("tier", os.Getenv("VERIF_TIER"), "quick|thorough")
	rp := flag.String("replay", "", "replay file")
	only := flag.String("only", "", "run only parts whose name has this prefix")
	shard := flag.String("shard", "", "i/n: child process exploring shard i of n (internal)")
	childOut := flag.String("child-out", "", "file for the child's statistics (internal)")
	flag.Parse()
	if *tier == "" {
		*tier = "quick"
	}
	if *tier != "quick" && *tier != "thorough" {
		fmt.Fprintln(os.Stderr, "bad tier", *tier)
		os.Exit(2)
	}
	seed, _ := strconv.ParseInt(os.Getenv("VERIF_SEED"), 10, 64)
	r := &Run{ID: id, Tier: *tier, Level: level, Seed: seed, start: time.Now(), replayFile: *rp, only: *only,
		Extra: map[string]interface{}{}, known: map[string]*Finding{}, knownCount: map[string]int64{},
		knownKeys: map[string]map[string]bool{}, counters: map[string]int64{}}
	if *shard != "" {
		fmt.Sscanf(*shard, "%d/%d", &r.shardI, &r.shardN)
		r.childOut = *childOut
	}
	var all []Finding
	b, err := os.ReadFile(filepath.Join(Root, "known_findings.json"))
	if err == nil {
		if err := json.Unmarshal(b, &all); err != nil {
			fmt.Fprintln(os.Stderr, "known_findings.json:", err)
			os.Exit(2)
		}
	}
	for i := range all {
		f := &all[i]
		if f.Property == id && f.Status == "open" {
			r.known[f.Class] = f
			if f.KeysFile != "" {
				kb, err := os.ReadFile(filepath.Join(Root, f.KeysFile))
				if err != nil {
					fmt.Fprintln(os.Stderr, "keys file:", err)
					os.Exit(2)
				}
				m := map[string]bool{}
				for _, l := range strings.Split(string(kb), "\n") {
					if l = strings.TrimSpace(l); l != "" {
						m[l] = true
					}
				}
				r.knownKeys[f.Class] = m
			}
		}
	}
	if *rp != "" {
		b, err := os.ReadFile(*rp)
		if err != nil {
			fmt.Fprintln(os.Stderr, err)
			os.Exit(2)
		}
		r.replay = &replayDoc{}
		if err := json.Unmarshal(b, r.replay); err != nil {
			fmt.Fprintln(os.Stderr, err)
			os.Exit(2)
		}
		r.Tier = r.replay.Tier
		if r.replay.Class == "crash-in-history" { // replayed by re-running the whole part
			r.only, r.replay = r.replay.Part, nil
		}
	}
	r.supervise()
	return r
}

// Quick reports whether this is the quick tier.
func (r *Run) Quick() bool { return r.Tier == "quick" }

// Pick returns q in the quick tier and t in the thorough tier.
func Pick[T any](r *Run, q, t T) T {
	if r.Quick() {
		return q
	}
	return t
}

// Replaying reports whether the run replays a single recorded case.
func (r *Run) Replaying() bool { return r.replay != nil }

func (r *Run) skip(part string) bool {
	if r.replay != nil {
		return r.replay.Part != part
	}
	return r.only != "" && !strings.HasPrefix(part, r.only)
}

// Sample stores an example case (first few only).
func (r *Run) Sample(v interface{}) {
	if len(r.samples) < 12 {
		r.samples = append(r.samples, v)
	}
}

// Count adds to a named counter reported under coverage.counters.
func (r *Run) Count(name string, n int64) { r.counters[name] += n }

// Explore runs one E1 part. bound is a human description of the bound explored.
func (r *Run) Explore(part, bound string, o mc.Opts, body func(*mc.Ctx)) mc.Stats {
	if r.skip(part) {
		return mc.Stats{}
	}
	if r.replay != nil {
		var local interface{}
		if o.NewLocal != nil {
			local = o.NewLocal(0)
		}
		fails, _, err := mc.RunOnce(r.replay.Choices, local, body)
		if err != nil {
			fmt.Println("HARNESS-ERROR", err)
			os.Exit(2)
		}
		fmt.Printf("replay part=%s choices=%v\n", part, r.replay.Choices)
		if len(fails) == 0 {
			fmt.Println("replay: no failure")
			os.Exit(0)
		}
		for _, f := range fails {
			fmt.Printf("replay: FAIL class=%q %s\n", f.Class, f.Detail)
		}
		os.Exit(1)
	}
	t0 := time.Now()
	o.OnHang = r.onHang(part)
	r.stopRule(&o)
	if r.journal != nil {
		o.Journal = r.journal.writer(part)
	}
	st := mc.Explore(o, body)
	r.account(part, bound, o, st, t0, body)
	return st
}

func (r *Run) account(part, bound string, o mc.Opts, st mc.Stats, t0 time.Time, body func(*mc.Ctx)) {
	ps := partStat{Name: part, Execs: st.Execs, Points: st.Points, NonTrivial: st.NonTrivial, MaxDepth: st.MaxDepth,
		Exhaustive: st.Complete, Bound: bound, Fails: st.FailCount, Wall: time.Since(t0).Seconds()}
	r.parts = append(r.parts, ps)
	if st.HarnessErr != nil {
		r.harnessErr = append(r.harnessErr, part+": "+st.HarnessErr.Error())
	}
	// classify failures
	perClass := map[string]int{}
	for _, f := range st.Fails {
		_, keyed := r.knownKeys[f.Class]
		if r.isKnown(f) {
			if keyed {
				r.knownCount[f.Class]++
			}
			continue
		}
		if keyed {
			r.violations++
		}
		perClass[f.Class]++
		if perClass[f.Class] > 5 { // re-run / file only the first few per class
			continue
		}
		if r.Isolate {
			// never re-execute a possibly memory-exhausting input in the unprotected parent process
			r.file(part, f, nil)
			continue
		}
		// determinism: the same vector must fail the same way again
		var local interface{}
		if o.NewLocal != nil {
			local = o.NewLocal(0)
		}
		again, _, err := mc.RunOnce(f.Choices, local, body)
		same := false
		if err == nil {
			for _, g := range again {
				if g.Class == f.Class {
					same = true
				}
			}
		}
		if !same {
			// The failure was observed on the real code but the same vector does not fail when run again in
			// this process: the outcome depends on calls made earlier in the process (state kept by the code
			// under test between calls). It is reported, marked as such; the notice keeps the run from
			// passing silently if it ever happens without a recorded violation.
			r.notices = append(r.notices, fmt.Sprintf("HISTORY-DEPENDENT part=%s choices=%v class=%q did not fail the same way on re-execution", part, f.Choices, f.Class))
			f.Detail = "[history-dependent: this vector failed during the exploration but not when re-executed alone; the code under test keeps state between calls] " + f.Detail
			r.file(part, f, nil)
			continue
		}
		r.file(part, f, nil)
	}
	for class, n := range st.ClassCount {
		if _, keyed := r.knownKeys[class]; keyed {
			continue // counted one by one above (the part must store every failure)
		}
		if _, ok := r.known[class]; ok && class != "" {
			r.knownCount[class] += n
		} else {
			r.violations += int(n)
		}
	}
	// failures beyond the stored cap are counted per class only through FailCount
	fmt.Printf("[%s] part=%s execs=%d points=%d nontrivial=%d fails=%d exhaustive=%v %.1fs (%s)\n",
		r.ID, part, st.Execs, st.Points, st.NonTrivial, st.FailCount, st.Complete, ps.Wall, bound)
}

// stopRule: once a few hundred failures outside the known-finding classes were
// seen the verdict is settled; stop exploring (the run reports exhaustive:false).
func (r *Run) stopRule(o *mc.Opts) {
	if o.StopAfter == 0 {
		o.StopAfter = 500
	}
	o.Unknown = func(class string) bool {
		_, known := r.known[class]
		return !known || class == ""
	}
}

// onHang: an execution that does not terminate is a violation (the code under
// test loops forever on this input); the process cannot recover, so it reports
// and exits.
func (r *Run) onHang(part string) func([]int) {
	return func(choices []int) {
		f := mc.Failure{Class: "hang", Detail: "an execution did not terminate within the per-execution limit (the remaining choices after this prefix are all 0)", Choices: choices}
		r.file(part, f, nil)
		os.Exit(1)
	}
}

// Owned reports whether index idx belongs to this process's shard; when it does
// not, the execution is marked skipped and the driver must return at once.
func (r *Run) Owned(c *mc.Ctx, idx int) bool {
	if r.shardN > 0 && idx%r.shardN != r.shardI {
		c.Skip()
		return false
	}
	return true
}

// ExploreSharded runs the part in n child processes (each single-threaded,
// optionally under `ulimit -v`), merging their statistics. The driver must
// call r.Owned on its first choice so that shards partition the space.
func (r *Run) ExploreSharded(part, bound string, o mc.Opts, n int, body func(*mc.Ctx)) mc.Stats {
	if r.skip(part) {
		return mc.Stats{}
	}
	if r.replay != nil || n <= 1 {
		return r.Explore(part, bound, o, body)
	}
	if r.shardN > 0 { // child
		o.Workers = 1
		o.OnHang = r.onHang(part)
		r.stopRule(&o)
		if jp := os.Getenv("VERIF_JOURNAL"); jp != "" {
			if j := openJournal(jp, true); j != nil {
				o.Journal = j.writer(part)
			}
		}
		if lim := os.Getenv("VERIF_AS_LIMIT"); lim != "" {
			if n, err := strconv.ParseUint(lim, 10, 64); err == nil {
				syscall.Setrlimit(syscall.RLIMIT_AS, &syscall.Rlimit{Cur: n, Max: n})
			}
		}
		st := mc.Explore(o, body)
		st.Locals = nil
		out := childStats{Stats: st}
		if st.HarnessErr != nil {
			out.Herr = st.HarnessErr.Error()
			out.Stats.HarnessErr = nil
		}
		b, _ := json.Marshal(out)
		if err := os.WriteFile(r.childOut, b, 0o644); err != nil {
			fmt.Println("HARNESS-ERROR", err)
			os.Exit(2)
		}
		os.Exit(0)
	}
	t0 := time.Now()
	dir := filepath.Join(Root, ".work", "shards")
	os.MkdirAll(dir, 0o755)
	type res struct {
		st    childStats
		err   error
		viol  string
		crash *mc.Failure
	}
	results := make([]res, n)
	done := make(chan int)
	for i := 0; i < n; i++ {
		go func(i int) {
			defer func() { done <- i }()
			out := filepath.Join(dir, fmt.Sprintf("%s-%s-%d.json", r.ID, part, i))
			os.Remove(out)
			cmd := exec.Command(os.Args[0], "--tier", r.Tier, "--only", part, "--shard", fmt.Sprintf("%d/%d", i, n), "--child-out", out)
			jpath := out + ".journal"
			cmd.Env = append(os.Environ(), "GOMAXPROCS=1")
			cmd.Env = append(cmd.Env, "VERIF_JOURNAL="+jpath, "VERIF_SUPERVISED=1")
			if r.Isolate {
				cmd.Env = append(cmd.Env, fmt.Sprintf("VERIF_AS_LIMIT=%d", uint64(12)<<30))
			}
			ob, err := cmd.CombinedOutput()
			defer os.Remove(jpath)
			if err != nil {
				if strings.Contains(string(ob), "VIOLATION property=") {
					results[i].viol = string(ob)
					return
				}
				if cands := readJournal(jpath); len(cands) > 0 && crashed(string(ob)) {
					// the child died (fatal error: out of memory, stack overflow, ...): the journal names the input
					results[i].crash = &mc.Failure{Class: "crash", Choices: cands[0].choices, Detail: "the process died (not a recoverable panic) while executing this input (remaining choices after the prefix are 0): " + tail(string(ob), 1500)}
					return
				}
				results[i].err = fmt.Errorf("shard %d: %v: %s", i, err, tail(string(ob), 2000))
				return
			}
			b, err := os.ReadFile(out)
			if err == nil {
				err = json.Unmarshal(b, &results[i].st)
			}
			results[i].err = err
			os.Remove(out)
		}(i)
	}
	for i := 0; i < n; i++ {
		<-done
	}
	var st mc.Stats
	st.Complete = true
	st.ClassCount = map[string]int64{}
	for i := range results {
		if results[i].crash != nil {
			r.violations++
			r.file(part, *results[i].crash, nil)
			st.Complete = false
			continue
		}
		if results[i].viol != "" {
			fmt.Print(results[i].viol)
			r.violations++
			st.Complete = false
			continue
		}
		if results[i].err != nil {
			r.harnessErr = append(r.harnessErr, results[i].err.Error())
			st.Complete = false
			continue
		}
		c := results[i].st
		st.Execs += c.Execs
		st.Points += c.Points
		st.NonTrivial += c.NonTrivial
		st.FailCount += c.FailCount
		if c.MaxDepth > st.MaxDepth {
			st.MaxDepth = c.MaxDepth
		}
		st.Complete = st.Complete && c.Complete
		for k, v := range c.ClassCount {
			st.ClassCount[k] += v
		}
		st.Fails = append(st.Fails, c.Fails...)
		if c.Herr != "" {
			r.harnessErr = append(r.harnessErr, part+": "+c.Herr)
		}
	}
	r.account(part, bound, o, st, t0, body)
	return st
}

type childStats struct {
	mc.Stats
	Herr string
}

func tail(s string, n int) string {
	if len(s) > n {
		return s[len(s)-n:]
	}
	return s
}

// Custom runs a non-E1 part (BFS, static enumeration). fn returns its stats.
func (r *Run) Custom(part, bound string, fn func(p *Part)) {
	if r.skip(part) {
		return
	}
	p := &Part{r: r, name: part, Exhaustive: true}
	if r.replay != nil {
		p.ReplayCustom = r.replay.Custom
	}
	t0 := time.Now()
	fn(p)
	if r.replay != nil {
		if p.replayFails == 0 {
			fmt.Println("replay: no failure")
			os.Exit(0)
		}
		os.Exit(1)
	}
	ps := partStat{Name: part, Execs: p.Execs, Points: p.Points, NonTrivial: p.NonTrivial, MaxDepth: p.MaxDepth,
		Exhaustive: p.Exhaustive, Bound: bound, Fails: p.fails, Wall: time.Since(t0).Seconds()}
	r.parts = append(r.parts, ps)
	fmt.Printf("[%s] part=%s execs=%d nontrivial=%d fails=%d exhaustive=%v %.1fs (%s)\n",
		r.ID, part, p.Execs, p.NonTrivial, p.fails, p.Exhaustive, ps.Wall, bound)
}

// Part is the handle given to custom parts.
type Part struct {
	r                                   *Run
	name                                string
	Execs, Points, NonTrivial, MaxDepth int64
	Exhaustive                          bool
	fails                               int64
	ReplayCustom                        json.RawMessage // non-nil when replaying
	replayFails                         int
	filed                               map[string]int
	unknown                             int
}

// Fail reports a failure of a custom part; custom is what a replay needs.
func (p *Part) Fail(class, detail string, custom interface{}) {
	p.fails++
	if p.r.replay != nil {
		p.replayFails++
		if p.replayFails <= 10 {
			fmt.Printf("replay: FAIL class=%q %s\n", class, detail)
		}
		return
	}
	if p.filed == nil {
		p.filed = map[string]int{}
	}
	p.filed[class]++
	f := mc.Failure{Class: class, Detail: detail}
	if !p.r.isKnown(f) {
		p.unknown++
	}
	p.r.classify(p.name, f, custom, p.filed[class] <= 5)
}

// Settled reports that the part has seen enough failures outside the known-finding classes for the verdict
// to be settled (the same rule E1 parts apply through StopAfter); a search loop may stop and must then mark
// the part as not exhaustive.
func (p *Part) Settled() bool { return p.unknown >= 500 }

// HarnessError records a fault of the machinery itself (exit 2).
func (r *Run) HarnessError(format string, a ...interface{}) {
	r.harnessErr = append(r.harnessErr, fmt.Sprintf(format, a...))
}

// KeyOf extracts "key=<...>" from a failure detail, if the check supplied one.
func keyOf(detail string) string {
	i := strings.Index(detail, "key=")
	if i < 0 {
		return ""
	}
	s := detail[i+4:]
	if j := strings.IndexAny(s, " \n"); j >= 0 {
		s = s[:j]
	}
	return s
}

func (r *Run) isKnown(f mc.Failure) bool {
	if _, ok := r.known[f.Class]; !ok || f.Class == "" {
		return false
	}
	if keys, has := r.knownKeys[f.Class]; has {
		return keys[keyOf(f.Detail)]
	}
	return true
}

// classify is used by custom parts: count, and file a replay for violations.
func (r *Run) classify(part string, f mc.Failure, custom interface{}, file bool) {
	if r.isKnown(f) {
		r.knownCount[f.Class]++
		return
	}
	r.violations++
	if file {
		r.file(part, f, custom)
	}
}

func (r *Run) file(part string, f mc.Failure, custom interface{}) {
	doc := replayDoc{Property: r.ID, Part: part, Tier: r.Tier, Class: f.Class, Choices: f.Choices, Detail: f.Detail}
	if custom != nil {
		doc.Custom, _ = json.Marshal(custom)
	}
	b, _ := json.MarshalIndent(doc, "", " ")
	h := sha1.Sum(b)
	dir := filepath.Join(Root, "replays")
	os.MkdirAll(dir, 0o755)
	path := filepath.Join(dir, fmt.Sprintf("%s-%s.json", r.ID, hex.EncodeToString(h[:6])))
	os.WriteFile(path, b, 0o644)
	d := f.Detail
	if len(d) > 1500 {
		d = d[:1500] + "…"
	}
	fmt.Printf("VIOLATION property=%s replay=%s\n  part=%s class=%q %s\n", r.ID, path, part, f.Class, d)
}

// Finish writes the evidence file and exits with the contractual status.
func (r *Run) Finish() {
	if r.replay != nil {
		fmt.Println("replay: part", r.replay.Part, "not found in this check")
		os.Exit(2)
	}
	var execs, nontriv, points int64
	exhaustive := true
	for _, p := range r.parts {
		execs += p.Execs
		nontriv += p.NonTrivial
		points += p.Points
		if !p.Exhaustive {
			exhaustive = false
		}
	}
	// known findings: failures in a listed class beyond its pinned count are new violations
	ids := make([]string, 0, len(r.known))
	for c := range r.known {
		ids = append(ids, c)
	}
	sort.Strings(ids)
	var kfLines []string
	for _, c := range ids {
		kf := r.known[c]
		n := r.knownCount[c]
		if mx, ok := kf.MaxCount[r.Tier]; ok && n > mx && r.only == "" {
			r.violations++
			fmt.Printf("VIOLATION property=%s replay=%s\n  class=%q has %d failures, the known finding %s lists %d for tier %s\n",
				r.ID, filepath.Join(Root, "known_findings.json"), c, n, kf.ID, mx, r.Tier)
		}
		line := fmt.Sprintf("KNOWN-FINDING: property=%s %s [%s] (observed in this run: %d)", r.ID, kf.What, kf.ID, n)
		kfLines = append(kfLines, line)
		fmt.Println(line)
	}
	cov := map[string]interface{}{
		"evaluations":         execs,
		"distinct_nontrivial": nontriv,
		"rule":                r.Rule,
		"samples":             r.samples,
		"exhaustive":          exhaustive,
		"choice_points":       points,
		"parts":               r.parts,
		"counters":            r.counters,
		"known_findings":      kfLines,
	}
	if r.States > 0 {
		cov["states"] = r.States
		cov["transitions"] = r.Transitions
		cov["traces_validated_against_impl"] = r.Traces
	}
	if r.Programs > 0 {
		cov["programs"] = r.Programs
		cov["disagreements_checked"] = r.Disagreements
	}
	for k, v := range r.Extra {
		cov[k] = v
	}
	doc := map[string]interface{}{
		"property_id": r.ID, "tier": r.Tier, "seed": r.Seed, "level": r.Level, "coverage": cov,
		"assumptions": r.Assume, "wall_s": time.Since(r.start).Seconds(), "violations": r.violations,
	}
	if r.only == "" && os.Getenv("VERIF_NO_EVIDENCE") == "" {
		b, _ := json.MarshalIndent(doc, "", " ")
		os.MkdirAll(filepath.Join(Root, "evidence"), 0o755)
		if err := os.WriteFile(filepath.Join(Root, "evidence", r.ID+".json"), append(b, '\n'), 0o644); err != nil {
			fmt.Println("HARNESS-ERROR", err)
			os.Exit(2)
		}
	}
	for _, h := range r.notices {
		fmt.Println("NOTICE", h)
	}
	if len(r.notices) > 0 && r.violations == 0 {
		r.harnessErr = append(r.harnessErr, "history-dependent failures without a recorded violation")
	}
	if len(r.harnessErr) > 0 {
		for _, h := range r.harnessErr {
			fmt.Println("HARNESS-ERROR", h)
		}
		if r.violations == 0 {
			os.Exit(2)
		}
	}
	fmt.Printf("[%s] tier=%s evaluations=%d nontrivial=%d exhaustive=%v violations=%d wall=%.1fs\n",
		r.ID, r.Tier, execs, nontriv, exhaustive, r.violations, time.Since(r.start).Seconds())
	if r.violations > 0 {
		os.Exit(1)
	}
	os.Exit(0)
}
