// Package retain checks that what a call returned stays valid after later calls: a result that aliases a
// pooled or reused buffer is silently rewritten by the next call. Each worker keeps, per key, the value the
// previous execution obtained (the live reference and a private snapshot); the next execution compares them
// before replacing them.
package retain

import (
	"bytes"
	"fmt"

	"github.com/paulmach/orb"

	"verif/lib/refgeom"
)

type slot struct {
	live, snap []byte
	geo        orb.Geometry
	bits       string
	what       string
}

// Keeper holds the retained results of up to 256 workers.
type Keeper struct{ w [256]map[string]*slot }

func (k *Keeper) get(worker int, key string) *slot {
	worker &= 255
	if k.w[worker] == nil {
		k.w[worker] = map[string]*slot{}
	}
	s := k.w[worker][key]
	if s == nil {
		s = &slot{}
		k.w[worker][key] = s
	}
	return s
}

// Bytes compares the byte slice retained under key with its snapshot, then retains b. It returns a
// description of the damage, or "".
func (k *Keeper) Bytes(worker int, key string, b []byte, what string) string {
	s := k.get(worker, key)
	out := ""
	if s.live != nil && !bytes.Equal(s.live, s.snap) {
		out = fmt.Sprintf("the %s returned by an earlier call (%s) was overwritten by a later call: %x -> %x", key, s.what, trunc(s.snap), trunc(s.live))
	}
	s.live, s.snap, s.what = b, append([]byte(nil), b...), what
	return out
}

// Geometry does the same for a returned geometry (compared bit-wise, nil-ness included).
func (k *Keeper) Geometry(worker int, key string, g orb.Geometry, what string) string {
	s := k.get(worker, key)
	out := ""
	if s.bits != "" && refgeom.Bits(s.geo) != s.bits {
		out = fmt.Sprintf("the %s returned by an earlier call (%s) was modified by a later call: now %v", key, s.what, s.geo)
	}
	s.geo, s.bits, s.what = g, refgeom.Bits(g), what
	return out
}

func trunc(b []byte) []byte {
	if len(b) > 48 {
		return b[:48]
	}
	return b
}
