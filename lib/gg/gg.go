// Package gg is the shared geometry grammar G(k,m) of DESIGN.md section 2: a
// generator of orb geometries driven by an E1 context. Alternatives are ordered
// simplest first, so that a deviation bound (mc.Opts.MaxDev) explores the
// shapes that differ from the simplest one in at most d places.
package gg

import (
	"github.com/paulmach/orb"

	"verif/lib/mc"
)

// Gen configures the grammar.
type Gen struct {
	K         int  // max points per line/ring/multipoint
	M         int  // max parts per multi geometry / members per collection
	Depth     int  // max collection nesting depth (0 = no collections)
	NilSlice  bool // also generate typed nil slices at the top of each kind
	NoBound   bool
	SortBound bool // bounds get Min <= Max componentwise
	// Next returns the coordinates for the next slot (positional assignment).
	Next func() orb.Point
}

// counts are offered in the order 1, 2, .., max, 0, (nil): the default is one element.
func (g *Gen) count(c *mc.Ctx, max int, allowNil bool) (n int, isNil bool) {
	opts := max + 1
	if allowNil && g.NilSlice {
		opts++
	}
	v := c.Choose(opts)
	switch {
	case v < max:
		return v + 1, false
	case v == max:
		return 0, false
	default:
		return 0, true
	}
}

func (g *Gen) points(c *mc.Ctx, top bool) []orb.Point {
	n, isNil := g.count(c, g.K, top)
	if isNil {
		return nil
	}
	ps := make([]orb.Point, n)
	for i := range ps {
		ps[i] = g.Next()
	}
	return ps
}

// Kinds in "simplest first" order.
const (
	KPoint = iota
	KLineString
	KMultiPoint
	KRing
	KPolygon
	KMultiLineString
	KMultiPolygon
	KBound
	KCollection
	NKinds
)

var KindNames = []string{"Point", "LineString", "MultiPoint", "Ring", "Polygon", "MultiLineString", "MultiPolygon", "Bound", "Collection"}

// Kind generates a geometry of the given kind (top = a top-level value, where typed nil slices are offered).
func (g *Gen) Kind(c *mc.Ctx, kind int, depth int, top bool) orb.Geometry {
	switch kind {
	case KPoint:
		return g.Next()
	case KLineString:
		return orb.LineString(g.points(c, top))
	case KMultiPoint:
		return orb.MultiPoint(g.points(c, top))
	case KRing:
		return orb.Ring(g.points(c, top))
	case KPolygon:
		return g.polygon(c, top)
	case KMultiLineString:
		n, isNil := g.count(c, g.M, top)
		if isNil {
			return orb.MultiLineString(nil)
		}
		mls := make(orb.MultiLineString, n)
		for i := range mls {
			mls[i] = orb.LineString(g.points(c, false))
			if mls[i] == nil {
				mls[i] = orb.LineString{}
			}
		}
		return mls
	case KMultiPolygon:
		n, isNil := g.count(c, g.M, top)
		if isNil {
			return orb.MultiPolygon(nil)
		}
		mp := make(orb.MultiPolygon, n)
		for i := range mp {
			mp[i] = g.polygon(c, false)
		}
		return mp
	case KBound:
		a, b := g.Next(), g.Next()
		if g.SortBound {
			for i := 0; i < 2; i++ {
				if a[i] > b[i] {
					a[i], b[i] = b[i], a[i]
				}
			}
		}
		return orb.Bound{Min: a, Max: b}
	case KCollection:
		n, isNil := g.count(c, g.M, top)
		if isNil {
			return orb.Collection(nil)
		}
		col := make(orb.Collection, n)
		for i := range col {
			col[i] = g.Geometry(c, depth+1, false)
		}
		return col
	}
	panic("gg: bad kind")
}

func (g *Gen) polygon(c *mc.Ctx, top bool) orb.Polygon {
	n, isNil := g.count(c, g.M, top)
	if isNil {
		return nil
	}
	p := make(orb.Polygon, n)
	for i := range p {
		p[i] = orb.Ring(g.points(c, false))
		if p[i] == nil {
			p[i] = orb.Ring{}
		}
	}
	return p
}

// Geometry chooses a kind and generates it.
func (g *Gen) Geometry(c *mc.Ctx, depth int, top bool) orb.Geometry {
	nk := NKinds
	if depth >= g.Depth {
		nk = KCollection // no further nesting
	}
	k := c.Choose(nk)
	if g.NoBound && k == KBound {
		k = KPoint
	}
	return g.Kind(c, k, depth, top)
}

// Cyclic returns a Next function handing out consecutive pairs of vals, cyclically.
func Cyclic(vals []float64) (next func() orb.Point, reset func()) {
	i := 0
	return func() orb.Point {
			p := orb.Point{vals[i%len(vals)], vals[(i+1)%len(vals)]}
			i += 2
			return p
		}, func() {
			i = 0
		}
}

// CyclicAt is Cyclic with a reset that chooses the starting offset into vals (in pairs),
// so that every consecutive pair of values can occupy every slot of a shape.
func CyclicAt(vals []float64) (next func() orb.Point, resetAt func(pairOffset int)) {
	i := 0
	return func() orb.Point {
			p := orb.Point{vals[i%len(vals)], vals[(i+1)%len(vals)]}
			i += 2
			return p
		}, func(off int) {
			i = 2 * off
		}
}
