// Package exact holds the boring reference arithmetic (engine E5): small exact
// rationals and the geometric predicates built on them. Inputs are small
// integers or half-integers, so int64 numerators/denominators cannot overflow;
// every constructor normalises and Mul/Add check for overflow and panic (a
// harness error, never silently wrong).
package exact

import (
	"fmt"
	"math"
	"math/big"
)

// R is a normalised fraction N/D with D > 0.
type R struct{ N, D int64 }

func gcd(a, b int64) int64 {
	if a < 0 {
		a = -a
	}
	if b < 0 {
		b = -b
	}
	for b != 0 {
		a, b = b, a%b
	}
	return a
}

// New returns n/d.
func New(n, d int64) R {
	if d == 0 {
		panic("exact: zero denominator")
	}
	if d < 0 {
		n, d = -n, -d
	}
	if g := gcd(n, d); g > 1 {
		n, d = n/g, d/g
	}
	return R{n, d}
}

// I returns the integer n.
func I(n int64) R { return R{n, 1} }

// FromFloat converts a float that is a multiple of 1/1024 with small magnitude exactly.
func FromFloat(f float64) R {
	s := f * 1024
	if s != math.Trunc(s) || math.Abs(s) > 1<<40 {
		panic(fmt.Sprintf("exact.FromFloat(%v): not a small dyadic", f))
	}
	return New(int64(s), 1024)
}

func chk(a, b int64) int64 {
	p := a * b
	if a != 0 && (p/a != b || (a == -1 && b == math.MinInt64)) {
		panic("exact: overflow")
	}
	return p
}

func (a R) Add(b R) R {
	n1, n2 := chk(a.N, b.D), chk(b.N, a.D)
	s := n1 + n2
	if (n1 > 0 && n2 > 0 && s < 0) || (n1 < 0 && n2 < 0 && s >= 0) {
		panic("exact: overflow")
	}
	return New(s, chk(a.D, b.D))
}
func (a R) Neg() R        { return R{-a.N, a.D} }
func (a R) Sub(b R) R     { return a.Add(b.Neg()) }
func (a R) Mul(b R) R     { return New(chk(a.N, b.N), chk(a.D, b.D)) }
func (a R) Div(b R) R     { return a.Mul(New(b.D, b.N)) }
func (a R) Sign() int     { return sgn(a.N) }
func (a R) Cmp(b R) int   { return sgn(chk(a.N, b.D) - chk(b.N, a.D)) }
func (a R) Less(b R) bool { return a.Cmp(b) < 0 }
func (a R) Leq(b R) bool  { return a.Cmp(b) <= 0 }
func (a R) Eq(b R) bool   { return a.N == b.N && a.D == b.D }
func (a R) Float() float64 {
	f, _ := new(big.Rat).SetFrac64(a.N, a.D).Float64()
	return f
}
func (a R) String() string {
	if a.D == 1 {
		return fmt.Sprint(a.N)
	}
	return fmt.Sprintf("%d/%d", a.N, a.D)
}
func sgn(x int64) int {
	switch {
	case x < 0:
		return -1
	case x > 0:
		return 1
	}
	return 0
}
func Min(a, b R) R {
	if a.Less(b) {
		return a
	}
	return b
}
func Max(a, b R) R {
	if b.Less(a) {
		return a
	}
	return b
}

// P is an exact point.
type P struct{ X, Y R }

func PtF(x, y float64) P   { return P{FromFloat(x), FromFloat(y)} }
func (p P) Eq(q P) bool    { return p.X.Eq(q.X) && p.Y.Eq(q.Y) }
func (p P) String() string { return "(" + p.X.String() + "," + p.Y.String() + ")" }

// Lerp returns a + t(b-a).
func Lerp(a, b P, t R) P {
	return P{a.X.Add(b.X.Sub(a.X).Mul(t)), a.Y.Add(b.Y.Sub(a.Y).Mul(t))}
}

// Box is a closed axis-aligned box.
type Box struct{ MinX, MinY, MaxX, MaxY R }

// ClipSegment is Liang–Barsky: the parameter interval [t0,t1] of a + t(b-a),
// t in [0,1], inside the closed box; ok=false when empty. A degenerate segment
// (a==b) yields [0,0] when the point is inside.
func ClipSegment(bx Box, a, b P) (t0, t1 R, ok bool) {
	t0, t1 = I(0), I(1)
	dx, dy := b.X.Sub(a.X), b.Y.Sub(a.Y)
	clip := func(p, q R) bool { // p*t <= q
		if p.Sign() == 0 {
			return q.Sign() >= 0
		}
		r := q.Div(p)
		if p.Sign() < 0 {
			if t1.Less(r) {
				return false
			}
			if t0.Less(r) {
				t0 = r
			}
		} else {
			if r.Less(t0) {
				return false
			}
			if r.Less(t1) {
				t1 = r
			}
		}
		return true
	}
	if clip(dx.Neg(), a.X.Sub(bx.MinX)) && clip(dx, bx.MaxX.Sub(a.X)) &&
		clip(dy.Neg(), a.Y.Sub(bx.MinY)) && clip(dy, bx.MaxY.Sub(a.Y)) {
		return t0, t1, true
	}
	return t0, t1, false
}

// StrictlyInside reports whether p is in the open box.
func (bx Box) StrictlyInside(p P) bool {
	return bx.MinX.Less(p.X) && p.X.Less(bx.MaxX) && bx.MinY.Less(p.Y) && p.Y.Less(bx.MaxY)
}

// Contains reports whether p is in the closed box.
func (bx Box) Contains(p P) bool {
	return bx.MinX.Leq(p.X) && p.X.Leq(bx.MaxX) && bx.MinY.Leq(p.Y) && p.Y.Leq(bx.MaxY)
}

// Cross returns (b-a) x (c-a).
func Cross(a, b, c P) R {
	return b.X.Sub(a.X).Mul(c.Y.Sub(a.Y)).Sub(b.Y.Sub(a.Y).Mul(c.X.Sub(a.X)))
}

// OnSegment reports whether p lies on the closed segment ab.
func OnSegment(a, b, p P) bool {
	if Cross(a, b, p).Sign() != 0 {
		return false
	}
	return Min(a.X, b.X).Leq(p.X) && p.X.Leq(Max(a.X, b.X)) && Min(a.Y, b.Y).Leq(p.Y) && p.Y.Leq(Max(a.Y, b.Y))
}

// InRing is the exact even-odd test for a closed vertex list (first == last or
// implicitly closed): returns inside, onBoundary.
func InRing(ring []P, p P) (inside, boundary bool) {
	n := len(ring)
	if n == 0 {
		return false, false
	}
	if n == 1 {
		return false, ring[0].Eq(p)
	}
	in := false
	for i := 0; i < n; i++ {
		a, b := ring[i], ring[(i+1)%n]
		if i == n-1 && ring[0].Eq(ring[n-1]) {
			break // explicit closing vertex: the wrap-around edge is degenerate
		}
		if OnSegment(a, b, p) {
			return false, true
		}
		// half-open rule on y
		if (a.Y.Cmp(p.Y) > 0) != (b.Y.Cmp(p.Y) > 0) {
			// x coordinate of the edge at p.Y compared with p.X, exactly
			// sign of cross(a,b,p) relative to the direction of the edge
			c := Cross(a, b, p).Sign()
			if b.Y.Cmp(a.Y) > 0 {
				if c > 0 {
					in = !in
				}
			} else if c < 0 {
				in = !in
			}
		}
	}
	return in, false
}

// Area2 returns twice the signed shoelace area of a closed or unclosed ring.
func Area2(ring []P) R {
	s := I(0)
	n := len(ring)
	for i := 0; i < n; i++ {
		a, b := ring[i], ring[(i+1)%n]
		s = s.Add(a.X.Mul(b.Y).Sub(b.X.Mul(a.Y)))
	}
	return s
}

// ---- integer versions (coordinates pre-scaled to integers), used in hot loops ----

// IP is an integer point.
type IP [2]int64

func crossI(a, b, c IP) int64 { return (b[0]-a[0])*(c[1]-a[1]) - (b[1]-a[1])*(c[0]-a[0]) }

// OnSegmentI reports whether p lies on the closed segment ab.
func OnSegmentI(a, b, p IP) bool {
	if crossI(a, b, p) != 0 {
		return false
	}
	return min(a[0], b[0]) <= p[0] && p[0] <= max(a[0], b[0]) && min(a[1], b[1]) <= p[1] && p[1] <= max(a[1], b[1])
}

// InRingI is the exact even-odd test on an implicitly closed vertex list (an
// explicit closing vertex is harmless: it adds a degenerate edge).
func InRingI(ring []IP, p IP) (inside, boundary bool) {
	n := len(ring)
	if n == 0 {
		return false, false
	}
	in := false
	for i := 0; i < n; i++ {
		a, b := ring[i], ring[(i+1)%n]
		if OnSegmentI(a, b, p) {
			return false, true
		}
		if (a[1] > p[1]) != (b[1] > p[1]) {
			c := crossI(a, b, p)
			if b[1] > a[1] {
				if c > 0 {
					in = !in
				}
			} else if c < 0 {
				in = !in
			}
		}
	}
	return in, false
}

// Area2I is twice the signed shoelace area of the implicitly closed list.
func Area2I(ring []IP) int64 {
	var s int64
	n := len(ring)
	for i := 0; i < n; i++ {
		a, b := ring[i], ring[(i+1)%n]
		s += a[0]*b[1] - b[0]*a[1]
	}
	return s
}
