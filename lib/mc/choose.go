// Package mc is the exploration core (engine E1 of DESIGN.md): a stateless,
// exhaustive explorer for nondeterministic drivers.  A driver is an ordinary Go
// function that asks Ctx.Choose(n) at every decision; the explorer runs it once
// per choice vector, odometer style, optionally bounded by the number of
// non-default (non-zero) choices ("deviations").  Nothing here samples.
package mc

import (
	"fmt"
	"runtime"
	"runtime/debug"
	"sync"
	"sync/atomic"
	"time"
)

// Ctx is handed to the driver for one execution.
type Ctx struct {
	Worker int // index of the worker goroutine running this execution
	Replay bool

	forced []int
	trail  []int
	arity  []int

	fails      []Failure
	nontrivial bool
	skipped    bool
	local      interface{}
}

// Skip marks this execution as not belonging to this run (another shard owns
// it); it is then not counted.
func (c *Ctx) Skip() { c.skipped = true }

// Failure is one oracle failure reported by a driver.
type Failure struct {
	Class   string // "" = unclassified; otherwise a named predicate (see known_findings.json)
	Detail  string
	Choices []int
}

// ErrDiverged is raised (as a panic caught by the explorer and turned into a
// hard harness error) when a forced choice does not fit the arity seen on
// replay: the driver is not a deterministic function of its choices.
type ErrDiverged struct{ Pos, Forced, Arity int }

func (e ErrDiverged) Error() string {
	return fmt.Sprintf("NONDETERMINISM: forced choice %d at point %d but arity is %d", e.Forced, e.Pos, e.Arity)
}

// Choose returns a value in [0,n).  0 is the default answer.
func (c *Ctx) Choose(n int) int {
	if n <= 0 {
		panic(fmt.Sprintf("mc.Choose(%d)", n))
	}
	pos := len(c.trail)
	v := 0
	if pos < len(c.forced) {
		v = c.forced[pos]
		if v >= n {
			panic(ErrDiverged{pos, v, n})
		}
	}
	c.trail = append(c.trail, v)
	c.arity = append(c.arity, n)
	return v
}

// Bool is Choose(2)==1.
func (c *Ctx) Bool() bool { return c.Choose(2) == 1 }

// Failf records an oracle failure for this execution.
func (c *Ctx) Failf(class, format string, args ...interface{}) {
	c.fails = append(c.fails, Failure{Class: class, Detail: fmt.Sprintf(format, args...)})
}

// NonTrivial marks this execution as a non-trivial case by the part's rule.
func (c *Ctx) NonTrivial() { c.nontrivial = true }

// Trail returns the choices made so far (read-only).
func (c *Ctx) Trail() []int { return c.trail }

// Local returns the per-worker value made by Opts.NewLocal.
func (c *Ctx) Local() interface{} { return c.local }

// Opts configures one exploration.
type Opts struct {
	Workers  int           // 0 = GOMAXPROCS
	MaxDev   int           // <0: full product; >=0: at most MaxDev non-zero choices
	Split    int           // choice depth used for work sharing (default 3)
	Deadline time.Duration // 0 = none; hitting it makes the run non-exhaustive
	NewLocal func(worker int) interface{}
	MaxFails int // stop collecting (not counting) failures after this many; default 200
	// ExecTimeout: a single execution running longer than this is reported through
	// OnHang (the goroutine cannot be killed, so OnHang must end the process).
	// Default 60s; executions normally take microseconds.
	ExecTimeout time.Duration
	OnHang      func(choices []int)
	// Journal, if set, is called with the forced prefix before every execution
	// (crash forensics for child processes: a Go fatal error cannot be recovered).
	Journal func(worker int, forced []int)
	// StopAfter: stop exploring once this many failures whose class satisfies
	// Unknown (nil = every class) were seen; the run is then not exhaustive.
	StopAfter int
	Unknown   func(class string) bool
}

// Stats is what an exploration measured.
type Stats struct {
	Execs      int64
	Points     int64
	NonTrivial int64
	MaxDepth   int64
	Complete   bool // the bounded tree was enumerated to the end
	FailCount  int64
	ClassCount map[string]int64 // every failure, by class (Fails may be capped)
	Fails      []Failure
	Locals     []interface{}
	HarnessErr error
}

type task struct{ prefix []int }

type explorer struct {
	o    Opts
	body func(*Ctx)

	mu      sync.Mutex
	cond    *sync.Cond
	queue   []task
	pending int // tasks queued or running
	stop    atomic.Bool

	execs, points, nontriv, maxDepth, failCount atomic.Int64
	failMu                                      sync.Mutex
	fails                                       []Failure
	classCount                                  map[string]int64
	unknown                                     int
	herr                                        error
	deadline                                    time.Time
	started                                     []atomic.Int64
	current                                     []atomic.Pointer[[]int]
	timedOut                                    atomic.Bool
}

// Explore enumerates every choice vector of body (within MaxDev) exactly once.
func Explore(o Opts, body func(*Ctx)) Stats {
	if o.Workers <= 0 {
		o.Workers = runtime.GOMAXPROCS(0)
	}
	if o.Split <= 0 {
		o.Split = 3
	}
	if o.MaxFails <= 0 {
		o.MaxFails = 200
	}
	e := &explorer{o: o, body: body, classCount: map[string]int64{}}
	e.cond = sync.NewCond(&e.mu)
	if o.Deadline > 0 {
		e.deadline = time.Now().Add(o.Deadline)
	}
	e.queue = []task{{}}
	e.pending = 1
	locals := make([]interface{}, o.Workers)
	e.started = make([]atomic.Int64, o.Workers)
	e.current = make([]atomic.Pointer[[]int], o.Workers)
	if o.ExecTimeout <= 0 {
		o.ExecTimeout = 60 * time.Second
	}
	stopWatch := make(chan struct{})
	if o.OnHang != nil {
		go func() {
			tk := time.NewTicker(time.Second)
			defer tk.Stop()
			for {
				select {
				case <-stopWatch:
					return
				case <-tk.C:
					now := time.Now().UnixNano()
					for w := range e.started {
						if t0 := e.started[w].Load(); t0 != 0 && now-t0 > int64(o.ExecTimeout) {
							var ch []int
							if p := e.current[w].Load(); p != nil {
								ch = *p
							}
							o.OnHang(ch)
						}
					}
				}
			}
		}()
	}
	defer close(stopWatch)
	var wg sync.WaitGroup
	for w := 0; w < o.Workers; w++ {
		if o.NewLocal != nil {
			locals[w] = o.NewLocal(w)
		}
		wg.Add(1)
		go func(w int) {
			defer wg.Done()
			e.worker(w, locals[w])
		}(w)
	}
	wg.Wait()
	return Stats{
		Execs: e.execs.Load(), Points: e.points.Load(), NonTrivial: e.nontriv.Load(),
		MaxDepth: e.maxDepth.Load(), Complete: !e.timedOut.Load() && e.herr == nil,
		FailCount: e.failCount.Load(), ClassCount: e.classCount, Fails: e.fails, Locals: locals, HarnessErr: e.herr,
	}
}

func (e *explorer) worker(w int, local interface{}) {
	for {
		e.mu.Lock()
		for len(e.queue) == 0 && e.pending > 0 {
			e.cond.Wait()
		}
		if len(e.queue) == 0 {
			e.mu.Unlock()
			e.cond.Broadcast()
			return
		}
		t := e.queue[len(e.queue)-1]
		e.queue = e.queue[:len(e.queue)-1]
		e.mu.Unlock()

		e.subtree(w, local, t.prefix)

		e.mu.Lock()
		e.pending--
		done := e.pending == 0
		e.mu.Unlock()
		if done {
			e.cond.Broadcast()
		}
	}
}

func nonzero(v []int) int {
	n := 0
	for _, x := range v {
		if x != 0 {
			n++
		}
	}
	return n
}

// subtree explores everything below prefix. Alternatives at positions
// < Split become new tasks; deeper ones are explored here, depth first.
func (e *explorer) subtree(w int, local interface{}, prefix []int) {
	c := &Ctx{Worker: w, local: local}
	forced := append([]int(nil), prefix...)
	first := true
	locked := len(prefix)
	for {
		if e.stop.Load() {
			return
		}
		if !e.deadline.IsZero() && time.Now().After(e.deadline) {
			e.timedOut.Store(true)
			e.stop.Store(true)
			return
		}
		e.runOne(c, forced)
		t, a := c.trail, c.arity
		if first {
			first = false
			// share the shallow alternatives
			lim := e.o.Split
			if lim > len(t) {
				lim = len(t)
			}
			if lim > locked {
				var nt []task
				nz := nonzero(t[:locked])
				for i := locked; i < lim; i++ {
					if e.o.MaxDev < 0 || nz < e.o.MaxDev { // t[i]==0 here (default), alt adds one deviation
						for alt := 1; alt < a[i]; alt++ {
							p := make([]int, i+1)
							copy(p, t[:i])
							p[i] = alt
							nt = append(nt, task{p})
						}
					}
					if t[i] != 0 {
						nz++
					}
				}
				if len(nt) > 0 {
					e.mu.Lock()
					e.queue = append(e.queue, nt...)
					e.pending += len(nt)
					e.mu.Unlock()
					e.cond.Broadcast()
				}
				locked = lim
			}
		}
		// odometer step among positions >= locked
		i := len(t) - 1
		var nzPrefix int
		if e.o.MaxDev >= 0 {
			nzPrefix = nonzero(t)
		}
		for ; i >= locked; i-- {
			if e.o.MaxDev >= 0 && t[i] != 0 {
				nzPrefix--
			}
			// nzPrefix == nonzero(t[:i]) when MaxDev>=0
			if t[i]+1 < a[i] {
				if e.o.MaxDev < 0 || t[i] != 0 || nzPrefix < e.o.MaxDev {
					break
				}
			}
		}
		if i < locked {
			return
		}
		forced = append(forced[:0], t[:i]...)
		forced = append(forced, t[i]+1)
	}
}

func (e *explorer) runOne(c *Ctx, forced []int) {
	c.forced = forced
	c.trail = c.trail[:0]
	c.arity = c.arity[:0]
	c.fails = c.fails[:0]
	c.nontrivial = false
	c.skipped = false
	if e.o.Journal != nil {
		e.o.Journal(c.Worker, forced)
	}
	if e.started != nil {
		f := append([]int(nil), forced...)
		e.current[c.Worker].Store(&f)
		e.started[c.Worker].Store(time.Now().UnixNano())
		defer e.started[c.Worker].Store(0)
	}
	func() {
		defer func() {
			if r := recover(); r != nil {
				if d, ok := r.(ErrDiverged); ok {
					e.failMu.Lock()
					if e.herr == nil {
						e.herr = d
					}
					e.failMu.Unlock()
					e.stop.Store(true)
					return
				}
				c.fails = append(c.fails, Failure{Class: "panic", Detail: fmt.Sprintf("panic: %v\n%s", r, trimStack(debug.Stack()))})
			}
		}()
		e.body(c)
	}()
	if c.skipped {
		return
	}
	e.execs.Add(1)
	e.points.Add(int64(len(c.trail)))
	if c.nontrivial {
		e.nontriv.Add(1)
	}
	if d := int64(len(c.trail)); d > e.maxDepth.Load() {
		e.maxDepth.Store(d)
	}
	if len(c.fails) > 0 {
		e.failCount.Add(int64(len(c.fails)))
		e.failMu.Lock()
		for _, f := range c.fails {
			if e.o.StopAfter > 0 && (e.o.Unknown == nil || e.o.Unknown(f.Class)) {
				e.unknown++
				if e.unknown >= e.o.StopAfter {
					e.timedOut.Store(true)
					e.stop.Store(true)
				}
			}
			e.classCount[f.Class]++
			if len(e.fails) < e.o.MaxFails || !classSeen(e.fails, f.Class) {
				f.Choices = append([]int(nil), c.trail...)
				e.fails = append(e.fails, f)
			}
		}
		e.failMu.Unlock()
	}
}

func classSeen(fs []Failure, class string) bool {
	for _, f := range fs {
		if f.Class == class {
			return true
		}
	}
	return false
}

func trimStack(b []byte) string {
	if len(b) > 3000 {
		b = b[:3000]
	}
	return string(b)
}

// RunOnce executes body with exactly the given choice vector (replay without
// the explorer).  It returns the failures and the trail actually taken.
func RunOnce(choices []int, local interface{}, body func(*Ctx)) (fails []Failure, trail []int, err error) {
	c := &Ctx{forced: choices, Replay: true, local: local}
	func() {
		defer func() {
			if r := recover(); r != nil {
				if d, ok := r.(ErrDiverged); ok {
					err = d
					return
				}
				c.fails = append(c.fails, Failure{Class: "panic", Detail: fmt.Sprintf("panic: %v\n%s", r, trimStack(debug.Stack()))})
			}
		}()
		body(c)
	}()
	if err == nil && len(c.trail) < len(choices) {
		err = fmt.Errorf("NONDETERMINISM: replay consumed %d of %d forced choices", len(c.trail), len(choices))
	}
	return c.fails, append([]int(nil), c.trail...), err
}
