// Package sched is engine E2: a cooperative scheduler that owns every context
// switch between a fixed set of logical threads. Exactly one thread runs at a
// time; Yield is the only scheduling point; the choice of the next thread is
// delegated to the E1 explorer (mc.Ctx), so all schedules with at most `Bound`
// preemptions are enumerated exhaustively.
package sched

import (
	"fmt"
	"runtime/debug"

	"verif/lib/mc"
)

// S is one scheduled execution.
type S struct {
	c       *mc.Ctx
	Bound   int // max preemptions; <0 = unbounded
	Horizon int

	threads []*thread
	cur     int
	active  bool
	preempt int
	Steps   int
	Trace   []int // thread id chosen at each scheduling point
	events  chan event

	// AtPoint, if set, is called by the scheduler at every scheduling point
	// (while no thread runs): the place for state invariants.
	AtPoint func(s *S)

	Failures []string
}

type thread struct {
	id     int
	resume chan struct{}
	done   bool
}

type event struct {
	tid  int
	done bool
	pan  string
}

// New creates a scheduler driven by c.
func New(c *mc.Ctx, bound int) *S {
	return &S{c: c, Bound: bound, Horizon: 10000}
}

// Active reports whether managed threads are running.
func (s *S) Active() bool { return s != nil && s.active }

// Yield is called from the running managed thread (directly or through a
// callback); outside a managed run it does nothing.
func (s *S) Yield() {
	if s == nil || !s.active {
		return
	}
	t := s.threads[s.cur]
	s.events <- event{tid: t.id}
	<-t.resume
}

// Run executes the thread bodies to completion under the scheduler.
func (s *S) Run(bodies []func()) {
	s.threads = nil
	s.events = make(chan event)
	for i := range bodies {
		t := &thread{id: i, resume: make(chan struct{})}
		s.threads = append(s.threads, t)
		body := bodies[i]
		go func() {
			<-t.resume
			ev := event{tid: t.id, done: true}
			defer func() {
				if r := recover(); r != nil {
					ev.pan = fmt.Sprintf("%v\n%s", r, debug.Stack())
				}
				s.events <- ev
			}()
			body()
		}()
	}
	s.active = true
	s.cur = -1
	defer func() { s.active = false }()
	for {
		// enabled threads in canonical order: the running one first, then ascending ids
		var en []int
		if s.cur >= 0 && !s.threads[s.cur].done {
			en = append(en, s.cur)
		}
		for _, t := range s.threads {
			if !t.done && t.id != s.cur {
				en = append(en, t.id)
			}
		}
		if len(en) == 0 {
			return
		}
		if s.AtPoint != nil {
			s.AtPoint(s)
		}
		runningEnabled := s.cur >= 0 && !s.threads[s.cur].done
		n := len(en)
		if runningEnabled && s.Bound >= 0 && s.preempt >= s.Bound {
			n = 1 // no preemption budget left: the running thread continues
		}
		pick := 0
		if n > 1 {
			pick = s.c.Choose(n)
		}
		if runningEnabled && pick != 0 {
			s.preempt++
		}
		s.cur = en[pick]
		s.Trace = append(s.Trace, s.cur)
		s.Steps++
		if s.Steps > s.Horizon {
			s.Failures = append(s.Failures, fmt.Sprintf("horizon of %d steps exceeded", s.Horizon))
			// let everything drain without further choices
			s.Bound = 0
		}
		s.threads[s.cur].resume <- struct{}{}
		e := <-s.events
		if e.done {
			s.threads[e.tid].done = true
		}
		if e.pan != "" {
			s.Failures = append(s.Failures, fmt.Sprintf("thread %d panicked: %s", e.tid, e.pan))
		}
	}
}
