package qt

import (
	"fmt"
	"reflect"
	"strings"
	"unsafe"

	"github.com/paulmach/orb/quadtree"
)

// layout of the private structs, discovered once by reflection.
type layout struct {
	ok          bool
	qtSize      uintptr
	rootOff     uintptr
	nodeSize    uintptr
	childrenOff uintptr
	extra       []int // indices of Quadtree fields other than bound/root
	nodeExtra   bool  // node has fields other than Value/Children
}

var lay = discover()

func discover() (l layout) {
	defer func() {
		if recover() != nil {
			l.ok = false
		}
	}()
	t := reflect.TypeOf(quadtree.Quadtree{})
	l.qtSize = t.Size()
	var nodeT reflect.Type
	for i := 0; i < t.NumField(); i++ {
		f := t.Field(i)
		switch f.Name {
		case "bound":
		case "root":
			l.rootOff = f.Offset
			nodeT = f.Type.Elem()
		default:
			l.extra = append(l.extra, i)
		}
	}
	if nodeT == nil || nodeT.Kind() != reflect.Struct {
		return
	}
	l.nodeSize = nodeT.Size()
	found := 0
	for i := 0; i < nodeT.NumField(); i++ {
		f := nodeT.Field(i)
		switch f.Name {
		case "Value":
			found++
		case "Children":
			if f.Type.Kind() != reflect.Array || f.Type.Len() != 4 || f.Type.Elem().Kind() != reflect.Ptr {
				return
			}
			l.childrenOff = f.Offset
			found++
		default:
			// unknown fields: only plain data is safe to hash raw; otherwise use the slow path
			switch f.Type.Kind() {
			case reflect.Ptr, reflect.Slice, reflect.Map, reflect.Interface, reflect.String, reflect.Struct, reflect.Array:
				l.nodeExtra = true
			}
		}
	}
	l.ok = found == 2 && !l.nodeExtra
	return
}

// Fingerprint is a cheap complete fingerprint of the tree for use *within one
// execution*: raw memory of the Quadtree struct and of every node (addresses
// included), plus a reflective dump of any field the known layout does not
// explain. If the layout is not the expected one it falls back to Dump.
func Fingerprint(q *quadtree.Quadtree) string {
	if !lay.ok {
		return Dump(q)
	}
	var sb strings.Builder
	base := unsafe.Pointer(q)
	sb.Write(unsafe.Slice((*byte)(base), lay.qtSize))
	var rec func(n unsafe.Pointer)
	rec = func(n unsafe.Pointer) {
		if n == nil {
			return
		}
		var a [8]byte
		*(*uintptr)(unsafe.Pointer(&a[0])) = uintptr(n)
		sb.Write(a[:])
		sb.Write(unsafe.Slice((*byte)(n), lay.nodeSize))
		ch := (*[4]unsafe.Pointer)(unsafe.Add(n, lay.childrenOff))
		for i := 0; i < 4; i++ {
			rec(ch[i])
		}
	}
	rec(*(*unsafe.Pointer)(unsafe.Add(base, lay.rootOff)))
	if len(lay.extra) > 0 {
		rv := reflect.ValueOf(q).Elem()
		seen := map[unsafe.Pointer]int{}
		for _, i := range lay.extra {
			fmt.Fprintf(&sb, "|%s:", rv.Type().Field(i).Name)
			dump(&sb, open(rv.Field(i)), seen)
		}
	}
	return sb.String()
}

// FastLayout reports whether the fast path is in use.
func FastLayout() bool { return lay.ok }
