package qt

// Reach enumerates, breadth first, one shortest history for every distinct tree
// structure reachable in at most maxDepth operations (all three mutations over
// the universe's alphabet, multiplicities bounded by MaxCount).
func Reach(u *Universe, maxDepth int) [][]Op {
	type st struct {
		h []Op
		c []int
	}
	q0 := u.Build(nil)
	seen := map[string]bool{Dump(q0): true}
	out := [][]Op{nil}
	level := []st{{nil, make([]int, len(u.Ps))}}
	for d := 0; d < maxDepth && len(level) > 0; d++ {
		var next []st
		for _, s := range level {
			for kind := 0; kind < 3; kind++ {
				for i := range u.Ps {
					if kind == 0 && s.c[i] >= u.MaxCount[i] {
						continue
					}
					h := append(append([]Op(nil), s.h...), Op{kind, i})
					q := u.Build(h)
					k := Dump(q)
					if seen[k] {
						continue
					}
					seen[k] = true
					w, _, err := Walk(q)
					if err != nil {
						panic(err)
					}
					next = append(next, st{h, u.Counts(w)})
					out = append(out, h)
				}
			}
		}
		level = next
	}
	return out
}
