// Package qt reads the private state of a quadtree by reflection (no hook in
// /repo): a complete structural dump used as the state key of the explicit-state
// search (C11) and as the "nothing was written" invariant of C19.
package qt

import (
	"fmt"
	"reflect"
	"strings"
	"unsafe"

	"github.com/paulmach/orb"
	"github.com/paulmach/orb/quadtree"
)

// P is the harness's pointer type; identity is the Go pointer.
type P struct {
	ID   int
	Name string
	Pt   orb.Point
	Hook func(*P) // called inside Point(): the callback seam of the scheduler (C19)
}

// Point implements orb.Pointer.
func (p *P) Point() orb.Point {
	if p.Hook != nil {
		p.Hook(p)
	}
	return p.Pt
}

func open(v reflect.Value) reflect.Value {
	if v.CanInterface() {
		return v
	}
	if !v.CanAddr() {
		panic(fmt.Sprintf("qt: cannot open non-addressable %s", v.Type()))
	}
	return reflect.NewAt(v.Type(), unsafe.Pointer(v.UnsafeAddr())).Elem()
}

// Dump renders every field reachable from the quadtree, recursively, including
// slice storage up to capacity. Harness pointers print as their name only
// (their own fields are immutable and not part of the tree).
func Dump(q *quadtree.Quadtree) string {
	var sb strings.Builder
	seen := map[unsafe.Pointer]int{}
	dump(&sb, reflect.ValueOf(q).Elem(), seen)
	return sb.String()
}

// DumpValue dumps an arbitrary addressable value (package-level variables).
func DumpValue(v reflect.Value) string {
	var sb strings.Builder
	dump(&sb, v, map[unsafe.Pointer]int{})
	return sb.String()
}

func dump(sb *strings.Builder, v reflect.Value, seen map[unsafe.Pointer]int) {
	switch v.Kind() {
	case reflect.Struct:
		sb.WriteByte('{')
		for i := 0; i < v.NumField(); i++ {
			if i > 0 {
				sb.WriteByte(' ')
			}
			sb.WriteString(v.Type().Field(i).Name)
			sb.WriteByte(':')
			dump(sb, open(v.Field(i)), seen)
		}
		sb.WriteByte('}')
	case reflect.Ptr:
		if v.IsNil() {
			sb.WriteString("nil")
			return
		}
		if p, ok := v.Interface().(*P); ok {
			sb.WriteString(p.Name)
			return
		}
		ptr := unsafe.Pointer(v.Pointer())
		if id, ok := seen[ptr]; ok {
			fmt.Fprintf(sb, "^%d", id)
			return
		}
		seen[ptr] = len(seen)
		sb.WriteByte('&')
		dump(sb, v.Elem(), seen)
	case reflect.Interface:
		if v.IsNil() {
			sb.WriteString("nil")
			return
		}
		e := v.Elem()
		if e.Kind() == reflect.Ptr || e.Kind() == reflect.Struct || e.Kind() == reflect.Slice {
			if e.Kind() != reflect.Ptr {
				// copy to addressable storage
				c := reflect.New(e.Type()).Elem()
				c.Set(e)
				e = c
			}
		}
		dump(sb, e, seen)
	case reflect.Slice:
		if v.IsNil() {
			sb.WriteString("nil[]")
			return
		}
		full := v.Slice3(0, v.Cap(), v.Cap())
		fmt.Fprintf(sb, "[len=%d cap=%d:", v.Len(), v.Cap())
		for i := 0; i < full.Len(); i++ {
			sb.WriteByte(' ')
			dump(sb, full.Index(i), seen)
		}
		sb.WriteByte(']')
	case reflect.Array:
		sb.WriteByte('[')
		for i := 0; i < v.Len(); i++ {
			if i > 0 {
				sb.WriteByte(' ')
			}
			dump(sb, v.Index(i), seen)
		}
		sb.WriteByte(']')
	case reflect.Map:
		if v.IsNil() {
			sb.WriteString("nilmap")
			return
		}
		// order-insensitive rendering: sort the rendered entries
		var ents []string
		it := v.MapRange()
		for it.Next() {
			var e strings.Builder
			k := reflect.New(it.Key().Type()).Elem()
			k.Set(it.Key())
			val := reflect.New(it.Value().Type()).Elem()
			val.Set(it.Value())
			dump(&e, k, seen)
			e.WriteByte('=')
			dump(&e, val, seen)
			ents = append(ents, e.String())
		}
		sortStrings(ents)
		sb.WriteString("map[" + strings.Join(ents, ",") + "]")
	case reflect.Float64, reflect.Float32:
		fmt.Fprintf(sb, "%v", v.Float())
	case reflect.Int, reflect.Int8, reflect.Int16, reflect.Int32, reflect.Int64:
		fmt.Fprintf(sb, "%d", v.Int())
	case reflect.Uint, reflect.Uint8, reflect.Uint16, reflect.Uint32, reflect.Uint64, reflect.Uintptr:
		fmt.Fprintf(sb, "%d", v.Uint())
	case reflect.Bool:
		fmt.Fprintf(sb, "%v", v.Bool())
	case reflect.String:
		fmt.Fprintf(sb, "%q", v.String())
	case reflect.Func, reflect.Chan, reflect.UnsafePointer:
		if v.IsNil() {
			sb.WriteString("nil")
		} else {
			fmt.Fprintf(sb, "%s@%x", v.Kind(), v.Pointer())
		}
	default:
		fmt.Fprintf(sb, "?%s", v.Kind())
	}
}

func sortStrings(a []string) {
	for i := 1; i < len(a); i++ {
		for j := i; j > 0 && a[j] < a[j-1]; j-- {
			a[j], a[j-1] = a[j-1], a[j]
		}
	}
}

// Walk lists the stored pointers of the tree with the cell of their node, using
// the known layout {bound, root{Value, Children[4]}}. err != nil means the
// layout is not the expected one (the harness must then say so, not guess).
type Stored struct {
	P                        orb.Pointer
	Left, Right, Bottom, Top float64
	Depth                    int
}

func Walk(q *quadtree.Quadtree) (out []Stored, nodes int, err error) {
	defer func() {
		if r := recover(); r != nil {
			err = fmt.Errorf("quadtree layout not as expected: %v", r)
		}
	}()
	rv := reflect.ValueOf(q).Elem()
	bf := rv.FieldByName("bound")
	rf := rv.FieldByName("root")
	if !bf.IsValid() || !rf.IsValid() {
		return nil, 0, fmt.Errorf("quadtree layout not as expected: fields bound/root missing")
	}
	b := open(bf).Interface().(orb.Bound)
	var rec func(n reflect.Value, l, r, bo, t float64, d int)
	rec = func(n reflect.Value, l, r, bo, t float64, d int) {
		if n.IsNil() {
			return
		}
		nodes++
		e := n.Elem()
		val := open(e.FieldByName("Value"))
		if !val.IsNil() {
			out = append(out, Stored{val.Interface().(orb.Pointer), l, r, bo, t, d})
		}
		ch := open(e.FieldByName("Children"))
		cx, cy := (l+r)/2, (bo+t)/2
		rec(ch.Index(0), l, cx, cy, t, d+1)
		rec(ch.Index(1), cx, r, cy, t, d+1)
		rec(ch.Index(2), l, cx, bo, cy, d+1)
		rec(ch.Index(3), cx, r, bo, cy, d+1)
	}
	rec(open(rf), b.Min[0], b.Max[0], b.Min[1], b.Max[1], 0)
	return out, nodes, nil
}
