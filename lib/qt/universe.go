package qt

import (
	"fmt"

	"github.com/paulmach/orb"
	"github.com/paulmach/orb/quadtree"
)

// Op is one mutation of a history. Kind: 0 add, 1 remove by identity, 2 remove by point.
type Op struct {
	Kind int `json:"k"`
	P    int `json:"p"`
}

func (o Op) String() string {
	return fmt.Sprintf("%s(p%d)", [...]string{"add", "removeID", "removePt"}[o.Kind], o.P)
}

// Universe is the pointer alphabet over one tree bound.
type Universe struct {
	Bound    orb.Bound
	Ps       []*P
	MaxCount []int // how many times pointer i may be present at once
}

// NewUniverse builds fresh pointers (fresh identities) for the given points.
func NewUniverse(b orb.Bound, pts []orb.Point, maxCount []int) *Universe {
	u := &Universe{Bound: b, MaxCount: maxCount}
	for i, pt := range pts {
		u.Ps = append(u.Ps, &P{ID: i, Name: fmt.Sprintf("p%d", i), Pt: pt})
	}
	return u
}

// Apply performs op on the real tree. ok is Add's "no error" / Remove's result.
func (u *Universe) Apply(q *quadtree.Quadtree, op Op) (ok bool, err error) {
	p := u.Ps[op.P]
	switch op.Kind {
	case 0:
		err = q.Add(p)
		return err == nil, err
	case 1:
		return q.Remove(p, func(x orb.Pointer) bool { return x == orb.Pointer(p) }), nil
	default:
		return q.Remove(p, nil), nil
	}
}

// Build replays a history on a fresh tree.
func (u *Universe) Build(hist []Op) *quadtree.Quadtree {
	q := quadtree.New(u.Bound)
	for _, op := range hist {
		u.Apply(q, op)
	}
	return q
}

// Counts returns how many times each alphabet pointer is stored.
func (u *Universe) Counts(st []Stored) []int {
	c := make([]int, len(u.Ps))
	for _, s := range st {
		if p, ok := s.P.(*P); ok && p.ID < len(c) && u.Ps[p.ID] == p {
			c[p.ID]++
		} else {
			return nil // a foreign pointer is stored
		}
	}
	return c
}
