// C14: tile covers contain every tile the geometry touches; merging keeps area.
package main

import (
	"fmt"
	"math"
	"sort"
	"verif/lib/refgeom"

	"github.com/paulmach/orb"
	"github.com/paulmach/orb/maptile"
	"github.com/paulmach/orb/maptile/tilecover"
	"github.com/paulmach/orb/zzverif/mcrt"

	"verif/lib/ev"
	"verif/lib/mc"
)

const eps = 1e-9

type tp [2]float64 // tile-space point

// frac is the check's own tile-space projection (the documented behaviour of maptile.Fraction, written
// independently: the oracle must not inherit a change to the function it judges): x linear in the longitude,
// y the web-mercator latitude, rows beyond +-85.0511 snapped to row 0 and to 2^z - 1.
func frac(p orb.Point, z maptile.Zoom) tp {
	n := math.Ldexp(1, int(z))
	x := (p[0]/360 + 0.5) * n
	switch {
	case p[1] < -85.0511:
		return tp{x, n - 1}
	case p[1] > 85.0511:
		return tp{x, 0}
	}
	phi := p[1] * math.Pi / 180
	return tp{x, (1 - math.Log(math.Tan(math.Pi/4+phi/2))/math.Pi) / 2 * n}
}

// clipT: parameter interval of a+t(b-a) inside [x0,x1]x[y0,y1] (floats)
func clipT(a, b tp, x0, y0, x1, y1 float64) (float64, float64, bool) {
	t0, t1 := 0.0, 1.0
	dx, dy := b[0]-a[0], b[1]-a[1]
	cl := func(p, q float64) bool {
		if p == 0 {
			return q >= 0
		}
		r := q / p
		if p < 0 {
			if r > t1 {
				return false
			}
			if r > t0 {
				t0 = r
			}
		} else {
			if r < t0 {
				return false
			}
			if r < t1 {
				t1 = r
			}
		}
		return true
	}
	ok := cl(-dx, a[0]-x0) && cl(dx, x1-a[0]) && cl(-dy, a[1]-y0) && cl(dy, y1-a[1])
	return t0, t1, ok
}

// lineOracle checks a tile set against the tile-space polyline pts. Returns "" or a failure.
func lineOracle(set maptile.Set, pts []tp, z maptile.Zoom, exactNoExtra bool) string {
	has := func(x, y float64) bool {
		if x < 0 || y < 0 {
			return false
		}
		return set[maptile.New(uint32(x), uint32(y), z)]
	}
	// (2) coverage: every sub-interval between consecutive grid crossings lies in a present tile
	for i := 0; i+1 < len(pts); i++ {
		a, b := pts[i], pts[i+1]
		if a == b {
			continue
		}
		ts := []float64{0, 1}
		for d := 0; d < 2; d++ {
			lo, hi := math.Min(a[d], b[d]), math.Max(a[d], b[d])
			if hi > lo {
				for g := math.Ceil(lo); g <= hi; g++ {
					ts = append(ts, (g-a[d])/(b[d]-a[d]))
				}
			}
		}
		sort.Float64s(ts)
		for k := 0; k+1 < len(ts); k++ {
			if ts[k+1]-ts[k] < 1e-12 {
				continue
			}
			t := (ts[k] + ts[k+1]) / 2
			mx, my := a[0]+t*(b[0]-a[0]), a[1]+t*(b[1]-a[1])
			fx, fy := math.Floor(mx), math.Floor(my)
			found := has(fx, fy)
			// on (or within eps of) a grid line: the neighbour across the line is as good
			nearX, nearY := mx-fx < eps || fx+1-mx < eps, my-fy < eps || fy+1-my < eps
			if !found && nearX {
				found = has(fx-1, fy) || has(fx+1, fy)
			}
			if !found && nearY {
				found = has(fx, fy-1) || has(fx, fy+1)
			}
			if !found && nearX && nearY {
				found = has(fx-1, fy-1) || has(fx+1, fy+1) || has(fx-1, fy+1) || has(fx+1, fy-1)
			}
			if !found {
				return fmt.Sprintf("missing: the line passes through tile (%v,%v) at zoom %d (segment %d, point (%v,%v)) but it is not in the cover", fx, fy, z, i, mx, my)
			}
		}
	}
	// (1) every present tile meets the closed line (pad eps)
	if exactNoExtra {
		for t, v := range set {
			if !v {
				continue
			}
			x0, y0 := float64(t.X), float64(t.Y)
			ok := false
			for i := 0; i+1 < len(pts) && !ok; i++ {
				if _, _, hit := clipT(pts[i], pts[i+1], x0-eps, y0-eps, x0+1+eps, y0+1+eps); hit {
					ok = true
				}
			}
			if len(pts) == 1 {
				ok = math.Floor(pts[0][0]) == x0 && math.Floor(pts[0][1]) == y0
			}
			if !ok {
				return fmt.Sprintf("extra: tile %v is in the cover but the line does not meet it", t)
			}
		}
	}
	return ""
}

func cross(a, b, c tp) float64 { return (b[0]-a[0])*(c[1]-a[1]) - (b[1]-a[1])*(c[0]-a[0]) }

func segsCross(a, b, c, d tp) bool { // proper or touching intersection, conservative (tolerance)
	d1, d2, d3, d4 := cross(c, d, a), cross(c, d, b), cross(a, b, c), cross(a, b, d)
	const t = 1e-9
	if ((d1 > t && d2 < -t) || (d1 < -t && d2 > t)) && ((d3 > t && d4 < -t) || (d3 < -t && d4 > t)) {
		return true
	}
	near := func(p, q, r tp, cr float64) bool {
		return math.Abs(cr) <= t && math.Min(p[0], q[0])-t <= r[0] && r[0] <= math.Max(p[0], q[0])+t && math.Min(p[1], q[1])-t <= r[1] && r[1] <= math.Max(p[1], q[1])+t
	}
	return near(c, d, a, d1) || near(c, d, b, d2) || near(a, b, c, d3) || near(a, b, d, d4)
}

// simple: ring (unclosed list) is a simple polygon with clearly non-zero area in tile space
func simple(r []tp) bool {
	n := len(r)
	a2 := 0.0
	for i := 0; i < n; i++ {
		a2 += r[i][0]*r[(i+1)%n][1] - r[(i+1)%n][0]*r[i][1]
		for j := i + 1; j < n; j++ {
			if r[i] == r[j] {
				return false
			}
		}
	}
	if math.Abs(a2) < 1e-6 {
		return false
	}
	for i := 0; i < n; i++ {
		if math.Abs(cross(r[(i+n-1)%n], r[i], r[(i+1)%n])) < 1e-9 {
			return false // collinear corner: degenerate
		}
		for j := i + 1; j < n; j++ {
			if j == i+1 || (i == 0 && j == n-1) {
				continue
			}
			if segsCross(r[i], r[(i+1)%n], r[j], r[(j+1)%n]) {
				return false
			}
		}
	}
	return true
}

func inRings(rings [][]tp, x, y float64) (in, near bool) {
	for _, r := range rings {
		n := len(r)
		for i := 0; i < n; i++ {
			a, b := r[i], r[(i+1)%n]
			// distance to the edge
			dx, dy := b[0]-a[0], b[1]-a[1]
			t := 0.0
			if l2 := dx*dx + dy*dy; l2 > 0 {
				t = math.Max(0, math.Min(1, ((x-a[0])*dx+(y-a[1])*dy)/l2))
			}
			if math.Hypot(a[0]+t*dx-x, a[1]+t*dy-y) < 1e-6 {
				near = true
			}
			if (a[1] > y) != (b[1] > y) {
				if x < a[0]+(y-a[1])*(b[0]-a[0])/(b[1]-a[1]) {
					in = !in
				}
			}
		}
	}
	return
}

func polygonOracle(set maptile.Set, rings [][]tp, z maptile.Zoom) string {
	// boundary tiles via the line oracle (closed rings), no "extra" check (the fill adds tiles)
	minX, minY, maxX, maxY := math.Inf(1), math.Inf(1), math.Inf(-1), math.Inf(-1)
	for _, r := range rings {
		closed := append(append([]tp{}, r...), r[0])
		if f := lineOracle(set, closed, z, false); f != "" {
			return "boundary " + f
		}
		for _, p := range r {
			minX, minY, maxX, maxY = math.Min(minX, p[0]), math.Min(minY, p[1]), math.Max(maxX, p[0]), math.Max(maxY, p[1])
		}
	}
	for t, v := range set {
		if v && (float64(t.X)+1 < minX-eps || float64(t.X) > maxX+eps || float64(t.Y)+1 < minY-eps || float64(t.Y) > maxY+eps) {
			return fmt.Sprintf("extra: tile %v lies outside the polygon's tile-space bound [%v,%v]x[%v,%v]", t, minX, maxX, minY, maxY)
		}
	}
	for x := math.Floor(minX); x <= math.Floor(maxX); x++ {
		for y := math.Floor(minY); y <= math.Floor(maxY); y++ {
			if x < 0 || y < 0 || set[maptile.New(uint32(x), uint32(y), z)] {
				continue
			}
			for i := 0; i < 6; i++ {
				for j := 0; j < 6; j++ {
					sx, sy := x+(float64(i)+0.37)/6, y+(float64(j)+0.61)/6
					if in, near := inRings(rings, sx, sy); in && !near {
						return fmt.Sprintf("missing: tile (%v,%v) at zoom %d contains the interior point (%v,%v) of the polygon but is not in the cover", x, y, z, sx, sy)
					}
				}
			}
		}
	}
	return ""
}

type region struct {
	name       string
	zf         int // focus zoom: lattice spacing is in tile units of this zoom
	lon0, lat0 float64
}

func lattice(rg region) []orb.Point {
	u := 360.0 / float64(uint64(1)<<uint(rg.zf))
	var pts []orb.Point
	for _, fy := range []float64{-1.3, -0.5, 0, 0.4, 1.1} {
		for _, fx := range []float64{-1.5, -1, -0.25, 0.5, 1} {
			pts = append(pts, orb.Point{rg.lon0 + fx*u, rg.lat0 + fy*u*0.8})
		}
	}
	return pts
}

func tiles(s maptile.Set) []maptile.Tile {
	var out []maptile.Tile
	for t, v := range s {
		if v {
			out = append(out, t)
		}
	}
	sort.Slice(out, func(i, j int) bool {
		if out[i].Z != out[j].Z {
			return out[i].Z < out[j].Z
		}
		if out[i].X != out[j].X {
			return out[i].X < out[j].X
		}
		return out[i].Y < out[j].Y
	})
	return out
}

func main() {
	r := ev.New("C14", "model_checking")
	r.Rule = "covers: every segment, 2-segment path and simple polygon (3..4 vertices, both windings, optional hole) between points of a 5x5 lon/lat lattice laid around a tile corner of a focus zoom (lattice columns at -1 and +1 are exact tile-edge longitudes, the middle row of equatorial regions is the equator), covered at zooms focus-2..focus+1; merges: every subset of a 4x4 block of tiles x every target zoom x MergeUp / MergeUpPartial x every iteration order of every `range` over the set (all orders when a range sees <= 4 keys, otherwise all orders within 2 transpositions from sorted order); non-trivial cover = more than one tile; non-trivial merge = at least one quad merged"
	r.Assume = []string{
		"cover oracle in tile space with floats: a tile within 1e-9 tile of the line may be present or absent (corner / edge touches are optional on either side, but every stretch of the line must be covered by some present tile)",
		"polygon interior is sampled at 36 offset points per candidate tile, skipping samples within 1e-6 of an edge",
		"MergeUpPartial with count < 4 merges incomplete quads by design: for it only coverage of the input, the zoom limits and order-independence are checked (disjointness, equal area and no-unmerged-quad are MergeUp clauses; count 4 must equal MergeUp)",
		"map iteration: entries inserted during a range are not visited (one of the behaviours Go allows); no range in these packages inserts new keys",
		"longitude +-180 and |lat| > 85 are outside the quantifier",
	}
	// the last two regions reach the bottom row of the world: at zoom 3 and 4 (straddling the clamp latitude) and at zoom 1 and 2, where that row is a whole hemisphere
	regions := []region{{"equator z2", 2, 0, 0}, {"equator z4", 4, 22.5, 0}, {"mid-lat z6", 6, -73.125, 41}, {"equator z6", 6, 5.625, 0}, {"south edge z5", 5, 45, -75}, {"southern z2", 2, 0, -40}}
	if !r.Quick() {
		regions = append(regions, region{"equator z8", 8, 11.25, 0}, region{"z12", 12, -122.34375, 37.7}, region{"equator z17", 17, 2.8125, 0}, region{"z22", 22, 139.74609375, 35.6})
	}
	type loc struct{ lats map[int][]orb.Point }
	lat := map[int][]orb.Point{}
	for i, rg := range regions {
		lat[i] = lattice(rg)
	}
	zoomOf := func(c *mc.Ctx, rg region) maptile.Zoom {
		zs := []int{rg.zf, rg.zf + 1, rg.zf - 1, rg.zf - 2}
		z := zs[c.Choose(len(zs))]
		if z < 0 {
			z = 0
		}
		return maptile.Zoom(z)
	}
	r.Explore("lines", "regions x 4 zooms x every segment and 2-segment path on the 25-point lattice: LineString / MultiLineString / Geometry cover == tiles the mercator image passes through", mc.Opts{MaxDev: -1, Split: 3}, func(c *mc.Ctx) {
		ri := c.Choose(len(regions))
		z := zoomOf(c, regions[ri])
		L := lat[ri]
		n := 2 + c.Choose(2)
		ls := make(orb.LineString, n)
		pts := make([]tp, n)
		for i := range ls {
			ls[i] = L[c.Choose(len(L))]
			pts[i] = frac(ls[i], z)
		}
		set := tilecover.LineString(ls, z)
		desc := fmt.Sprintf("region=%s zoom=%d line=%v tile-space=%v cover=%v", regions[ri].name, z, ls, pts, tiles(set))
		allEq := true
		for _, p := range pts {
			if p != pts[0] {
				allEq = false
			}
		}
		if allEq {
			return // zero length: outside the quantifier
		}
		if f := lineOracle(set, pts, z, true); f != "" {
			c.Failf("line-cover", "%s | %s", f, desc)
		}
		g, err := tilecover.Geometry(ls, z)
		if err != nil || fmt.Sprint(tiles(g)) != fmt.Sprint(tiles(set)) {
			c.Failf("line-generic", "Geometry(LineString) = %v,%v differs from LineString | %s", tiles(g), err, desc)
		}
		m := tilecover.MultiLineString(orb.MultiLineString{ls[:2], ls[n-2:]}, z)
		u := tilecover.LineString(ls[:2], z)
		u.Merge(tilecover.LineString(ls[n-2:], z))
		if fmt.Sprint(tiles(m)) != fmt.Sprint(tiles(u)) {
			c.Failf("multiline", "MultiLineString cover %v is not the union %v | %s", tiles(m), tiles(u), desc)
		}
		if len(set) > 1 {
			c.NonTrivial()
		}
	})
	r.Explore("points-bounds", "regions x zooms x lattice points / pairs: Point = At, MultiPoint and Collection = union, Bound = rectangular range", mc.Opts{MaxDev: -1, Split: 3}, func(c *mc.Ctx) {
		ri := c.Choose(len(regions))
		z := zoomOf(c, regions[ri])
		L := lat[ri]
		a, b := L[c.Choose(len(L))], L[c.Choose(len(L))]
		ps := tilecover.Point(a, z)
		if len(ps) != 1 || !ps[maptile.At(a, z)] {
			c.Failf("point", "Point(%v,%d) = %v want {%v}", a, z, tiles(ps), maptile.At(a, z))
		}
		mp := tilecover.MultiPoint(orb.MultiPoint{a, b}, z)
		if !mp[maptile.At(a, z)] || !mp[maptile.At(b, z)] || len(tiles(mp)) > 2 {
			c.Failf("multipoint", "MultiPoint(%v,%v) = %v", a, b, tiles(mp))
		}
		col, err := tilecover.Geometry(orb.Collection{a, orb.LineString{a, b}, orb.MultiPoint{b}}, z)
		want := tilecover.LineString(orb.LineString{a, b}, z)
		want.Merge(mp)
		if err != nil || fmt.Sprint(tiles(col)) != fmt.Sprint(tiles(want)) {
			c.Failf("collection", "Collection cover %v,%v is not the union %v", tiles(col), err, tiles(want))
		}
		// bounds as collection members, degenerate ones (a point's bound) included: the union of the members
		for _, bm := range []orb.Bound{{Min: a, Max: a}, orb.MultiPoint{a, b}.Bound()} {
			wantB := tilecover.Bound(bm, z)
			wantB.Merge(tilecover.Point(b, z))
			for fi, form := range []orb.Geometry{orb.Collection{bm, b}, orb.Collection{b, orb.Collection{bm}}} {
				got, err := tilecover.Geometry(form, z)
				if err != nil || fmt.Sprint(tiles(got)) != fmt.Sprint(tiles(wantB)) {
					c.Failf("collection", "cover of a collection (form %d) holding the bound %v and the point %v = %v, %v; the union of the member covers is %v", fi, bm, b, tiles(got), err, tiles(wantB))
				}
			}
			if gb, err := tilecover.Geometry(bm, z); err != nil || fmt.Sprint(tiles(gb)) != fmt.Sprint(tiles(tilecover.Bound(bm, z))) || !gb[maptile.At(bm.Min, z)] {
				c.Failf("bound", "Geometry(%v) = %v, %v differs from Bound() or misses the tile of its corner", bm, tiles(gb), err)
			}
		}
		bb := orb.MultiPoint{a, b}.Bound()
		bs := tilecover.Bound(bb, z)
		lo, hi := maptile.At(bb.Min, z), maptile.At(bb.Max, z)
		n := 0
		for x := lo.X; x <= hi.X; x++ {
			for y := hi.Y; y <= lo.Y; y++ {
				n++
				if !bs[maptile.New(x, y, z)] {
					c.Failf("bound", "Bound(%v,%d) misses %v", bb, z, maptile.New(x, y, z))
				}
			}
		}
		if len(tiles(bs)) != n {
			c.Failf("bound", "Bound(%v,%d) has %d tiles want %d", bb, z, len(tiles(bs)), n)
		}
		if n > 1 {
			c.NonTrivial()
		}
	})
	maxV := ev.Pick(r, 4, 4)
	holes := [][]int{nil, {6, 8, 16}, {11, 12, 17}}
	r.Explore("polygons", fmt.Sprintf("regions x zooms x every simple polygon of 3..%d lattice vertices (both windings arise as different vertex lists) x {no hole, 2 catalogue holes when they lie inside}: every tile meeting the boundary or containing an interior sample is present, none outside the tile-space bound, no error", maxV), mc.Opts{MaxDev: -1, Split: 3}, func(c *mc.Ctx) {
		ri := c.Choose(len(regions))
		z := zoomOf(c, regions[ri])
		L := lat[ri]
		n := 3 + c.Choose(maxV-2)
		idx := make([]int, n)
		ring := make(orb.Ring, n, n+1)
		ts := make([]tp, n)
		for i := range ring {
			idx[i] = c.Choose(len(L))
			ring[i] = L[idx[i]]
			ts[i] = frac(ring[i], z)
		}
		hi := c.Choose(len(holes))
		if !simple(ts) {
			c.Skip()
			return
		}
		ring = append(ring, ring[0])
		poly := orb.Polygon{ring}
		rings := [][]tp{ts}
		if holes[hi] != nil {
			var h orb.Ring
			var ht []tp
			for _, k := range holes[hi] {
				h = append(h, L[k])
				ht = append(ht, frac(L[k], z))
			}
			// the hole must lie strictly inside the outer ring and be simple
			ok := simple(ht)
			for _, p := range ht {
				if in, near := inRings([][]tp{ts}, p[0], p[1]); !in || near {
					ok = false
				}
			}
			for i := range ht {
				for j := range ts {
					if segsCross(ht[i], ht[(i+1)%len(ht)], ts[j], ts[(j+1)%n]) {
						ok = false
					}
				}
			}
			if !ok {
				c.Skip()
				return
			}
			poly = append(poly, append(h, h[0]))
			rings = append(rings, ht)
		}
		set, err := tilecover.Polygon(poly, z)
		desc := fmt.Sprintf("region=%s zoom=%d polygon=%v tile-space=%v cover=%v", regions[ri].name, z, poly, rings, tiles(set))
		if err != nil {
			c.Failf("polygon-error", "Polygon returned %v for a simple closed polygon | %s", err, desc)
			return
		}
		if f := polygonOracle(set, rings, z); f != "" {
			c.Failf("polygon-cover", "%s | %s", f, desc)
		}
		g, err := tilecover.Geometry(orb.MultiPolygon{poly}, z)
		if err != nil || fmt.Sprint(tiles(g)) != fmt.Sprint(tiles(set)) {
			c.Failf("polygon-generic", "Geometry(MultiPolygon{p}) = %v,%v differs from Polygon | %s", tiles(g), err, desc)
		}
		if len(rings) == 1 {
			if g, err := tilecover.Geometry(ring, z); err != nil || fmt.Sprint(tiles(g)) != fmt.Sprint(tiles(set)) {
				c.Failf("polygon-generic", "Geometry(Ring) = %v,%v differs from Polygon | %s", tiles(g), err, desc)
			}
		}
		if len(set) > 1 {
			c.NonTrivial()
		}
	})

	// multi-member geometries: the cover of a multi-polygon / collection is the union of its members' covers,
	// whether the members are disjoint, touching, overlapping or nested
	cat := [][]int{{0, 4, 24, 20}, {6, 8, 18, 16}, {0, 2, 22, 20}, {2, 4, 24, 22}, {1, 3, 13, 11}, {0, 4, 12}, {20, 12, 24}, {5, 9, 19, 15}, {7, 8, 13, 12}}
	r.Explore("multi-members", fmt.Sprintf("regions x 4 zooms (focus .. focus+3) x every ordered pair (thorough: and triple) of %d catalogue polygons on the lattice (disjoint, touching, overlapping, nested, one with a hole holding another member): MultiPolygon, Geometry and Collection covers are the union of the member covers", len(cat)+1), mc.Opts{MaxDev: -1, Split: 3}, func(c *mc.Ctx) {
		ri := c.Choose(len(regions))
		rg := regions[ri]
		z := maptile.Zoom(rg.zf + c.Choose(4))
		L := lat[ri]
		mkPoly := func(k int) orb.Polygon {
			ring := func(idx []int) orb.Ring {
				var o orb.Ring
				for _, i := range idx {
					o = append(o, L[i])
				}
				return append(o, o[0])
			}
			if k == len(cat) {
				return orb.Polygon{ring(cat[0]), ring(cat[1])} // the big square with the inner square as a hole
			}
			return orb.Polygon{ring(cat[k])}
		}
		n := 2 + c.Choose(ev.Pick(r, 1, 2))
		var mp orb.MultiPolygon
		var col, col2 orb.Collection
		want := maptile.Set{}
		for i := 0; i < n; i++ {
			p := mkPoly(c.Choose(len(cat) + 1))
			s, err := tilecover.Polygon(p, z)
			if err != nil {
				c.Failf("multi-members", "Polygon(%v,%d) fails: %v", p, z, err)
				return
			}
			want.Merge(s)
			mp = append(mp, p)
			col = append(col, p)
			if i == 0 {
				col2 = append(col2, orb.MultiPolygon{p})
			} else {
				col2 = append(col2, orb.Collection{p})
			}
		}
		same := func(a maptile.Set) bool {
			n := 0
			for t, v := range a {
				if v {
					n++
					if !want[t] {
						return false
					}
				}
			}
			return n == len(want)
		}
		got, err := tilecover.MultiPolygon(mp, z)
		if err != nil || !same(got) {
			c.Failf("multi-members", "MultiPolygon cover (%d tiles, err %v) is not the union of the member covers (%d tiles) | region=%s zoom=%d members=%v", len(got), err, len(want), rg.name, z, mp)
			return
		}
		// nested collections with several members in front of further members (each member appears where it can only be
		// reached after the nested ones have been expanded)
		nestA := orb.Collection{orb.Collection{col[0], col[0]}}
		nestB := orb.Collection{col[len(col)-1], orb.Collection{col[0], orb.Collection{col[0], col[0]}}}
		for _, m := range col[1:] {
			nestA = append(nestA, m)
			nestB = append(nestB, m)
		}
		for gi, g := range []orb.Geometry{mp, col, col2, orb.Collection{mp}, nestA, nestB} {
			before := refgeom.Bits(g)
			got, err := tilecover.Geometry(g, z)
			if refgeom.Bits(g) != before {
				c.Failf("multi-members", "Geometry of form %d modified its argument: %v | region=%s zoom=%d", gi, g, rg.name, z)
				return
			}
			if err != nil || !same(got) {
				c.Failf("multi-members", "Geometry cover of form %d (%d tiles, err %v) is not the union of the member covers (%d tiles) | region=%s zoom=%d members=%v", gi, len(got), err, len(want), rg.name, z, mp)
				return
			}
		}
		c.NonTrivial()
	})

	// a cover that is refused leaves nothing behind: after an open ring has been rejected (or has been covered, if the
	// library accepts it), the cover of a valid polygon is what it was before
	r.Explore("after-a-rejected-ring", fmt.Sprintf("regions x 4 zooms x %d catalogue polygons x 3 open rings (2, 3 and 4 vertices, first != last) given to Ring / Polygon / Geometry in between: the polygon's cover before and after are the same set, without error", len(cat)+1), mc.Opts{MaxDev: -1, Split: 3}, func(c *mc.Ctx) {
		ri := c.Choose(len(regions))
		z := maptile.Zoom(regions[ri].zf + c.Choose(4))
		L := lat[ri]
		ring := func(idx []int, close bool) orb.Ring {
			var o orb.Ring
			for _, i := range idx {
				o = append(o, L[i])
			}
			if close {
				o = append(o, o[0])
			}
			return o
		}
		k := c.Choose(len(cat) + 1)
		var valid orb.Polygon
		if k == len(cat) {
			valid = orb.Polygon{ring(cat[0], true), ring(cat[1], true)}
		} else {
			valid = orb.Polygon{ring(cat[k], true)}
		}
		open := ring([][]int{{0, 24}, {0, 4, 24}, {1, 23, 21, 3}}[c.Choose(3)], false)
		before, err0 := tilecover.Polygon(valid.Clone(), z)
		var errs [3]error
		_, errs[0] = tilecover.Ring(open.Clone(), z)
		_, errs[1] = tilecover.Polygon(orb.Polygon{open.Clone()}, z)
		_, errs[2] = tilecover.Geometry(orb.Collection{open.Clone()}, z)
		after, err1 := tilecover.Polygon(valid.Clone(), z)
		if err0 != nil || err1 != nil || fmt.Sprint(tiles(before)) != fmt.Sprint(tiles(after)) {
			c.Failf("polygon-cover", "cover of %v at zoom %d: %d tiles (%v) before and %d tiles (%v) after covering the open ring %v (which returned %v)", valid, z, len(before), err0, len(after), err1, open, errs)
		}
		c.NonTrivial()
	})
	// long oblique segments: 65..1000 tiles across at zoom 7..16, away from the equator, in several directions. The
	// mercator image of a segment is the straight tile-space segment between the projected ends, however long it is.
	oblSpans := []float64{65, 130, 300}
	if !r.Quick() {
		oblSpans = append(oblSpans, 1000, 3000)
	}
	r.Explore("long-obliques", fmt.Sprintf("zoom {7, 10, 12, 16} x 2 start rows (about 60N and 45S) x spans %v tiles x 6 directions (slopes 1/3, 1, 5/2, both signs) x reversed: line cover == tiles the straight tile-space segment passes through; the triangle closed over the segment as a ring", oblSpans), mc.Opts{MaxDev: -1, Split: 2}, func(c *mc.Ctx) {
		z := maptile.Zoom([]int{7, 10, 12, 16}[c.Choose(4)])
		n := math.Ldexp(1, int(z))
		row := []float64{0.29, 0.64}[c.Choose(2)]
		span := oblSpans[c.Choose(len(oblSpans))]
		slope := []float64{1.0 / 3, 1, 2.5, -1.0 / 3, -1, -2.5}[c.Choose(6)]
		rev := c.Bool()
		if math.Floor(n*0.2)+span+1 >= n {
			c.Skip()
			return
		}
		inv := func(x, y float64) orb.Point {
			return orb.Point{(x/n - 0.5) * 360, math.Atan(math.Sinh(math.Pi*(1-2*y/n))) * 180 / math.Pi}
		}
		x0, y0 := math.Floor(n*0.2)+0.3, math.Floor(n*row)+0.4
		ls := orb.LineString{inv(x0, y0), inv(x0+span, y0+span*slope)}
		if math.Abs(ls[0][1]) >= 85 || math.Abs(ls[1][1]) >= 85 {
			c.Skip() // the property speaks of latitudes in (-85, 85)
			return
		}
		if rev {
			ls[0], ls[1] = ls[1], ls[0]
		}
		pts := []tp{frac(ls[0], z), frac(ls[1], z)}
		set := tilecover.LineString(ls, z)
		desc := fmt.Sprintf("zoom=%d line=%v tile-space=%v cover=%d tiles", z, ls, pts, len(set))
		if f := lineOracle(set, pts, z, true); f != "" {
			c.Failf("line-cover", "%s | %s", f, desc)
		}
		// the same segment as the long edge of a triangle: the ring cover holds the boundary tiles of all three edges
		third := inv(x0+span, y0)
		ring := orb.Ring{ls[0], ls[1], third, ls[0]}
		rs, err := tilecover.Geometry(ring, z)
		if err != nil {
			c.Failf("polygon-cover", "Geometry(ring) failed: %v | %s", err, desc)
			return
		}
		rp := []tp{pts[0], pts[1], frac(third, z), pts[0]}
		if f := lineOracle(rs, rp, z, false); f != "" {
			c.Failf("polygon-cover", "triangle over the segment: boundary %s | %s", f, desc)
		}
		c.NonTrivial()
	})
	// long thin rectangles: thousands of tile rows (or columns) at deep zooms, where row-major tile indexes and
	// intersection lists get large. The corners are tile centres, so the cover is exactly the tile range.
	spans := []uint32{300, 1100, 2100}
	if !r.Quick() {
		spans = append(spans, 4200, 9000)
	}
	r.Explore("long-rectangles", fmt.Sprintf("zoom {16, 20, 21, 22} x spans %v tiles x {tall, wide} x thickness {3, 6} tiles x both windings: the polygon cover is exactly the tile range between the corner tiles", spans), mc.Opts{MaxDev: -1, Split: 2}, func(c *mc.Ctx) {
		z := maptile.Zoom([]int{16, 20, 21, 22}[c.Choose(4)])
		span := spans[c.Choose(len(spans))]
		tall := c.Bool()
		thick := uint32([]int{3, 6}[c.Choose(2)])
		cw := c.Bool()
		x0, y0 := uint32(1)<<(uint32(z)-1)+77, uint32(1)<<(uint32(z)-2)+33
		w, h := thick, span
		if !tall {
			w, h = span, thick
		}
		x1, y1 := x0+w-1, y0+h-1
		a := maptile.New(x0, y0, z).Bound().Center()
		b := maptile.New(x1, y1, z).Bound().Center()
		ring := orb.Ring{{a[0], a[1]}, {b[0], a[1]}, {b[0], b[1]}, {a[0], b[1]}, {a[0], a[1]}}
		if cw {
			ring.Reverse()
		}
		got, err := tilecover.Polygon(orb.Polygon{ring}, z)
		if err != nil {
			c.Failf("long-rectangle", "Polygon cover fails: %v | zoom=%d corner tiles (%d,%d)-(%d,%d)", err, z, x0, y0, x1, y1)
			return
		}
		missing, extra := 0, 0
		var firstMissing maptile.Tile
		for x := x0; x <= x1; x++ {
			for y := y0; y <= y1; y++ {
				if !got[maptile.New(x, y, z)] {
					if missing == 0 {
						firstMissing = maptile.New(x, y, z)
					}
					missing++
				}
			}
		}
		for t, v := range got {
			if v && (t.Z != z || t.X < x0 || t.X > x1 || t.Y < y0 || t.Y > y1) {
				extra++
			}
		}
		if missing > 0 || extra > 0 {
			c.Failf("long-rectangle", "the cover of the rectangle between the centres of tiles (%d,%d) and (%d,%d) at zoom %d misses %d of its %d tiles (first: %v) and has %d outside the range", x0, y0, x1, y1, z, missing, w*h, firstMissing, extra)
		}
		c.NonTrivial()
	})

	// ---- merges: model checking over (subset, target zoom, iteration orders) ----
	type mloc struct {
		c      *mc.Ctx
		budget int
		steps  int64
		fixed  int // 0: orders chosen by the explorer; 1: reversed; 2: rotated by n/2
	}
	var cur *mloc
	mcrt.PermHook = func(site, n int) []int {
		l := cur
		idx := make([]int, n)
		for i := range idx {
			idx[i] = i
		}
		if l == nil {
			return idx
		}
		if l.fixed == 1 {
			for i := range idx {
				idx[i] = n - 1 - i
			}
			return idx
		} else if l.fixed == 2 {
			for i := range idx {
				idx[i] = (i + n/2) % n
			}
			return idx
		}
		// Lehmer digits chosen by the explorer; all orders for n <= 4, else within the transposition budget
		out := make([]int, 0, n)
		for i := 0; i < n; i++ {
			k := 0
			if rem := n - i; rem > 1 {
				if n <= 4 {
					k = l.c.Choose(rem)
				} else if l.budget > 0 {
					k = l.c.Choose(rem)
					if k != 0 {
						l.budget--
					}
				}
			}
			out = append(out, idx[k])
			idx = append(idx[:k], idx[k+1:]...)
			l.steps++
		}
		return out
	}
	block := func(z maptile.Zoom, x0, y0, w, h uint32) []maptile.Tile {
		var ts []maptile.Tile
		for x := x0; x < x0+w; x++ {
			for y := y0; y < y0+h; y++ {
				ts = append(ts, maptile.New(x, y, z))
			}
		}
		return ts
	}
	var steps, orderRuns int64
	mergeDriver := func(blk []maptile.Tile, Z maptile.Zoom, explore bool) func(c *mc.Ctx) {
		return func(c *mc.Ctx) {
			mask := c.Choose(1 << len(blk))
			if !r.Owned(c, mask) {
				return
			}
			min := maptile.Zoom(c.Choose(int(Z) + 1))
			mode := c.Choose(5) // 0 = MergeUp, 1..4 = MergeUpPartial(count)
			build := func() maptile.Set {
				s := maptile.Set{}
				for i, t := range blk {
					if mask&(1<<i) != 0 {
						s[t] = true
					}
				}
				return s
			}
			run := func() maptile.Set {
				if mode == 0 {
					return tilecover.MergeUp(build(), min)
				}
				return tilecover.MergeUpPartial(build(), min, mode)
			}
			cur = nil
			ref := tiles(run()) // canonical (sorted) iteration order
			l := &mloc{c: c, budget: 2}
			if !explore {
				l.fixed = 1 + c.Choose(2)
			}
			cur = l
			got := run()
			cur = nil
			steps += l.steps
			orderRuns++
			in := tiles(build())
			desc := fmt.Sprintf("mode=%d (0=MergeUp, k=MergeUpPartial count k) target zoom=%d input=%v result=%v", mode, min, in, tiles(got))
			res := tiles(got)
			if fmt.Sprint(res) != fmt.Sprint(ref) {
				c.Failf("merge-order", "result depends on map iteration order: sorted order gives %v | %s", ref, desc)
			}
			var area uint64     // in tiles of the cover zoom Z (exact)
			enumerate := Z <= 4 // deep covers: containment and exact area instead of enumerating the covered tiles
			cover := map[maptile.Tile]bool{}
			merged := false
			for i, t := range res {
				if t.Z < min && len(in) > 0 && min <= Z {
					c.Failf("merge-shallow", "result tile %v is shallower than the target zoom | %s", t, desc)
				}
				if t.Z > Z {
					c.Failf("merge-deeper", "result tile %v is deeper than the input | %s", t, desc)
					return
				}
				if t.Z < Z {
					merged = true
				}
				area += uint64(1) << (2 * uint(Z-t.Z))
				for j, u := range res {
					if i != j && t.Z <= u.Z && t.Contains(u) && (mode == 0 || mode == 4) {
						c.Failf("merge-nested", "result tiles %v and %v overlap | %s", t, u, desc)
					}
				}
				if enumerate {
					lo, hi := t.Range(Z)
					for x := lo.X; x <= hi.X; x++ {
						for y := lo.Y; y <= hi.Y; y++ {
							cover[maptile.New(x, y, Z)] = true
						}
					}
				}
				if t.Z > min {
					all := true
					for _, s := range t.Siblings() {
						if !got[s] {
							all = false
						}
					}
					if all && (mode == 0 || mode == 4) {
						c.Failf("merge-unmerged-quad", "the complete sibling quad of %v is left unmerged above the target zoom | %s", t, desc)
					}
				}
			}
			inSet := map[maptile.Tile]bool{}
			for _, t := range in {
				inSet[t] = true
				covered := cover[t]
				if !enumerate {
					for _, u := range res {
						if u.Z <= t.Z && u.Contains(t) {
							covered = true
						}
					}
				}
				if !covered {
					c.Failf("merge-lost", "input tile %v is not covered by the result | %s", t, desc)
				}
			}
			if mode == 0 || mode == 4 {
				if want := uint64(len(in)); area != want {
					c.Failf("merge-area", "result area %d != input area %d (in tiles of the cover zoom) | %s", area, want, desc)
				}
				for t := range cover {
					if !inSet[t] {
						c.Failf("merge-area", "result covers %v which the input does not | %s", t, desc)
						break
					}
				}
			}
			if mode == 4 {
				cur = nil
				if mu := tiles(tilecover.MergeUp(build(), min)); fmt.Sprint(mu) != fmt.Sprint(res) {
					c.Failf("merge-partial4", "MergeUpPartial(count 4) = %v differs from MergeUp = %v | %s", res, mu, desc)
				}
			}
			if merged {
				c.NonTrivial()
			}
		}
	}
	st := r.ExploreSharded("merge-4x4", "all 65536 subsets of the 4x4 block at zoom 2 x target zoom 0..2 x MergeUp / MergeUpPartial(1..4), each under sorted, reversed and rotated iteration order", mc.Opts{MaxDev: -1}, 16, mergeDriver(block(2, 0, 0, 4, 4), 2, false))
	r.States += st.Execs
	r.Transitions += st.Points
	r.Traces += st.Execs
	st = r.ExploreSharded("merge-orders", "all 256 subsets of two adjacent quads at zoom 2 x target zoom x modes x every iteration order of every range over the set (all orders when a range sees <= 4 keys, otherwise every order within 2 displaced keys)", mc.Opts{MaxDev: -1}, 16, mergeDriver(block(2, 0, 0, 4, 2), 2, true))
	r.States += st.Execs
	r.Transitions += st.Points
	r.Traces += st.Execs
	// the shallow end: covers at zoom 0 and 1, and a deep one (zoom 22 block) where tile numbers are large
	for _, sm := range []struct {
		name string
		blk  []maptile.Tile
		z    maptile.Zoom
	}{
		{"merge-zoom0", block(0, 0, 0, 1, 1), 0},
		{"merge-zoom1", block(1, 0, 0, 2, 2), 1},
		{"merge-zoom22", append(block(22, 1<<22-4, 1<<21, 2, 2), block(22, 1<<22-2, 1<<21, 2, 2)...), 22},
		// the same shape where the row numbers have bits set above bit 16 and in every byte (keys, hashes or packed
		// coordinates that are narrower than the tile numbers fold such rows onto each other)
		{"merge-zoom22-high-rows", append(block(22, 1<<21+1<<17+4, 1<<21+1<<18+1<<17+1<<9+2, 2, 2), block(22, 1<<21+1<<17+6, 1<<21+1<<18+1<<17+1<<9+2, 2, 2)...), 22},
	} {
		st = r.ExploreSharded(sm.name, fmt.Sprintf("all subsets of a %d-tile block at zoom %d x target zoom 0..%d x MergeUp / MergeUpPartial(1..4), sorted / reversed / rotated order", len(sm.blk), sm.z, sm.z), mc.Opts{MaxDev: -1}, 4, mergeDriver(sm.blk, sm.z, false))
		r.States += st.Execs
		r.Transitions += st.Points
		r.Traces += st.Execs
	}
	if !r.Quick() {
		st = r.ExploreSharded("merge-z3", "all subsets of three zoom-3 quads (12 tiles) x target zoom 0..3 x modes, sorted / reversed / rotated order", mc.Opts{MaxDev: -1}, 16,
			mergeDriver(append(append(block(3, 2, 2, 2, 2), block(3, 4, 2, 2, 2)...), block(3, 2, 4, 2, 2)...), 3, false))
		r.States += st.Execs
		r.Transitions += st.Points
		r.Traces += st.Execs
	}
	_ = steps
	r.Sample(map[string]interface{}{"cover": "LineString [[-1.40625,-4.5],[5.625,0]] at zoom 6: tile-space segment from (31.75,32.8) to (33,32) crosses the corner (32,32)...", "oracle": "every stretch between grid crossings lies in a present tile; every present tile meets the line"})
	r.Sample(map[string]interface{}{"merge": "input = all 16 tiles of zoom 2, target zoom 0, MergeUp, order = a permutation of the map keys chosen by the explorer", "expected": "[{0 0 0}]"})
	r.Finish()
}
