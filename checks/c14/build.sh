#!/bin/bash
# C14 is built against a copy of maptile / maptile/tilecover whose map ranges are owned by the harness (overlay only).
set -e
cd "$(dirname "$(readlink -f "$0")")/../.."
go build -o .work/bin/instr ./tools/instr
.work/bin/instr -out .work/c14 -maprange maptile/tilecover -maprange maptile 2>.work/c14.instr.log || { cat .work/c14.instr.log; exit 1; }
go build -tags verif -overlay .work/c14/overlay.json -o "$1" ./checks/c14
