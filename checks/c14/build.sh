#!/bin/bash
# C14 is built against a copy of maptile / maptile/tilecover whose map ranges are owned by the harness (overlay only).
set -e
cd "$(dirname "$(readlink -f "$0")")/../.."
go build -o .work/bin/instr ./tools/instr
W=.work/c14${VERIF_TAG:-}
R=${VERIF_REPO:-/repo}
.work/bin/instr -repo "$R" -out $W -maprange maptile/tilecover -maprange maptile 2>$W.instr.log || { cat $W.instr.log; exit 1; }
go build ${VERIF_MODFLAG:-} -tags verif -overlay $W/overlay.json -o "$1" ./checks/c14
