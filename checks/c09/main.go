// C09: point-in-ring / polygon / multi-polygon answers match exact even-odd geometry.
package main

import (
	"fmt"

	"github.com/paulmach/orb"
	"github.com/paulmach/orb/planar"

	"verif/lib/ev"
	"verif/lib/exact"
	"verif/lib/mc"
	"verif/lib/refgeom"
)

const G = 4 // 4x4 grid, coordinates 0..3; query lattice -0.5..3.5 step 0.5 (9x9)

func gp(k int) (orb.Point, exact.IP) {
	x, y := k%G, k/G
	return orb.Point{float64(x), float64(y)}, exact.IP{int64(2 * x), int64(2 * y)}
}

func qp(k int) (orb.Point, exact.IP) {
	x, y := k%9, k/9
	return orb.Point{float64(x)/2 - 0.5, float64(y)/2 - 0.5}, exact.IP{int64(x - 1), int64(y - 1)}
}

func contains(ring []exact.IP, p exact.IP) bool {
	in, on := exact.InRingI(ring, p)
	return in || on
}

func main() {
	r := ev.New("C09", "exploration")
	r.Rule = "every vertex list of the stated lengths on the 4x4 integer grid (convex, concave, self-intersecting, degenerate, repeated vertices; all rotations and reversals are themselves in the enumeration and are additionally compared with each other) in unclosed and closed spelling, against all 81 points of the half-step lattice [-0.5,3.5]^2; an execution is one ring (all spellings x all 81 points inside it); non-trivial = the ring has non-zero area and at least one lattice point each strictly inside, on the boundary and outside"
	r.Assume = []string{
		"coordinates are small dyadic rationals, so the reference is exact integer arithmetic; general-position floats are not explored (the property's 'randomly larger rings' part is replaced by the 5-vertex exhaustive tier)",
		"a polygon contains a point iff the outer ring contains it (boundary included) and no hole contains it (boundary included), exactly as the statement says",
	}
	var evals [64]int64
	ringCheck := func(c *mc.Ctx, n int) {
		ring := make(orb.Ring, n, n+1)
		ex := make([]exact.IP, n)
		for i := 0; i < n; i++ {
			ring[i], ex[i] = gp(c.Choose(G * G))
		}
		closed := append(ring.Clone(), ring[0])
		// rotations and the reversal (orb spelling)
		var variants []orb.Ring
		variants = append(variants, ring, closed)
		for s := 1; s < n; s++ {
			rot := make(orb.Ring, 0, n+1)
			for i := 0; i < n; i++ {
				rot = append(rot, ring[(s+i)%n])
			}
			variants = append(variants, rot, append(rot.Clone(), rot[0]))
		}
		rev := make(orb.Ring, n)
		for i := range ring {
			rev[i] = ring[n-1-i]
		}
		variants = append(variants, rev, append(rev.Clone(), rev[0]))
		var nin, non, nout int
		for k := 0; k < 81; k++ {
			pf, pe := qp(k)
			in, on := exact.InRingI(ex, pe)
			want := in || on
			switch {
			case in:
				nin++
			case on:
				non++
			default:
				nout++
			}
			for vi, v := range variants {
				evals[c.Worker]++
				if got := planar.RingContains(v, pf); got != want {
					c.Failf("ring", "RingContains(%v, %v) = %v, exact even-odd says inside=%v boundary=%v (variant %d of base ring %v)", v, pf, got, in, on, vi, ring)
					return
				}
				if vi == 0 {
					// the same question translated far from the origin (exact in float64): the answer cannot change
					tr := make(orb.Ring, len(v))
					for i, p := range v {
						tr[i] = orb.Point{p[0] + 1048576, p[1] - 1048573}
					}
					if got := planar.RingContains(tr, orb.Point{pf[0] + 1048576, pf[1] - 1048573}); got != want {
						c.Failf("translation", "RingContains(%v, %v) = %v after translating both by (2^20, -2^20+3), %v before", v, pf, got, want)
						return
					}
					// the same question scaled by a power of two (exact): the answer cannot change
					for _, k := range []float64{1024, 1.0 / (1 << 40)} {
						if got := planar.RingContains(refgeom.Scale(v, k).(orb.Ring), orb.Point{pf[0] * k, pf[1] * k}); got != want {
							c.Failf("scaling", "RingContains(%v, %v) = %v after scaling both by %v, %v before", v, pf, got, k, want)
							return
						}
					}
					// the same ring with spare capacity behind it (a prefix of a longer slice)
					if got := planar.RingContains(orb.Ring(refgeom.Spare(v)), pf); got != want {
						c.Failf("layout-dependent", "RingContains(%v, %v) = %v when the ring has spare capacity, %v otherwise", v, pf, got, want)
						return
					}
				}
			}
		}
		if nin > 0 && non > 0 && nout > 0 && exact.Area2I(ex) != 0 {
			c.NonTrivial()
		}
	}
	for n := 3; n <= ev.Pick(r, 4, 5); n++ {
		n := n
		r.Explore(fmt.Sprintf("rings-%d", n), fmt.Sprintf("all 16^%d vertex lists x (2 spellings x %d rotations + reversal) x 81 query points", n, n),
			mc.Opts{MaxDev: -1, Split: 2}, func(c *mc.Ctx) { ringCheck(c, n) })
	}
	// size: rings far longer than the enumerated ones (a scan that is blocked, unrolled or indexed above some length
	// must still see every edge): a saw of n-3 teeth closed along a base line, exact even-odd reference
	longNs := []int{33, 64, 65, 128, 129, 257, 1025}
	r.Explore("long-rings", fmt.Sprintf("saw-tooth rings of %v vertices (teeth of height 4 over a base at y = -2) x every rotation by {0, 1, n/2, n-1} x reversal x closed / unclosed x every half-step query point of the band y in [-3, 5]: RingContains, PolygonContains with the saw as the hole of a large square, MultiPolygonContains = exact even-odd", longNs), mc.Opts{MaxDev: -1}, func(c *mc.Ctx) {
		n := longNs[c.Choose(len(longNs))]
		m := n - 3 // saw vertices 0..m, then (m,-2), (0,-2)
		base := make([]exact.IP, 0, n)
		for i := 0; i <= m; i++ {
			base = append(base, exact.IP{int64(2 * i), int64(8 * (i % 2))})
		}
		base = append(base, exact.IP{int64(2 * m), -4}, exact.IP{0, -4})
		rot := []int{0, 1, n / 2, n - 1}[c.Choose(4)]
		rev, closed := c.Bool(), c.Bool()
		ex := make([]exact.IP, n)
		for i := range ex {
			j := (rot + i) % n
			if rev {
				j = (rot + n - i) % n
			}
			ex[i] = base[j]
		}
		ring := make(orb.Ring, 0, n+1)
		for _, p := range ex {
			ring = append(ring, orb.Point{float64(p[0]) / 2, float64(p[1]) / 2})
		}
		if closed {
			ring = append(ring, ring[0])
		}
		big := orb.Ring{{-10, -10}, {float64(m) + 10, -10}, {float64(m) + 10, 10}, {-10, 10}, {-10, -10}}
		poly := orb.Polygon{big, ring}
		multi := orb.MultiPolygon{{{{-50, -50}, {-40, -50}, {-40, -40}, {-50, -50}}}, {ring}}
		nin, nout := 0, 0
		for qx := int64(-2); qx <= int64(2*m)+2; qx++ {
			for qy := int64(-6); qy <= 10; qy++ {
				in, on := exact.InRingI(ex, exact.IP{qx, qy})
				want := in || on
				q := orb.Point{float64(qx) / 2, float64(qy) / 2}
				if want {
					nin++
				} else {
					nout++
				}
				if got := planar.RingContains(ring, q); got != want {
					c.Failf("ring", "RingContains(saw of %d vertices, rotation %d, reversed %v, closed %v; %v) = %v, exact even-odd says inside=%v boundary=%v", n, rot, rev, closed, q, got, in, on)
					return
				}
				if got := planar.PolygonContains(poly, q); got != !want {
					c.Failf("polygon", "PolygonContains(square with the saw of %d vertices as a hole, %v) = %v, the hole contains the point: %v", n, q, got, want)
					return
				}
				if got := planar.MultiPolygonContains(multi, q); got != want {
					c.Failf("multipolygon", "MultiPolygonContains(a far triangle and the saw of %d vertices, %v) = %v, want %v", n, q, got, want)
					return
				}
			}
		}
		if nin > 0 && nout > 0 {
			c.NonTrivial()
		}
	})
	// self-overlapping rings: regions wound twice are OUTSIDE under the even-odd rule (and inside under the
	// non-zero winding rule); needs at least five edges, more than the exhaustive parts above enumerate
	overlapping := [][][2]int64{
		{{4, 8}, {6, 0}, {0, 5}, {8, 5}, {2, 0}},                                 // pentagram
		{{0, 0}, {8, 0}, {8, 8}, {0, 8}, {1, 1}, {7, 1}, {7, 7}, {1, 7}},         // a square wound twice (inner loop inside the outer)
		{{4, 8}, {7, 0}, {0, 6}, {8, 4}, {1, 1}, {6, 8}, {2, 0}},                 // heptagram-like star
		{{0, 0}, {6, 0}, {6, 6}, {2, 6}, {2, 2}, {8, 2}, {8, 8}, {0, 8}},         // two overlapping loops in one stroke
		{{0, 4}, {8, 4}, {8, 0}, {4, 0}, {4, 8}, {0, 8}, {0, 2}, {6, 2}, {6, 6}}, // pinwheel with crossings
	}
	r.Explore("self-overlapping", fmt.Sprintf("%d self-overlapping rings of 5..9 vertices on a 9x9 grid x every rotation x reversal x closed / unclosed x 361 half-step query points: exact even-odd", len(overlapping)), mc.Opts{MaxDev: -1}, func(c *mc.Ctx) {
		base := overlapping[c.Choose(len(overlapping))]
		n := len(base)
		rot := c.Choose(n)
		rev := c.Bool()
		closed := c.Bool()
		ring := make(orb.Ring, 0, n+1)
		ex := make([]exact.IP, 0, n)
		for i := 0; i < n; i++ {
			j := (rot + i) % n
			if rev {
				j = (rot + n - i) % n
			}
			ring = append(ring, orb.Point{float64(base[j][0]), float64(base[j][1])})
			ex = append(ex, exact.IP{2 * base[j][0], 2 * base[j][1]})
		}
		if closed {
			ring = append(ring, ring[0])
		}
		twice := 0
		for qx := int64(-1); qx <= 17; qx++ {
			for qy := int64(-1); qy <= 17; qy++ {
				pf := orb.Point{float64(qx) / 2, float64(qy) / 2}
				want := contains(ex, exact.IP{qx, qy})
				if got := planar.RingContains(ring, pf); got != want {
					c.Failf("ring-self-overlap", "RingContains(%v, %v) = %v, exact even-odd (boundary included) says %v", ring, pf, got, want)
					return
				}
				hole := orb.Polygon{{{-2, -2}, {10, -2}, {10, 10}, {-2, 10}, {-2, -2}}, ring}
				if got := planar.PolygonContains(hole, pf); got != !want {
					c.Failf("ring-self-overlap", "PolygonContains with the ring as a hole, point %v = %v, want %v | %v", pf, got, !want, ring)
					return
				}
				if !want {
					twice++
				}
			}
		}
		c.NonTrivial()
	})
	r.Explore("rings-0-2", "vertex lists of 0, 1, 2 points, closed and unclosed", mc.Opts{MaxDev: -1}, func(c *mc.Ctx) {
		n := c.Choose(3)
		ring := make(orb.Ring, n)
		ex := make([]exact.IP, n)
		for i := 0; i < n; i++ {
			ring[i], ex[i] = gp(c.Choose(G * G))
		}
		if n == 0 && c.Bool() {
			ring = nil
		}
		for k := 0; k < 81; k++ {
			pf, pe := qp(k)
			want := contains(ex, pe)
			if got := planar.RingContains(ring, pf); got != want {
				c.Failf("ring-degenerate", "RingContains(%v, %v) = %v, want %v", ring, pf, got, want)
			}
			if n > 0 {
				cl := append(ring.Clone(), ring[0])
				if got := planar.RingContains(cl, pf); got != want {
					c.Failf("ring-degenerate", "RingContains(%v, %v) = %v, want %v", cl, pf, got, want)
				}
			}
		}
		if n == 2 && ring[0] != ring[1] {
			c.NonTrivial()
		}
	})
	// polygons with holes and multi-polygons
	outers := [][]int{{0, 3, 15, 12}, {0, 3, 15}, {12, 15, 3, 0}, {0, 2, 10, 8}, {1, 3, 15, 13, 9}}
	mk := func(idx []int) (orb.Ring, []exact.IP) {
		var ring orb.Ring
		var ex []exact.IP
		for _, k := range idx {
			p, e := gp(k)
			ring = append(ring, p)
			ex = append(ex, e)
		}
		return append(ring, ring[0]), ex
	}
	r.Explore("polygons", "5 outer rings x every 3-vertex hole on the grid (closed/unclosed) x optional second hole x 81 points; multi-polygon of the polygon and a second one", mc.Opts{MaxDev: -1, Split: 2}, func(c *mc.Ctx) {
		oi := c.Choose(len(outers))
		outer, oex := mk(outers[oi])
		var hole orb.Ring
		var hex []exact.IP
		for i := 0; i < 3; i++ {
			p, e := gp(c.Choose(G * G))
			hole = append(hole, p)
			hex = append(hex, e)
		}
		if c.Bool() {
			hole = append(hole, hole[0])
		}
		poly := orb.Polygon{outer, hole}
		holes := [][]exact.IP{hex}
		if c.Bool() {
			h2, h2e := mk([]int{5, 6, 10})
			poly = append(poly, h2)
			holes = append(holes, h2e)
		}
		other, otex := mk(outers[(oi+3)%len(outers)])
		mp := orb.MultiPolygon{orb.Polygon{other}, poly}
		nz := 0
		for k := 0; k < 81; k++ {
			pf, pe := qp(k)
			want := contains(oex, pe)
			for _, h := range holes {
				if contains(h, pe) {
					if want {
						nz++
					}
					want = false
				}
			}
			if got := planar.PolygonContains(poly, pf); got != want {
				c.Failf("polygon", "PolygonContains(%v, %v) = %v, want %v", poly, pf, got, want)
			}
			wantM := want || contains(otex, pe)
			if got := planar.MultiPolygonContains(mp, pf); got != wantM {
				c.Failf("multipolygon", "MultiPolygonContains(%v, %v) = %v, want %v", mp, pf, got, wantM)
			}
			// members in the other order, and an island that fills the first hole (a member inside another
			// member's hole): a multi-polygon contains the point iff any member does, whatever the order
			if got := planar.MultiPolygonContains(orb.MultiPolygon{poly, orb.Polygon{other}}, pf); got != wantM {
				c.Failf("multipolygon", "MultiPolygonContains with the members [polygon with holes, %v] in this order, point %v = %v, want %v | polygon %v", other, pf, got, wantM, poly)
			}
			wantI := want || contains(hex, pe)
			for oi2, isl := range []orb.MultiPolygon{{poly, orb.Polygon{hole}}, {orb.Polygon{hole}, poly}} {
				if got := planar.MultiPolygonContains(isl, pf); got != wantI {
					c.Failf("multipolygon", "MultiPolygonContains of the polygon and an island filling its first hole (order %d), point %v = %v, want %v | polygon %v", oi2, pf, got, wantI, poly)
				}
			}
			// read-only and layout-independent: all rings as windows of one shared buffer
			wmp, verify := refgeom.Windowed(mp)
			wgot := planar.MultiPolygonContains(wmp.(orb.MultiPolygon), pf)
			if d := verify(); d != "" {
				c.Failf("contains-writes", "MultiPolygonContains wrote outside its argument: %s | %v", d, mp)
			} else if wgot != wantM {
				c.Failf("layout-dependent", "MultiPolygonContains(%v, %v) = %v when the rings share one buffer, want %v", mp, pf, wgot, wantM)
			}
		}
		if nz > 0 {
			c.NonTrivial()
		}
	})
	var total int64
	for _, e := range evals {
		total += e
	}
	r.Count("ring_containment_evaluations", total)
	r.Sample(map[string]interface{}{"ring": "[[0,0],[3,0],[0,3],[3,3]] (bow-tie)", "point": "[1.5,1.5] (the crossing point, on the boundary)", "expected": true})
	r.Sample(map[string]interface{}{"polygon": "outer [[0,0],[3,0],[3,3],[0,3],[0,0]] hole [[1,1],[2,1],[1,2]]", "point": "[1,1.5] (on the hole boundary)", "expected": false})
	r.Finish()
}
