// C15: projections invert each other and transform every vertex in place.
package main

import (
	"fmt"
	"math"

	"github.com/paulmach/orb"
	"github.com/paulmach/orb/encoding/mvt"
	"github.com/paulmach/orb/geojson"
	"github.com/paulmach/orb/maptile"
	"github.com/paulmach/orb/project"

	"verif/lib/ev"
	"verif/lib/gg"
	"verif/lib/mc"
	"verif/lib/refgeom"
)

func patterns(z uint32) []uint32 {
	if z == 0 {
		return []uint32{0}
	}
	max := uint32(1)<<z - 1
	cand := []uint32{0, 1, max, 1 << (z - 1), 1<<(z-1) - 1, 0x55555555 & max, 0xAAAAAAAA & max, 0x00FF00FF & max}
	var out []uint32
	seen := map[uint32]bool{}
	for _, c := range cand {
		if !seen[c] {
			seen[c] = true
			out = append(out, c)
		}
	}
	return out
}

// roundTrip projects the diagonal pixels (p,p), p in [-e, 2e), of tile {t,t,z} to WGS84 and back.
func roundTrip(c *mc.Ctx, t uint32, z uint32, extent uint32) {
	e := int(extent)
	mp := make(orb.MultiPoint, 0, 3*e)
	for p := -e; p < 2*e; p++ {
		mp = append(mp, orb.Point{float64(p), float64(p)})
	}
	feat := geojson.NewFeature(mp)
	feat.ID, feat.BBox = 7, geojson.BBox{-1, -1, 1, 1} // an id, properties and a (stale) bbox member have no say in projecting
	feat.Properties["k"] = "v"
	layer := &mvt.Layer{Name: "l", Version: 2, Extent: extent, Features: []*geojson.Feature{feat}}
	tile := maptile.New(t, t, maptile.Zoom(z))
	layer.ProjectToWGS84(tile)
	geo := layer.Features[0].Geometry.(orb.MultiPoint).Clone()
	layer.ProjectToTile(tile)
	back := layer.Features[0].Geometry.(orb.MultiPoint)
	// absolute anchor (a shift applied consistently in both directions would survive the round trip): the WGS84
	// image of pixel p lies inside pixel p's own cell of the tile, by the check's own web-mercator formulas
	n := math.Ldexp(1, int(z))
	for i, g := range geo {
		p := float64(i - e)
		ux := ((g[0]/360+0.5)*n - float64(t)) * float64(extent)
		if ux < p-1e-6 || ux > p+1+1e-6 {
			c.Failf("tile-anchor", "tile %v extent %d: pixel %v maps to longitude %v, which is tile-space x = %v (outside the pixel's cell)", tile, extent, p, g[0], ux)
			return
		}
		if math.Abs(g[1]) < 85.0511 {
			phi := g[1] * math.Pi / 180
			uy := ((1-math.Log(math.Tan(math.Pi/4+phi/2))/math.Pi)/2*n - float64(t)) * float64(extent)
			if uy < p-1e-6 || uy > p+1+1e-6 {
				c.Failf("tile-anchor", "tile %v extent %d: pixel %v maps to latitude %v, which is tile-space y = %v (outside the pixel's cell)", tile, extent, p, g[1], uy)
				return
			}
		}
	}
	for i, q := range back {
		p := float64(i - e)
		for ax := 0; ax < 2; ax++ {
			if q[ax] == p {
				continue
			}
			cl := "tile-roundtrip"
			if extent&(extent-1) != 0 {
				cl = "tile-roundtrip:non-power-of-two-extent"
			}
			if ax == 1 {
				if s := math.Sin(geo[i][1] * math.Pi / 180); math.Abs(s) > 0.9999 {
					// beyond 89.19 degrees: outside the mercator square, mercator.ToPlanar clamps (and flips): north
					// goes to the world's last row (last tile row for a non-power-of-two extent), south to row 0.
					// Only that recorded behaviour is the known finding; any other wrong pixel up there is not.
					var clamp float64
					switch pow2 := extent&(extent-1) == 0; {
					case pow2 && s > 0:
						clamp = n*float64(extent) - 1 - float64(t)*float64(extent)
					case pow2:
						clamp = -float64(t) * float64(extent)
					case s > 0:
						clamp = math.Floor((n - 1 - float64(t)) * float64(extent))
					default:
						clamp = math.Floor(-float64(t) * float64(extent))
					}
					if q[ax] == clamp {
						cl = "tile-roundtrip:beyond-mercator-clamp"
					}
				}
			}
			c.Failf(cl, "tile %v extent %d: pixel %v on axis %d -> WGS84 %v -> pixel %v", tile, extent, p, ax, geo[i], q[ax])
			return
		}
	}
}

// mapGeom is the reference: same kind, nesting and order, every vertex mapped once;
// a bound becomes the box of its two projected corners.
func mapGeom(g orb.Geometry, f orb.Projection) orb.Geometry {
	pts := func(ps []orb.Point) []orb.Point {
		o := make([]orb.Point, len(ps))
		for i, p := range ps {
			o[i] = f(p)
		}
		return o
	}
	switch v := g.(type) {
	case orb.Point:
		return f(v)
	case orb.MultiPoint:
		return orb.MultiPoint(pts(v))
	case orb.LineString:
		return orb.LineString(pts(v))
	case orb.Ring:
		return orb.Ring(pts(v))
	case orb.MultiLineString:
		o := make(orb.MultiLineString, len(v))
		for i := range v {
			o[i] = pts(v[i])
		}
		return o
	case orb.Polygon:
		o := make(orb.Polygon, len(v))
		for i := range v {
			o[i] = pts(v[i])
		}
		return o
	case orb.MultiPolygon:
		o := make(orb.MultiPolygon, len(v))
		for i := range v {
			o[i] = mapGeom(v[i], f).(orb.Polygon)
		}
		return o
	case orb.Collection:
		o := make(orb.Collection, len(v))
		for i := range v {
			o[i] = mapGeom(v[i], f)
		}
		return o
	case orb.Bound:
		a, b := f(v.Min), f(v.Max)
		return orb.Bound{Min: orb.Point{math.Min(a[0], b[0]), math.Min(a[1], b[1])}, Max: orb.Point{math.Max(a[0], b[0]), math.Max(a[1], b[1])}}
	}
	return g
}

func main() {
	r := ev.New("C15", "exploration")
	r.Rule = "tile projection: x and y are independent, so each (axis tile t, zoom z, extent) is explored on the diagonal tile {t,t,z} with every integer pixel p in [-extent, 2*extent) on both axes - every axis tile up to the stated zoom, the bit-pattern alphabet for zooms up to 22; mercator <-> WGS84 on a complete lattice; project.Geometry over the geometry grammar with three point functions; non-trivial tile case = zoom > 0; non-trivial geometry = has a vertex"
	r.Assume = []string{
		"mercator round-trips are compared within 1e-9 degrees / 1e-3 m, tile round-trips exactly",
		"non-power-of-two extents {1000,4000,4095,3} are explored in their own part",
	}
	pow2 := []uint32{256, 512, 1024, 2048, 4096, 8192}
	zq := ev.Pick(r, 8, 11)
	tilePart := func(extents []uint32, zmax int) func(c *mc.Ctx) {
		return func(c *mc.Ctx) {
			z := uint32(c.Choose(zmax + 1))
			t := uint32(c.Choose(1 << z))
			ext := extents[c.Choose(len(extents))]
			roundTrip(c, t, z, ext)
			if z > 0 {
				c.NonTrivial()
			}
		}
	}
	r.Explore("tile-pow2", fmt.Sprintf("every axis tile of zoom 0..%d x extents 256..8192 x every pixel in [-e,2e)", zq), mc.Opts{MaxDev: -1, Split: 2}, tilePart(pow2, zq))
	r.Explore("tile-pow2-highzoom", fmt.Sprintf("zooms %d..22 x bit-pattern axis tiles x extents 256..8192 x every pixel", zq+1), mc.Opts{MaxDev: -1, Split: 2}, func(c *mc.Ctx) {
		z := uint32(zq + 1 + c.Choose(22-zq))
		ps := patterns(z)
		t := ps[c.Choose(len(ps))]
		roundTrip(c, t, z, pow2[c.Choose(len(pow2))])
		c.NonTrivial()
	})
	np2 := []uint32{1000, 4000, 4095, 3}
	zn := ev.Pick(r, 7, 9)
	r.Explore("tile-nonpow2", fmt.Sprintf("every axis tile of zoom 0..%d and bit-pattern tiles of zooms 12, 17, 22 x extents {1000,4000,4095,3} x every pixel", zn), mc.Opts{MaxDev: -1, Split: 2}, func(c *mc.Ctx) {
		k := c.Choose(zn + 4)
		ext := np2[c.Choose(len(np2))]
		if k <= zn {
			roundTrip(c, uint32(c.Choose(1<<uint(k))), uint32(k), ext)
		} else {
			z := []uint32{12, 17, 22}[k-zn-1]
			ps := patterns(z)
			roundTrip(c, ps[c.Choose(len(ps))], z, ext)
		}
		if k > 0 {
			c.NonTrivial()
		}
	})
	// mercator <-> WGS84
	var lons, lats []float64
	for lon := -180.0; lon <= 180; lon += 7.5 {
		lons = append(lons, lon)
	}
	for lat := -85.05; lat <= 85.05+1e-9; lat += 0.35 {
		lats = append(lats, lat)
	}
	lats = append(lats, 85.05, 0, -0.0001, 84.9999)
	// layers (plural): every sequence of 1..4 layers over 3 extents, through Layers.ProjectToWGS84 and
	// Layers.ProjectToTile; each layer must be projected with ITS OWN extent and agree with the single-layer methods
	exts := []uint32{256, 4096, 1000}
	r.Explore("layers-mixed-extents", "every sequence of 1..4 layers over extents {256, 4096, 1000} x 3 tiles: Layers.ProjectToWGS84 / ProjectToTile round-trip integer pixels and agree with the per-layer methods", mc.Opts{MaxDev: -1, Split: 2}, func(c *mc.Ctx) {
		tile := []maptile.Tile{maptile.New(0, 0, 0), maptile.New(5, 11, 4), maptile.New(1730576, 798477, 21)}[c.Choose(3)]
		n := 1 + c.Choose(4)
		px := func(e uint32) orb.MultiPoint {
			return orb.MultiPoint{{0, 0}, {float64(e) / 2, float64(e)/2 + 1}, {float64(e) - 1, 3}, {-7, float64(e) + 7}, {1, float64(e) - 2}}
		}
		// every kind with repeated consecutive vertices: the projection maps vertex for vertex, it does not merge
		shapes := func(e uint32) []orb.Geometry {
			h := float64(e) / 2
			return []orb.Geometry{
				orb.LineString{{10, 10}, {10, 10}, {h, 30}, {h, 30}, {h, 30}},
				orb.MultiLineString{{{1, 1}, {1, 1}}, {{2, 2}, {3, 3}, {3, 3}}},
				orb.Polygon{{{0, 0}, {h, 0}, {h, 0}, {h, h}, {0, 0}, {0, 0}}},
				orb.Collection{orb.Ring{{5, 5}, {5, 5}, {6, 5}, {6, 6}, {5, 5}}, orb.Point{7, 7}, orb.Bound{Min: orb.Point{1, 2}, Max: orb.Point{1, 2}}},
				// rings of either winding, as outer ring and as hole: projecting moves vertices, it does not rewind rings
				orb.Polygon{{{0, 0}, {0, h}, {h, h}, {h, 0}, {0, 0}}, {{2, 2}, {9, 2}, {9, 9}, {2, 9}, {2, 2}}},
				orb.Polygon{{{0, 0}, {h, 0}, {h, h}, {0, h}, {0, 0}}, {{2, 2}, {2, 9}, {9, 9}, {9, 2}, {2, 2}}},
				orb.MultiPolygon{{{{0, 0}, {0, 9}, {9, 9}, {0, 0}}}, {{{20, 20}, {29, 20}, {29, 29}, {20, 20}}, {{22, 21}, {28, 21}, {28, 27}, {22, 21}}}},
				orb.Collection{orb.Polygon{{{0, 0}, {0, 9}, {9, 9}, {0, 0}}}, orb.MultiPolygon{{{{20, 20}, {29, 29}, {29, 20}, {20, 20}}}}},
				// multi kinds with one member and with none: the kind is the caller's, not the encoder's
				orb.MultiPoint{{3, 3}}, orb.MultiLineString{{{1, 1}, {2, 2}}}, orb.MultiPolygon{{{{0, 0}, {0, 9}, {9, 9}, {0, 0}}}},
				orb.MultiPoint{}, orb.Collection{orb.MultiPoint{{4, 4}}},
			}
		}
		{
			e := exts[c.Choose(len(exts))]
			l := &mvt.Layer{Name: "shapes", Version: 2, Extent: e}
			for _, g := range shapes(e) {
				l.Features = append(l.Features, geojson.NewFeature(orb.Clone(g)))
			}
			l.ProjectToWGS84(tile)
			l.ProjectToTile(tile)
			for i, g := range shapes(e) {
				if refgeom.Struct(l.Features[i].Geometry) != refgeom.Struct(g) {
					c.Failf("vertex-for-vertex", "tile %v extent %d: %T %v comes back as %v after ProjectToWGS84 / ProjectToTile", tile, e, g, g, l.Features[i].Geometry)
					return
				}
			}
		}
		var ls, single mvt.Layers
		var seq []uint32
		for i := 0; i < n; i++ {
			e := exts[c.Choose(len(exts))]
			seq = append(seq, e)
			ls = append(ls, &mvt.Layer{Name: fmt.Sprint("l", i), Version: 2, Extent: e, Features: []*geojson.Feature{geojson.NewFeature(px(e))}})
			single = append(single, &mvt.Layer{Name: fmt.Sprint("l", i), Version: 2, Extent: e, Features: []*geojson.Feature{geojson.NewFeature(px(e))}})
		}
		ls.ProjectToWGS84(tile)
		for i, l := range single {
			l.ProjectToWGS84(tile)
			if !refgeom.Equal(l.Features[0].Geometry, ls[i].Features[0].Geometry) {
				c.Failf("layers-plural", "tile %v extents %v: Layers.ProjectToWGS84 gives %v for layer %d, Layer.ProjectToWGS84 gives %v", tile, seq, ls[i].Features[0].Geometry, i, l.Features[0].Geometry)
				return
			}
		}
		ls.ProjectToTile(tile)
		for i, l := range ls {
			if want := px(seq[i]); !refgeom.Equal(l.Features[0].Geometry, want) {
				c.Failf("layers-plural", "tile %v extents %v: layer %d comes back as %v after Layers.ProjectToWGS84 / ProjectToTile, want %v", tile, seq, i, l.Features[0].Geometry, want)
				return
			}
		}
		c.NonTrivial()
	})
	r.Explore("mercator", fmt.Sprintf("%d x %d lon/lat lattice incl. the range ends: WGS84->Mercator->WGS84 within 1e-9 deg and Mercator->WGS84->Mercator within 1e-3 m", len(lons), len(lats)), mc.Opts{MaxDev: -1, Split: 1}, func(c *mc.Ctx) {
		lon := lons[c.Choose(len(lons))]
		for _, lat := range lats {
			p := orb.Point{lon, lat}
			m := project.WGS84.ToMercator(p)
			b := project.Mercator.ToWGS84(m)
			if math.Abs(b[0]-lon) > 1e-9 || math.Abs(b[1]-lat) > 1e-9 || math.IsNaN(b[0]+b[1]) {
				c.Failf("mercator-roundtrip", "WGS84 %v -> Mercator %v -> WGS84 %v", p, m, b)
			}
			m2 := project.WGS84.ToMercator(b)
			if math.Abs(m2[0]-m[0]) > 1e-3 || math.Abs(m2[1]-m[1]) > 1e-3 {
				c.Failf("mercator-roundtrip", "Mercator %v -> WGS84 %v -> Mercator %v", m, b, m2)
			}
			// starting on the Mercator side, at and just inside the edge of the mercator square
			edge := orb.EarthRadius * math.Pi
			for _, my := range []float64{edge, edge - 1e-3, edge - 1, edge - 30, edge - 1000, -edge, -edge + 1, -edge + 30} {
				ms := orb.Point{lon * math.Pi / 180 * orb.EarthRadius, my}
				if back := project.WGS84.ToMercator(project.Mercator.ToWGS84(ms)); math.Abs(back[0]-ms[0]) > 1e-3 || math.Abs(back[1]-ms[1]) > 1e-3 {
					c.Failf("mercator-roundtrip", "Mercator %v -> WGS84 %v -> Mercator %v (near the edge of the mercator square)", ms, project.Mercator.ToWGS84(ms), back)
					break
				}
			}
			// closed forms
			wx := lon * math.Pi / 180 * orb.EarthRadius
			wy := math.Log(math.Tan(math.Pi/4+lat*math.Pi/360)) * orb.EarthRadius
			if math.Abs(m[0]-wx) > 1e-6 || math.Abs(m[1]-wy) > 1e-6 {
				c.Failf("mercator-formula", "ToMercator(%v) = %v, closed form (%v,%v)", p, m, wx, wy)
			}
		}
		c.NonTrivial()
	})
	// project.Geometry: every vertex once, structure preserved
	type loc struct {
		g     *gg.Gen
		reset func()
	}
	coords := []float64{5, -3, 2, 0, -1, 1, 3, 7, -2, 4, 6}
	successor := map[orb.Point]orb.Point{}
	for k := 0; k < len(coords); k++ {
		at := func(k int) orb.Point { return orb.Point{coords[2*k%len(coords)], coords[(2*k+1)%len(coords)]} }
		successor[at(k)] = at(k + 1)
	}
	newLocal := func(int) interface{} {
		next, reset := gg.Cyclic(coords)
		return &loc{&gg.Gen{K: 2, M: 2, Depth: 3, NilSlice: true, Next: next}, reset}
	}
	check := func(c *mc.Ctx, g orb.Geometry) {
		nv := 0
		refgeom.Vertices(g, true, func(*orb.Point) { nv++ }) // a bound counts its two corners
		for fi, mk := range []func(*int) orb.Projection{
			func(n *int) orb.Projection { return func(p orb.Point) orb.Point { *n++; return p } },
			func(n *int) orb.Projection {
				return func(p orb.Point) orb.Point { *n++; return orb.Point{2*p[0] + 1, -3*p[1] + 10} }
			},
			func(n *int) orb.Projection {
				return func(p orb.Point) orb.Point { *n++; return orb.Point{p[1] + float64(*n)/1024, p[0]} }
			},
			// the image of every vertex is the vertex that follows it in the generator's sequence: each input vertex
			// equals the projection of its predecessor (shortcuts keyed on "same as the previous result" go wrong here)
			func(n *int) orb.Projection {
				return func(p orb.Point) orb.Point {
					*n++
					if q, ok := successor[p]; ok {
						return q
					}
					return orb.Point{p[0] + 100, p[1] + 100}
				}
			},
		} {
			var calls, refCalls int
			in := orb.Clone(g)
			if in == nil {
				in = g // typed nil slices
			}
			var want orb.Geometry
			_, wasRing := in.(orb.Ring)
			_, wasBound := in.(orb.Bound)
			out := project.Geometry(in, mk(&calls))
			desc := fmt.Sprintf("function #%d geometry %T %v -> %v", fi, g, g, out)
			if calls != nv {
				c.Failf("project-calls", "the point function was called %d times for %d vertices | %s", calls, nv, desc)
			}
			_ = wasBound
			f := mk(&refCalls)
			want = mapGeom(g, f)
			if wasRing {
				if _, ok := out.(orb.Ring); !ok {
					c.Failf("project-kind", "a ring came back as %T | %s", out, desc)
				}
			} else if out != nil && fmt.Sprintf("%T", out) != fmt.Sprintf("%T", g) {
				c.Failf("project-kind", "kind changed to %T | %s", out, desc)
			}
			if refgeom.Struct(out) != refgeom.Struct(want) {
				c.Failf("project-structure", "result differs from mapping every vertex once in order (bounds: box of the two projected corners): want %v | %s", want, desc)
			}
		}
		if nv > 0 {
			c.NonTrivial()
		}
	}
	r.Explore("geometry-noncollection", "full product of the 8 non-collection kinds (k=2, m=2) x 4 point functions", mc.Opts{MaxDev: -1, NewLocal: newLocal}, func(c *mc.Ctx) {
		l := c.Local().(*loc)
		l.reset()
		check(c, l.g.Kind(c, c.Choose(gg.KCollection), 0, true))
	})
	r.Explore("geometry-collections", "collections nested to depth 3 within 5 deviations x 4 point functions", mc.Opts{MaxDev: 5, NewLocal: newLocal}, func(c *mc.Ctx) {
		l := c.Local().(*loc)
		l.reset()
		check(c, l.g.Kind(c, gg.KCollection, 0, true))
	})
	r.Sample(map[string]interface{}{"tile": "{5 5 3}", "extent": 4096, "pixels": "(-4096,-4096) .. (8191,8191)", "expected": "tile -> WGS84 -> tile returns every pixel exactly"})
	r.Finish()
}
