#!/bin/bash
# C02 is built against a copy of package geojson whose map ranges are owned by the harness (overlay only).
set -e
cd "$(dirname "$(readlink -f "$0")")/../.."
go build -o .work/bin/instr ./tools/instr
W=.work/c02${VERIF_TAG:-}
R=${VERIF_REPO:-/repo}
.work/bin/instr -repo "$R" -out $W -maprange geojson 2>$W.instr.log || { cat $W.instr.log; exit 1; }
go build ${VERIF_MODFLAG:-} -tags verif -overlay $W/overlay.json -o "$1" ./checks/c02
