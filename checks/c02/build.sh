#!/bin/bash
# C02 is built against a copy of package geojson whose map ranges are owned by the harness (overlay only).
set -e
cd "$(dirname "$(readlink -f "$0")")/../.."
go build -o .work/bin/instr ./tools/instr
.work/bin/instr -out .work/c02 -maprange geojson 2>.work/c02.instr.log || { cat .work/c02.instr.log; exit 1; }
go build -tags verif -overlay .work/c02/overlay.json -o "$1" ./checks/c02
