// C02: GeoJSON (JSON and BSON) round-trips geometry, feature and feature collection.
package main

import (
	"bytes"
	"encoding/json"
	"fmt"
	"math"
	"reflect"
	"sort"
	"strings"
	"sync/atomic"

	"github.com/paulmach/orb"
	"github.com/paulmach/orb/geojson"
	"github.com/paulmach/orb/zzverif/mcrt"
	"go.mongodb.org/mongo-driver/bson"
	"go.mongodb.org/mongo-driver/bson/primitive"

	"verif/lib/ev"
	"verif/lib/gg"
	"verif/lib/mc"
	"verif/lib/refgeom"
	"verif/lib/retain"
)

var ffin = []float64{
	1, -2.5, 0.1, 1.0 / 3, 1e21, 1e-7, 9007199254740993, 5e-324, math.MaxFloat64, math.Copysign(0, -1),
	123456789.12345678, -180, 90, 1e20, 0.0001, 0.00001, -1e-5, 1.7976931348623157e308, 1e22, 100000,
}

// geometry equality in the round-trip normal form (ring/bound = polygon, nil = empty slice, empty collection = null)
func nf(g orb.Geometry) string { return refgeom.Struct(refgeom.Normal(g, true)) }

// canon maps decoded JSON / BSON values to plain maps, slices and float64 numbers
func canon(v interface{}) interface{} {
	switch x := v.(type) {
	case nil:
		return nil
	case map[string]interface{}:
		m := map[string]interface{}{}
		for k, e := range x {
			m[k] = canon(e)
		}
		return m
	case geojson.Properties:
		return canon(map[string]interface{}(x))
	case primitive.M:
		return canon(map[string]interface{}(x))
	case primitive.D:
		m := map[string]interface{}{}
		for _, e := range x {
			m[e.Key] = canon(e.Value)
		}
		return m
	case primitive.A:
		return canon([]interface{}(x))
	case []interface{}:
		if x == nil {
			return nil // a nil slice marshals as null, not as the empty array
		}
		s := make([]interface{}, len(x))
		for i, e := range x {
			s[i] = canon(e)
		}
		return s
	case int:
		return float64(x)
	case int32:
		return float64(x)
	case int64:
		return float64(x)
	case float32:
		return float64(x)
	case geojson.BBox:
		s := make([]interface{}, len(x))
		for i, e := range x {
			s[i] = e
		}
		return s
	}
	return v
}

func sameProps(a, b interface{}) bool {
	ca, cb := canon(a), canon(b)
	if m, ok := ca.(map[string]interface{}); ok && len(m) == 0 {
		ca = nil
	}
	if m, ok := cb.(map[string]interface{}); ok && len(m) == 0 {
		cb = nil
	}
	return reflect.DeepEqual(ca, cb)
}

func sameBBox(a, b geojson.BBox) bool {
	if len(a) != len(b) {
		return false
	}
	for i := range a {
		if math.Float64bits(a[i]) != math.Float64bits(b[i]) {
			return false
		}
	}
	return true
}

// rfc7946 checks the shape of a geometry object parsed generically
func rfc7946(v interface{}) string {
	if v == nil {
		return ""
	}
	m, ok := v.(map[string]interface{})
	if !ok {
		return "geometry is not an object"
	}
	t, _ := m["type"].(string)
	depth := map[string]int{"Point": 1, "MultiPoint": 2, "LineString": 2, "MultiLineString": 3, "Polygon": 3, "MultiPolygon": 4}
	if t == "GeometryCollection" {
		gs, ok := m["geometries"].([]interface{})
		if !ok {
			return "GeometryCollection without a geometries array"
		}
		if _, has := m["coordinates"]; has {
			return "GeometryCollection with coordinates"
		}
		for _, g := range gs {
			if e := rfc7946(g); e != "" {
				return e
			}
		}
		return ""
	}
	d, ok := depth[t]
	if !ok {
		return fmt.Sprintf("unknown type %q", t)
	}
	if _, has := m["geometries"]; has {
		return t + " with geometries"
	}
	var chk func(c interface{}, d int) string
	chk = func(c interface{}, d int) string {
		a, ok := c.([]interface{})
		if !ok {
			if c == nil && d > 1 {
				return "" // a nil slice prints as null; depth cannot be read
			}
			return fmt.Sprintf("%s: coordinates not nested deep enough", t)
		}
		if d == 1 {
			if len(a) != 2 {
				return fmt.Sprintf("%s: position with %d numbers", t, len(a))
			}
			for _, n := range a {
				if _, ok := n.(float64); !ok {
					return t + ": position holds a non-number (nested too deep?)"
				}
			}
			return ""
		}
		for _, e := range a {
			if s := chk(e, d-1); s != "" {
				return s
			}
		}
		return ""
	}
	c, has := m["coordinates"]
	if !has {
		return t + " without coordinates"
	}
	return chk(c, d)
}

// recordedEmptyBSON: the recorded finding is a refusal to decode the document whose coordinates member the driver
// omitted - not any other error, and not a value that differs.
func recordedEmptyBSON(err error) bool {
	return err != nil && strings.Contains(err.Error(), "cannot decode")
}

func emptyNonCollection(g orb.Geometry) bool {
	switch v := g.(type) {
	case orb.MultiPoint:
		return len(v) == 0
	case orb.LineString:
		return len(v) == 0
	case orb.MultiLineString:
		return len(v) == 0
	case orb.Polygon:
		return len(v) == 0
	case orb.MultiPolygon:
		return len(v) == 0
	case orb.Collection:
		for _, m := range v {
			if emptyNonCollection(m) {
				return true
			}
		}
	}
	return false
}

var kept retain.Keeper

// countingJSON behaves like encoding/json and counts its calls.
type countingJSON struct{ n int64 }

func (h *countingJSON) Marshal(v interface{}) ([]byte, error) {
	atomic.AddInt64(&h.n, 1)
	return json.Marshal(v)
}
func (h *countingJSON) Unmarshal(data []byte, v interface{}) error {
	atomic.AddInt64(&h.n, 1)
	return json.Unmarshal(data, v)
}
func (h *countingJSON) calls() int64 { return atomic.LoadInt64(&h.n) }

func checkGeometry(c *mc.Ctx, g orb.Geometry) {
	desc := fmt.Sprintf("geometry=%T %v", g, g)
	want := nf(g)
	jg := geojson.NewGeometry(g)
	b, err := json.Marshal(jg)
	if err != nil {
		c.Failf("json-marshal", "%v | %s", err, desc)
		return
	}
	desc += " json=" + string(b)
	back, err := geojson.UnmarshalGeometry(b)
	if err != nil {
		cl := "json-roundtrip"
		if col, ok := g.(orb.Collection); ok && len(col) == 0 && string(b) == "null" && err == geojson.ErrInvalidGeometry {
			cl = "json-roundtrip:top-level-empty-collection:invalid-geometry"
		}
		c.Failf(cl, "UnmarshalGeometry: %v | %s", err, desc)
		return
	}
	if got := nf(back.Geometry()); got != want {
		c.Failf("json-roundtrip", "decoded %T %v differs (bit-wise, normal form) | %s", back.Geometry(), back.Geometry(), desc)
	}
	// what earlier calls returned must still be what they returned
	if d := kept.Bytes(c.Worker, "JSON from Marshal", b, desc); d != "" {
		c.Failf("result-overwritten", "%s | now %s", d, desc)
	}
	if d := kept.Geometry(c.Worker, "geometry from UnmarshalGeometry", back.Geometry(), desc); d != "" {
		c.Failf("result-overwritten", "%s | now %s", d, desc)
	}
	if b2, err := json.Marshal(back); err != nil || !bytes.Equal(b, b2) {
		c.Failf("json-remarshal", "marshalling the decoded value gives %s (%v) | %s", b2, err, desc)
	}
	var generic interface{}
	if err := json.Unmarshal(b, &generic); err != nil {
		c.Failf("json-wellformed", "%v | %s", err, desc)
	} else if e := rfc7946(generic); e != "" {
		c.Failf("rfc7946", "%s | %s", e, desc)
	} else if m, ok := generic.(map[string]interface{}); ok {
		norm := refgeom.Normal(g, true)
		if norm != nil && m["type"] != norm.GeoJSONType() {
			c.Failf("rfc7946", "type member %v, want %s | %s", m["type"], norm.GeoJSONType(), desc)
		}
	}
	// BSON
	bb, err := bson.Marshal(jg)
	if err != nil {
		c.Failf("bson-marshal", "%v | %s", err, desc)
		return
	}
	bg := &geojson.Geometry{}
	if err := bson.Unmarshal(bb, bg); err != nil {
		cl := "bson-roundtrip"
		if emptyNonCollection(refgeom.Normal(g, false)) && recordedEmptyBSON(err) {
			cl = "bson-roundtrip:empty-coordinates-omitted"
		}
		c.Failf(cl, "bson.Unmarshal: %v | %s", err, desc)
	} else if got := nf(bg.Geometry()); got != want {
		c.Failf("bson-roundtrip", "BSON decoded %T %v differs | %s", bg.Geometry(), bg.Geometry(), desc)
	}
	// typed helpers
	type helper struct {
		v   interface{}
		dst func() interface{}
		get func(interface{}) orb.Geometry
	}
	var h *helper
	switch v := refgeom.Normal(g, false).(type) {
	case orb.Point:
		h = &helper{geojson.Point(v), func() interface{} { return &geojson.Point{} }, func(x interface{}) orb.Geometry { return x.(*geojson.Point).Geometry() }}
	case orb.MultiPoint:
		h = &helper{geojson.MultiPoint(v), func() interface{} { return &geojson.MultiPoint{} }, func(x interface{}) orb.Geometry { return x.(*geojson.MultiPoint).Geometry() }}
	case orb.LineString:
		h = &helper{geojson.LineString(v), func() interface{} { return &geojson.LineString{} }, func(x interface{}) orb.Geometry { return x.(*geojson.LineString).Geometry() }}
	case orb.MultiLineString:
		h = &helper{geojson.MultiLineString(v), func() interface{} { return &geojson.MultiLineString{} }, func(x interface{}) orb.Geometry { return x.(*geojson.MultiLineString).Geometry() }}
	case orb.Polygon:
		h = &helper{geojson.Polygon(v), func() interface{} { return &geojson.Polygon{} }, func(x interface{}) orb.Geometry { return x.(*geojson.Polygon).Geometry() }}
	case orb.MultiPolygon:
		h = &helper{geojson.MultiPolygon(v), func() interface{} { return &geojson.MultiPolygon{} }, func(x interface{}) orb.Geometry { return x.(*geojson.MultiPolygon).Geometry() }}
	}
	if h != nil {
		hb, err := json.Marshal(h.v)
		d := h.dst()
		if err != nil || json.Unmarshal(hb, d) != nil || nf(h.get(d)) != want {
			c.Failf("helper-json", "typed helper %T: JSON %s decodes to %v (%v) | %s", h.v, hb, h.get(d), err, desc)
		}
		if !bytes.Equal(hb, b) && refgeom.Bits(g) == refgeom.Struct(g) && fmt.Sprintf("%T", g) == fmt.Sprintf("%T", refgeom.Normal(g, false)) {
			c.Failf("helper-json", "typed helper %T marshals %s, Geometry marshals %s", h.v, hb, b)
		}
		hbb, err := bson.Marshal(h.v)
		d = h.dst()
		if err == nil {
			err = bson.Unmarshal(hbb, d)
		}
		if err != nil || nf(h.get(d)) != want {
			cl := "helper-bson"
			if emptyNonCollection(refgeom.Normal(g, false)) && recordedEmptyBSON(err) {
				cl = "bson-roundtrip:empty-coordinates-omitted"
			}
			c.Failf(cl, "typed helper %T through BSON: %v, %v | %s", h.v, h.get(d), err, desc)
		}
	}
}

// JSON value grammar for properties / foreign members
func jsonValue(c *mc.Ctx, depth int) interface{} {
	n := 6
	if depth <= 0 {
		n = 4
	}
	switch c.Choose(n) {
	case 0:
		return "s"
	case 1:
		return []float64{1.5, 0, -7, 1e21, 0.1}[c.Choose(5)]
	case 2:
		return c.Bool()
	case 3:
		return nil
	case 4:
		k := c.Choose(3)
		a := make([]interface{}, k)
		for i := range a {
			a[i] = jsonValue(c, depth-1)
		}
		return a
	default:
		k := c.Choose(3)
		m := map[string]interface{}{}
		for i := 0; i < k; i++ {
			m[[]string{"a", "", "b"}[i]] = jsonValue(c, depth-1)
		}
		return m
	}
}

var featureGeoms = []orb.Geometry{
	orb.Point{1, 2}, nil, orb.Collection{}, orb.Polygon{{{0, 0}, {1, 0}, {1, 1}, {0, 0}}}, orb.Ring{{0, 0}, {1, 0}, {1, 1}, {0, 0}},
	orb.Bound{Min: orb.Point{0, 0}, Max: orb.Point{1, 1}}, orb.Collection{orb.Point{1e21, 1e-7}, orb.Collection{orb.LineString{{1, 2}, {3, 4}}}}, orb.MultiPoint{{1, 2}},
	// an empty collection as a member (it travels as a null inside "geometries") and as the only member
	orb.Collection{orb.Point{1, 2}, orb.Collection{}}, orb.Collection{orb.Collection{}},
}

func genFeature(c *mc.Ctx) *geojson.Feature {
	f := geojson.NewFeature(featureGeoms[c.Choose(len(featureGeoms))])
	switch c.Choose(8) {
	case 1:
		f.ID = ""
	case 2:
		f.ID = "a"
	case 3:
		f.ID = 0
	case 4:
		f.ID = 1.5
	case 5:
		f.ID = -7
	case 6:
		f.ID = 1e21
	case 7:
		f.ID = int64(1) << 40
	}
	for i, k := 0, c.Choose(3); i < k; i++ {
		f.Properties[[]string{"a", "", "b"}[i]] = jsonValue(c, 2)
	}
	switch c.Choose(5) {
	case 1:
		f.BBox = geojson.BBox{-1, -2.5, 3, 1e21}
	case 2:
		f.BBox = geojson.BBox{0, 1, 2, 3, 4, 5}
	case 3:
		f.BBox = geojson.BBox{0, 0, 0, 0} // the box of a feature at the origin: a value, not an absent member
	case 4:
		f.BBox = geojson.BBox{0, 0, 7, 0, 0, 7}
	}
	return f
}

func sameID(a, b interface{}) bool { return reflect.DeepEqual(canon(a), canon(b)) }

func sameFeature(a, b *geojson.Feature) string {
	switch {
	case a == nil || b == nil:
		if a != b {
			return "one feature is nil"
		}
		return ""
	case !sameID(a.ID, b.ID):
		return fmt.Sprintf("id %#v vs %#v", a.ID, b.ID)
	case b.Type != "Feature":
		return "type " + b.Type
	case !sameBBox(a.BBox, b.BBox):
		return fmt.Sprintf("bbox %v vs %v", a.BBox, b.BBox)
	case nf(a.Geometry) != nf(b.Geometry):
		return fmt.Sprintf("geometry %v vs %v", a.Geometry, b.Geometry)
	case !sameProps(a.Properties, b.Properties):
		return fmt.Sprintf("properties %#v vs %#v", a.Properties, b.Properties)
	}
	return ""
}

func checkFeature(c *mc.Ctx, f *geojson.Feature) {
	b, err := json.Marshal(f)
	desc := fmt.Sprintf("feature json=%s", b)
	if err != nil {
		c.Failf("feature-json", "marshal: %v | %#v", err, f)
		return
	}
	back, err := geojson.UnmarshalFeature(b)
	if err != nil {
		c.Failf("feature-json", "UnmarshalFeature: %v | %s", err, desc)
		return
	}
	if d := sameFeature(f, back); d != "" {
		c.Failf("feature-json", "round trip differs: %s | %s", d, desc)
	}
	if b2, err := json.Marshal(back); err != nil || !bytes.Equal(b, b2) {
		c.Failf("feature-remarshal", "marshalling the decoded feature gives %s | %s", b2, desc)
	}
	var generic map[string]interface{}
	if json.Unmarshal(b, &generic) != nil || generic["type"] != "Feature" {
		c.Failf("rfc7946", "feature document malformed | %s", desc)
	} else if e := rfc7946(generic["geometry"]); e != "" {
		c.Failf("rfc7946", "%s | %s", e, desc)
	}
	bb, err := bson.Marshal(f)
	if err != nil {
		c.Failf("feature-bson", "marshal: %v | %s", err, desc)
		return
	}
	// marshalled by value (not through a pointer), alone and as a field of another value: the same document
	if vb, err := json.Marshal(*f); err != nil || !bytes.Equal(vb, b) {
		c.Failf("feature-by-value", "json.Marshal of the Feature value gives %s (%v), of the pointer %s | %s", vb, err, b, desc)
	}
	if vb, err := json.Marshal(struct{ F geojson.Feature }{*f}); err != nil || !bytes.Equal(vb, append(append([]byte(`{"F":`), b...), '}')) {
		c.Failf("feature-by-value", "json.Marshal of a struct holding the Feature by value gives %s (%v) | %s", vb, err, desc)
	}
	for what, v := range map[string]interface{}{"value": *f, "field": struct{ F geojson.Feature }{*f}} {
		vb, err := bson.Marshal(v)
		if err == nil && what == "field" {
			vb = bson.Raw(vb).Lookup("f").Value
		}
		vf := &geojson.Feature{}
		if err == nil {
			err = bson.Unmarshal(vb, vf)
		}
		if err != nil {
			c.Failf("feature-by-value", "BSON of the Feature as a %s: %v | %s", what, err, desc)
		} else if d := sameFeature(f, vf); d != "" {
			c.Failf("feature-by-value", "BSON of the Feature as a %s decodes differently: %s | %s", what, d, desc)
		}
	}
	bf := &geojson.Feature{}
	if err := bson.Unmarshal(bb, bf); err != nil {
		c.Failf("feature-bson", "unmarshal: %v | %s", err, desc)
		return
	}
	if d := sameFeature(f, bf); d != "" {
		c.Failf("feature-bson", "BSON round trip differs: %s | %s", d, desc)
	}
	if d := sameFeature(back, bf); d != "" {
		c.Failf("feature-json-vs-bson", "JSON and BSON decodes differ: %s | %s", d, desc)
	}
}

func main() {
	r := ev.New("C02", "exploration")
	r.Rule = "geometries: the geometry grammar (full product of the non-collection kinds, collections nested to depth 3 within a deviation bound) with coordinates assigned positionally from 20 finite values incl. exponent-form magnitudes, 2^53+1, 5e-324, MaxFloat64 and -0, through geojson.Geometry and the typed helper types, JSON and BSON; features: 10 geometries (nil, empty collection - also as a member of a collection -, ring, bound, nested collection) x 8 ids x property maps of 0..2 keys over the JSON value grammar to depth 2 x 3 bbox forms, within a deviation bound; feature collections of 0..2 such features with foreign members, under every iteration order of the package's map ranges (instrumented overlay); non-trivial = the geometry has a vertex / the feature has an id, a property or a bbox"
	r.Assume = []string{
		"BSON values are compared after mapping primitive.D/M/A and int32/int64 to plain maps, slices and float64: the representation is not part of the property",
		"an empty property map and a nil one are the same (marshalled as null)",
		"custom JSON (un)marshalers are not exercised",
	}
	type loc struct {
		g     *gg.Gen
		reset func(int)
	}
	newLocal := func(int) interface{} {
		next, reset := gg.CyclicAt(ffin)
		return &loc{&gg.Gen{K: 3, M: 2, Depth: 3, NilSlice: true, Next: next}, reset}
	}
	nt := func(c *mc.Ctx, g orb.Geometry) {
		n := 0
		refgeom.Vertices(g, true, func(*orb.Point) { n++ })
		if n > 0 {
			c.NonTrivial()
		}
	}
	r.Explore("geometry-noncollection", "full product of the 8 non-collection kinds (k=3,m=2)", mc.Opts{MaxDev: -1, Split: 3, NewLocal: newLocal}, func(c *mc.Ctx) {
		l := c.Local().(*loc)
		l.reset(c.Choose(len(ffin) / 2))
		g := l.g.Kind(c, c.Choose(gg.KCollection), 0, true)
		checkGeometry(c, g)
		nt(c, g)
	})
	// size: long coordinate lists and many features (a limit, a depth count or a buffer keyed to the number of
	// members must not turn a document the library wrote into one it cannot read)
	sizeNs := []int{33, 97, 98, 99, 100, 101, 129, 257, 1025}
	r.Explore("sizes", fmt.Sprintf("5 kinds holding one list of %v points, and feature collections of that many features: JSON and BSON round trips", sizeNs), mc.Opts{MaxDev: -1}, func(c *mc.Ctx) {
		n := sizeNs[c.Choose(len(sizeNs))]
		pts := make([]orb.Point, n)
		for i := range pts {
			pts[i] = orb.Point{float64(i%17) - 8, float64(i) * 0.5}
		}
		pts[n-1] = pts[0]
		cp := func() []orb.Point { return append([]orb.Point(nil), pts...) }
		switch k := c.Choose(6); k {
		case 0:
			checkGeometry(c, orb.MultiPoint(cp()))
		case 1:
			checkGeometry(c, orb.LineString(cp()))
		case 2:
			checkGeometry(c, orb.Polygon{{{0, 0}, {1, 0}, {1, 1}, {0, 0}}, orb.Ring(cp())})
		case 3:
			checkGeometry(c, orb.MultiLineString{{{1, 2}, {3, 4}}, orb.LineString(cp())})
		case 4:
			col := make(orb.Collection, 0, n)
			for i := 0; i < n; i++ {
				col = append(col, orb.Point{float64(i), 1})
			}
			checkGeometry(c, col)
		default:
			fc := geojson.NewFeatureCollection()
			for i := 0; i < n; i++ {
				f := geojson.NewFeature(orb.Point{float64(i), 2})
				f.ID = float64(i)
				fc.Append(f)
			}
			if b, err := json.Marshal(fc); err != nil {
				c.Failf("json-marshal", "%v", err)
			} else if got, err := geojson.UnmarshalFeatureCollection(b); err != nil || len(got.Features) != n {
				c.Failf("fc-json", "a collection of %d features comes back with %v (%d features)", n, err, len(got.Features))
			}
			got := geojson.NewFeatureCollection()
			if b, err := bson.Marshal(fc); err != nil {
				c.Failf("bson-marshal", "%v", err)
			} else if err := bson.Unmarshal(b, got); err != nil || len(got.Features) != n {
				c.Failf("fc-bson", "a collection of %d features comes back through BSON with %v (%d features)", n, err, len(got.Features))
			} else {
				for i, f := range got.Features {
					if !orb.Equal(f.Geometry, orb.Point{float64(i), 2}) {
						c.Failf("fc-bson", "feature %d of %d comes back as %v", i, n, f.Geometry)
						break
					}
				}
			}
		}
		c.NonTrivial()
	})
	// configuration: the package-level CustomJSONMarshaler / CustomJSONUnmarshaler hooks. With a hook that
	// behaves exactly like encoding/json every round trip must come out the same, and the hooks must be the
	// ones doing the work (parts run one after the other, so the variables are constant during the part)
	hook := &countingJSON{}
	geojson.CustomJSONMarshaler, geojson.CustomJSONUnmarshaler = hook, hook
	// zero values: geometries whose coordinates are all zero (the Go zero value of the point and bound types)
	// are geometries like any other, not "absent"
	nz := math.Copysign(0, -1)
	zeros := []orb.Geometry{
		orb.Point{}, orb.Point{nz, nz}, orb.Point{0, nz},
		orb.MultiPoint{{}}, orb.MultiPoint{{}, {}}, orb.LineString{{}, {}}, orb.Ring{{}, {}, {}, {}}, orb.Polygon{{{}, {}, {}, {}}}, orb.MultiLineString{{{}, {}}}, orb.MultiPolygon{{{{}, {}, {}, {}}}},
		orb.Collection{orb.Point{}}, orb.Collection{orb.Point{1, 2}, orb.Point{}, orb.LineString{{}, {}}}, orb.Collection{orb.Collection{orb.Point{}}, orb.Point{3, 4}},
		orb.Bound{}, orb.Collection{orb.Bound{}},
	}
	r.Explore("zero-values", fmt.Sprintf("%d geometries whose coordinates are all zero (points, bounds, lines, rings, polygons; alone, as collection members, nested; negative zeros)", len(zeros)), mc.Opts{MaxDev: -1}, func(c *mc.Ctx) {
		g := zeros[c.Choose(len(zeros))]
		checkGeometry(c, g)
		c.NonTrivial()
	})
	r.Explore("custom-json-hooks", "CustomJSONMarshaler / CustomJSONUnmarshaler set to a call-counting wrapper of encoding/json: full product of the 8 non-collection kinds (k=2,m=2), collections within 5 deviations, and the feature grammar within 3 deviations", mc.Opts{MaxDev: 7, Split: 3, NewLocal: newLocal}, func(c *mc.Ctx) {
		l := c.Local().(*loc)
		l.reset(0)
		before := hook.calls()
		switch c.Choose(3) {
		case 0:
			checkGeometry(c, l.g.Kind(c, c.Choose(gg.KCollection), 0, true))
		case 1:
			checkGeometry(c, l.g.Kind(c, gg.KCollection, 0, true))
		case 2:
			checkFeature(c, genFeature(c))
		}
		if hook.calls() == before {
			c.Failf("hooks-ignored", "a JSON round trip did not go through the configured CustomJSONMarshaler / CustomJSONUnmarshaler")
		}
		c.NonTrivial()
	})
	geojson.CustomJSONMarshaler, geojson.CustomJSONUnmarshaler = nil, nil
	dev := ev.Pick(r, 8, 9)
	r.Explore("geometry-collections", fmt.Sprintf("collections nested to depth 3 within %d deviations", dev), mc.Opts{MaxDev: dev, Split: 3, NewLocal: newLocal}, func(c *mc.Ctx) {
		l := c.Local().(*loc)
		l.reset(c.Choose(len(ffin) / 2))
		g := l.g.Kind(c, gg.KCollection, 0, true)
		checkGeometry(c, g)
		nt(c, g)
	})
	r.Explore("value-sweep", "every ordered pair of the 20 finite values as the coordinates of a point inside a multi-polygon and a nested collection", mc.Opts{MaxDev: -1, Split: 2}, func(c *mc.Ctx) {
		p := orb.Point{ffin[c.Choose(len(ffin))], ffin[c.Choose(len(ffin))]}
		checkGeometry(c, orb.MultiPolygon{{{{1, 2}, p, {-p[0], -p[1]}}}})
		checkGeometry(c, orb.Collection{p, orb.Collection{orb.LineString{p, {3, 4}}}})
		c.NonTrivial()
	})
	fdev := ev.Pick(r, 4, 6)
	r.Explore("features", fmt.Sprintf("features over the id / property / bbox / geometry grammar, all within %d deviations from the simplest feature", fdev), mc.Opts{MaxDev: fdev, Split: 3}, func(c *mc.Ctx) {
		f := genFeature(c)
		checkFeature(c, f)
		if f.ID != nil || len(f.Properties) > 0 || f.BBox != nil {
			c.NonTrivial()
		}
	})
	// strings that need escaping, in every slot of a feature that holds a string
	special := []string{"", "unit\x1fsep", "bell\a", "del\x7f", "q\"uote", "back\\slash", "tab\t\n\r", "é", "\U0001F600", "\u2028\u2029", "<&>", "\b\f\x00x"}
	r.Explore("feature-strings", fmt.Sprintf("%d strings (control characters, DEL, quote, backslash, line separators, astral runes, NUL) x 3 slots (id, property key, property value) x 2 geometries: JSON and BSON round trip", len(special)), mc.Opts{MaxDev: -1}, func(c *mc.Ctx) {
		str := special[c.Choose(len(special))]
		slot := c.Choose(3)
		f := geojson.NewFeature(featureGeoms[c.Choose(2)])
		switch slot {
		case 0:
			f.ID = str
		case 1:
			if strings.ContainsRune(str, 0) {
				c.Skip() // a BSON element name cannot hold NUL (cstring)
				return
			}
			f.Properties[str] = 1.0
		case 2:
			f.Properties["k"] = str
			f.Properties["nested"] = map[string]interface{}{"a": []interface{}{str}}
		}
		checkFeature(c, f)
		c.NonTrivial()
	})
	// feature collections, with the harness owning map iteration order inside package geojson
	var cur *mc.Ctx
	mcrt.PermHook = func(site, n int) []int {
		idx := make([]int, n)
		for i := range idx {
			idx[i] = i
		}
		if cur == nil || n > 4 {
			return idx
		}
		out := make([]int, 0, n)
		for i := 0; i < n; i++ {
			k := 0
			if n-i > 1 {
				k = cur.Choose(n - i)
			}
			out = append(out, idx[k])
			idx = append(idx[:k], idx[k+1:]...)
		}
		return out
	}
	extras := []map[string]interface{}{nil, {"x": 1.5}, {"meta": map[string]interface{}{"a": []interface{}{1.0, nil}, "": "s"}}, {"x": "s", "y": true, "z": nil},
		// names that differ from the reserved ones only by case, and names reserved at other levels
		{"Type": "custom"}, {"BBox": []interface{}{1.0, 2.0}, "TYPE": 7.0}, {"Features": "none"},
		// names a document store gives a meaning to: to GeoJSON they are foreign members like any other
		{"_id": "abc-123", "count": 2.0}, {"$ref": "x", "_rev": 1.0, "__v": true}, {"geometry": nil, "properties": map[string]interface{}{"a": 1.0}, "id": 3.0, "coordinates": []interface{}{}},
		// names and values that need escaping in JSON: control characters, DEL, quotes, separators, astral runes
		{"unit\x1fsep": "v\x1f", "bell\a": 1.0}, {"del\x7f": "\x7f", "q\"\\": "é\U0001F600\u2028<&>"}, {"tab\t\n": "line\r\n", "\U0001F600": "\b\f"}}
	// a bbox is a list of numbers the library carries, whatever they say: boxes whose lower corner exceeds the upper
	// one (RFC 7946 5.2 writes an antimeridian crossing that way), 2- to 6-number lists, a degenerate box
	bboxMenu := []geojson.BBox{
		nil, {}, {177, -20, -178, -16}, {-5, 8, 5, 3}, {5, 8, -5, 3}, {0, 0, 9, 1, 1, 2}, {3, 3, 3, 3}, {1, 2}, {1, 2, 3}, {1, 2, 3, 4, 5},
		{-180, -90, 180, 90}, {180, 90, -180, -90}, {0, 0, 0, 0, 0, 0}, {1e21, -1e-7, 5e-324, -0.5},
	}
	r.Explore("bbox-values", fmt.Sprintf("%d bbox lists (absent, empty, lower corner above the upper one on x / y / z, 2..6 numbers, degenerate, whole world and its reverse, exponent forms) x {on a feature, on a feature inside a collection, on the collection} x 3 geometries, JSON and BSON: the list comes back number for number", len(bboxMenu)), mc.Opts{MaxDev: -1}, func(c *mc.Ctx) {
		bb := bboxMenu[c.Choose(len(bboxMenu))]
		where := c.Choose(3)
		g := []orb.Geometry{orb.Point{1, 2}, orb.LineString{{177, -20}, {-178, -16}}, nil}[c.Choose(3)]
		mk := func() (*geojson.Feature, *geojson.FeatureCollection) {
			f := geojson.NewFeature(orb.Clone(g))
			fc := geojson.NewFeatureCollection()
			fc.Append(geojson.NewFeature(orb.Point{0, 0}))
			fc.Append(f)
			if where < 2 {
				f.BBox = append(geojson.BBox(nil), bb...)
				if bb != nil && len(bb) == 0 {
					f.BBox = geojson.BBox{}
				}
			} else {
				fc.BBox = append(geojson.BBox(nil), bb...)
			}
			return f, fc
		}
		// a list that is no RFC 7946 box (fewer than 4 numbers, an odd count) may come back as it is or not at all
		same := func(got geojson.BBox) bool {
			return sameBBox(got, bb) || (!(len(bb) >= 4 && len(bb)%2 == 0) && len(got) == 0)
		}
		desc := fmt.Sprintf("bbox=%v where=%d geometry=%v", bb, where, g)
		f, fc := mk()
		switch where {
		case 0:
			if b, err := json.Marshal(f); err != nil {
				c.Failf("json-marshal", "%v | %s", err, desc)
			} else if got, err := geojson.UnmarshalFeature(b); err != nil || !same(got.BBox) {
				c.Failf("feature-json", "bbox came back as %v (%v) from %s | %s", got.BBox, err, b, desc)
			}
			got := &geojson.Feature{}
			if b, err := bson.Marshal(f); err != nil {
				c.Failf("bson-marshal", "%v | %s", err, desc)
			} else if err := bson.Unmarshal(b, got); err != nil || !same(got.BBox) {
				c.Failf("feature-bson", "bbox came back as %v (%v) | %s", got.BBox, err, desc)
			}
		default:
			pick := func(x *geojson.FeatureCollection) geojson.BBox {
				if x == nil {
					return geojson.BBox{math.NaN()}
				}
				if where == 2 {
					return x.BBox
				}
				if len(x.Features) != 2 {
					return geojson.BBox{math.NaN()}
				}
				return x.Features[1].BBox
			}
			if b, err := json.Marshal(fc); err != nil {
				c.Failf("json-marshal", "%v | %s", err, desc)
			} else if got, err := geojson.UnmarshalFeatureCollection(b); err != nil || !same(pick(got)) {
				c.Failf("fc-json", "bbox came back as %v (%v) from %s | %s", pick(got), err, b, desc)
			}
			got := geojson.NewFeatureCollection()
			if b, err := bson.Marshal(fc); err != nil {
				c.Failf("bson-marshal", "%v | %s", err, desc)
			} else if err := bson.Unmarshal(b, got); err != nil || !same(pick(got)) {
				c.Failf("fc-bson", "bbox came back as %v (%v) | %s", pick(got), err, desc)
			}
		}
		if len(bb) > 0 {
			c.NonTrivial()
		}
	})
	r.Explore("feature-collections", "collections of 0..2 features x 13 foreign-member sets (incl. case variants of the reserved names and names / values that need JSON escaping) x bbox, JSON and BSON, under every iteration order of the map ranges in package geojson (<= 4 keys)", mc.Opts{MaxDev: ev.Pick(r, 4, 5), Workers: 1}, func(c *mc.Ctx) {
		fc := geojson.NewFeatureCollection()
		for i, k := 0, c.Choose(3); i < k; i++ {
			fc.Append(genFeature(c))
		}
		if ex := extras[c.Choose(len(extras))]; ex != nil {
			fc.ExtraMembers = ex
		}
		if c.Bool() {
			fc.BBox = geojson.BBox{1, 2, 3, 4}
		}
		cur = nil
		ref, _ := json.Marshal(fc)
		cur = c
		b, err := json.Marshal(fc)
		desc := fmt.Sprintf("feature collection json=%s", b)
		if err != nil || !bytes.Equal(b, ref) {
			cur = nil
			c.Failf("fc-order", "marshal depends on map iteration order: %s vs %s (%v)", b, ref, err)
			return
		}
		back, err := geojson.UnmarshalFeatureCollection(b)
		var b2 []byte
		if err == nil {
			b2, err = json.Marshal(back)
		}
		bb, berr := bson.Marshal(fc)
		bfc := &geojson.FeatureCollection{}
		if berr == nil {
			berr = bson.Unmarshal(bb, bfc)
		}
		cur = nil
		if err != nil {
			c.Failf("fc-json", "round trip: %v | %s", err, desc)
			return
		}
		if !bytes.Equal(b, b2) {
			c.Failf("fc-remarshal", "marshalling the decoded collection gives %s | %s", b2, desc)
		}
		cmp := func(what string, got *geojson.FeatureCollection) {
			if got.Type != "FeatureCollection" || !sameBBox(fc.BBox, got.BBox) || len(got.Features) != len(fc.Features) || !sameProps(fc.ExtraMembers, got.ExtraMembers) {
				c.Failf("fc-"+what, "decoded collection differs: type=%s bbox=%v n=%d extra=%#v | %s", got.Type, got.BBox, len(got.Features), got.ExtraMembers, desc)
				return
			}
			for i := range fc.Features {
				if d := sameFeature(fc.Features[i], got.Features[i]); d != "" {
					c.Failf("fc-"+what, "feature %d differs: %s | %s", i, d, desc)
				}
			}
		}
		cmp("json", back)
		// marshalled by value (not through a pointer), alone and as a field of another value: the same document
		if vb, err := json.Marshal(*fc); err != nil || !bytes.Equal(vb, b) {
			c.Failf("fc-by-value", "json.Marshal of the FeatureCollection value gives %s (%v) | %s", vb, err, desc)
		}
		for what, v := range map[string]interface{}{"value": *fc, "field": struct{ FC geojson.FeatureCollection }{*fc}} {
			vb, err := bson.Marshal(v)
			if err == nil && what == "field" {
				vb = bson.Raw(vb).Lookup("fc").Value
			}
			vfc := &geojson.FeatureCollection{}
			if err == nil {
				err = bson.Unmarshal(vb, vfc)
			}
			if err != nil {
				c.Failf("fc-by-value", "BSON of the FeatureCollection as a %s: %v | %s", what, err, desc)
			} else {
				cmp("by-value-bson-"+what, vfc)
			}
		}
		if berr != nil {
			c.Failf("fc-bson", "BSON round trip: %v | %s", berr, desc)
		} else {
			cmp("bson", bfc)
		}
		var generic map[string]interface{}
		if json.Unmarshal(b, &generic) != nil || generic["type"] != "FeatureCollection" {
			c.Failf("rfc7946", "feature collection document malformed | %s", desc)
		} else if _, ok := generic["features"].([]interface{}); !ok {
			c.Failf("rfc7946", "features is not an array | %s", desc)
		}
		if len(fc.Features) > 0 || fc.ExtraMembers != nil {
			c.NonTrivial()
		}
	})
	_ = sort.Strings
	_ = strings.Join
	r.Sample(map[string]interface{}{"geometry": "Collection{Point{1e21,1e-07}, Collection{LineString{{1,2},{3,4}}}}", "json": `{"type":"GeometryCollection","geometries":[{"type":"Point","coordinates":[1e+21,1e-7]},{"type":"GeometryCollection","geometries":[{"type":"LineString","coordinates":[[1,2],[3,4]]}]}]}`})
	r.Finish()
}
