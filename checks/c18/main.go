// C18: spherical measures are symmetric, mutually inverse and match closed forms.
package main

import (
	"fmt"
	"math"

	"github.com/paulmach/orb"
	"github.com/paulmach/orb/geo"

	"verif/lib/ev"
	"verif/lib/mc"
	"verif/lib/refgeom"
)

var (
	lons = []float64{-180, -179.9, -135, -90, -0.5, 0, 0.5, 45, 90, 179.9, 180}
	lats = []float64{-89, -80, -60, -45, -1, 0, 1, 30, 45, 80, 89}
)

func rel(a, b float64) float64 {
	return math.Abs(a-b) / math.Max(1e-300, math.Max(math.Abs(a), math.Abs(b)))
}

// gc is the check's own great-circle distance: the angle between the unit vectors, by atan2 of cross and dot product.
func gc(a, b orb.Point) float64 {
	v := func(p orb.Point) [3]float64 {
		lo, la := p[0]*math.Pi/180, p[1]*math.Pi/180
		return [3]float64{math.Cos(la) * math.Cos(lo), math.Cos(la) * math.Sin(lo), math.Sin(la)}
	}
	x, y := v(a), v(b)
	cr := [3]float64{x[1]*y[2] - x[2]*y[1], x[2]*y[0] - x[0]*y[2], x[0]*y[1] - x[1]*y[0]}
	return 6378137.0 * math.Atan2(math.Sqrt(cr[0]*cr[0]+cr[1]*cr[1]+cr[2]*cr[2]), x[0]*y[0]+x[1]*y[1]+x[2]*y[2])
}

func main() {
	r := ev.New("C18", "exploration")
	r.Rule = "complete finite lattice: all ordered pairs of 11x11 lon/lat points (antipodal and antimeridian-straddling pairs included); every point x 9 bearings x 7 distances; every point (|lat| <= 79 band added) x 16 short offsets (< 10 km); boxes of 4 sizes at every lattice point; every vertex list of 3..5 points of a 4x4 degree lattice with every rotation and the reversal, closed and unclosed; polygons with holes, multi-polygons, collections; an execution is one lattice point (pairs part: the first point of the pair); non-trivial = the two points differ / the ring has non-zero area"
	r.Assume = []string{
		"tolerances carry two orders of slack over the measured numerical error: equirectangular vs haversine 1e-5 relative below 10 km, destination distance 1e-6 d + 1e-4 m, midpoint 1e-4 m, box area 1e-8 relative, ring-area invariances 1e-9 relative",
		"identities are checked on the lattice only; rings that cross the antimeridian are not generated (area uses raw longitude differences)",
	}
	var pts []orb.Point
	for _, lo := range lons {
		for _, la := range lats {
			pts = append(pts, orb.Point{lo, la})
		}
	}
	halfCirc := math.Pi * orb.EarthRadius
	r.Explore("pairs", fmt.Sprintf("all ordered pairs of %d lattice points: haversine symmetric, finite, <= pi R; equirectangular symmetric; midpoint equidistant; Length = sum of segment distances", len(pts)), mc.Opts{MaxDev: -1, Split: 1}, func(c *mc.Ctx) {
		a := pts[c.Choose(len(pts))]
		for _, b := range pts {
			h, h2 := geo.DistanceHaversine(a, b), geo.DistanceHaversine(b, a)
			if math.IsNaN(h) || math.IsInf(h, 0) {
				c.Failf("haversine-nan", "DistanceHaversine(%v,%v) = %v", a, b, h)
				continue
			}
			if h != h2 {
				c.Failf("haversine-symmetric", "DistanceHaversine(%v,%v) = %v but reversed %v", a, b, h, h2)
			}
			if h < 0 || h > halfCirc*(1+1e-12) {
				c.Failf("haversine-range", "DistanceHaversine(%v,%v) = %v exceeds half the circumference %v", a, b, h, halfCirc)
			}
			if w := gc(a, b); math.Abs(h-w) > 1e-9*w+1e-3 {
				c.Failf("haversine-anchor", "DistanceHaversine(%v,%v) = %v, the angle between the unit vectors times R = %v", a, b, h, w)
			}
			// the bearing and the distance lead from a to b (away from poles, coincident and antipodal pairs)
			if w := gc(a, b); w > 1 && w < halfCirc*0.99 && math.Abs(a[1]) < 85 && math.Abs(b[1]) < 85 {
				q := geo.PointAtBearingAndDistance(a, geo.Bearing(a, b), w)
				if e := gc(q, b); !(e <= 1e-9*w+1e-3) {
					c.Failf("bearing-anchor", "PointAtBearingAndDistance(%v, Bearing(a,b), %v) = %v lies %v m from b = %v", a, w, q, e, b)
				}
			}
			if (a == b) != (h == 0) && !(math.Abs(a[1]) == 90) {
				same := a[1] == b[1] && math.Mod(a[0]-b[0], 360) == 0
				if !same || h > 1e-6 {
					if a == b {
						c.Failf("haversine-zero", "DistanceHaversine(p,p) = %v for %v", h, a)
					}
				}
			}
			if d, d2 := geo.Distance(a, b), geo.Distance(b, a); d != d2 || math.IsNaN(d) {
				c.Failf("distance-symmetric", "Distance(%v,%v) = %v but reversed %v", a, b, d, d2)
			}
			m := geo.Midpoint(a, b)
			d1, d2 := geo.DistanceHaversine(a, m), geo.DistanceHaversine(m, b)
			if math.IsNaN(d1+d2) || math.Abs(d1-d2) > 1e-4 {
				c.Failf("midpoint", "Midpoint(%v,%v) = %v is %v m from the first and %v m from the second point", a, b, m, d1, d2)
			} else if math.Abs(d1+d2-h) > 1e-4 && h < halfCirc*0.999 {
				c.Failf("midpoint", "Midpoint(%v,%v) = %v is not on the great circle: %v + %v != %v", a, b, m, d1, d2, h)
			}
			ls := orb.LineString{a, b, a}
			if l := geo.Length(ls); rel(l, 2*geo.Distance(a, b)) > 1e-12 && l != 0 {
				c.Failf("length", "Length(%v) = %v, sum of segment distances %v", ls, l, 2*geo.Distance(a, b))
			}
			if l := geo.LengthHaversine(ls); rel(l, 2*h) > 1e-12 && l != 0 {
				c.Failf("length", "LengthHaversine(%v) = %v, sum %v", ls, l, 2*h)
			}
		}
		c.NonTrivial()
	})
	bearings := []float64{-180, -135, -90, -45, 0, 30, 45, 90, 135, 180}
	dists := []float64{0, 1, 100, 1e4, 1e5, 1e6, 5e6}
	r.Explore("destination", "every lattice point x 10 bearings x 7 distances (0..5000 km): haversine(p, PointAtBearingAndDistance(p, b, d)) = d", mc.Opts{MaxDev: -1, Split: 1}, func(c *mc.Ctx) {
		p := pts[c.Choose(len(pts))]
		for _, b := range bearings {
			for _, d := range dists {
				q := geo.PointAtBearingAndDistance(p, b, d)
				if got := geo.DistanceHaversine(p, q); math.IsNaN(got) || math.Abs(got-d) > 1e-6*d+1e-4 {
					c.Failf("destination", "PointAtBearingAndDistance(%v, %v, %v) = %v lies %v m away", p, b, d, q, got)
				}
				if got := gc(p, q); math.IsNaN(got) || math.Abs(got-d) > 1e-6*d+1e-4 {
					c.Failf("destination-anchor", "PointAtBearingAndDistance(%v, %v, %v) = %v lies %v m away by the angle between the unit vectors", p, b, d, q, got)
				}
			}
		}
		// the bound around a point holds the point and everything within the distance (away from the poles and
		// the antimeridian, where the box degenerates to the whole longitude range); padding only grows a bound
		for _, d := range []float64{1, 1e3, 5e4, 1e6} {
			bb := geo.NewBoundAroundPoint(p, d)
			if math.Abs(p[1]) < 75 && math.Abs(p[0]) < 150 {
				if !bb.Contains(p) {
					c.Failf("bound-around", "NewBoundAroundPoint(%v, %v) = %v does not contain its centre", p, d, bb)
				}
				// closed form of the box around a small circle: d/R of latitude either way, and asin(sin(d/R)/cos(lat))
				// of longitude (the easternmost point of the circle lies poleward of due east)
				if rd := d / 6378137.0; math.Abs(p[1])+rd*180/math.Pi < 89 {
					dlat := rd * 180 / math.Pi
					dlon := math.Asin(math.Sin(rd)/math.Cos(p[1]*math.Pi/180)) * 180 / math.Pi
					if math.Abs(bb.Min[1]-(p[1]-dlat)) > 1e-9 || math.Abs(bb.Max[1]-(p[1]+dlat)) > 1e-9 || math.Abs(bb.Min[0]-(p[0]-dlon)) > 1e-9 || math.Abs(bb.Max[0]-(p[0]+dlon)) > 1e-9 {
						c.Failf("bound-around", "NewBoundAroundPoint(%v, %v) = %v, the closed form is [%v %v] [%v %v]", p, d, bb, p[0]-dlon, p[1]-dlat, p[0]+dlon, p[1]+dlat)
					}
				}
				for deg := -180.0; deg < 180; deg += 3 {
					if q := geo.PointAtBearingAndDistance(p, deg, d); !bb.Pad(1e-9).Contains(q) {
						c.Failf("bound-around", "NewBoundAroundPoint(%v, %v) = %v does not contain %v, which lies %v m from the centre on bearing %v", p, d, bb, q, d, deg)
						break
					}
				}
				for _, b := range bearings {
					q := geo.PointAtBearingAndDistance(p, b, d)
					if !bb.Pad(1e-9).Contains(q) {
						c.Failf("bound-around", "NewBoundAroundPoint(%v, %v) = %v does not contain %v, which lies %v m from the centre on bearing %v", p, d, bb, q, d, b)
						break
					}
				}
			}
			// a circle that reaches or encloses a pole holds points of every longitude: the bound then spans the whole
			// longitude range, ends at the pole, and keeps the far side d/R of latitude from the centre
			for _, dd := range []float64{d, 3e6, 9e6} {
				rdeg := dd / 6378137.0 * 180 / math.Pi
				if math.Abs(p[1])+rdeg < 90 {
					continue
				}
				pb := geo.NewBoundAroundPoint(p, dd)
				wantMin, wantMax := math.Max(p[1]-rdeg, -90), math.Min(p[1]+rdeg, 90)
				if pb.Min[0] != -180 || pb.Max[0] != 180 || math.Abs(pb.Min[1]-wantMin) > 1e-9 || math.Abs(pb.Max[1]-wantMax) > 1e-9 {
					c.Failf("bound-around", "NewBoundAroundPoint(%v, %v) = %v: the circle reaches a pole, want all longitudes and latitudes [%v, %v]", p, dd, pb, wantMin, wantMax)
					break
				}
			}
			// near the antimeridian (and anywhere else away from the poles): the closed form with each side folded back
			// into [-180, 180] by a whole turn - the west side of a circle west of the antimeridian comes back at +180 - x
			if rd := d / 6378137.0; math.Abs(p[1])+rd*180/math.Pi < 89 {
				dlon := math.Asin(math.Sin(rd)/math.Cos(p[1]*math.Pi/180)) * 180 / math.Pi
				west, east := p[0]-dlon, p[0]+dlon
				if west < -180 {
					west += 360
				}
				if east > 180 {
					east -= 360
				}
				if ab := geo.NewBoundAroundPoint(p, d); math.Abs(ab.Min[0]-west) > 1e-9 || math.Abs(ab.Max[0]-east) > 1e-9 {
					c.Failf("bound-around", "NewBoundAroundPoint(%v, %v) = %v, the closed form folded into [-180, 180] has west %v and east %v", p, d, ab, west, east)
				}
			}
			small := orb.Bound{Min: p, Max: orb.Point{math.Min(p[0]+0.5, 180), math.Min(p[1]+0.25, 90)}}
			pad := geo.BoundPad(small, d)
			if pad.Min[0] > small.Min[0] || pad.Min[1] > small.Min[1] || pad.Max[0] < small.Max[0] || pad.Max[1] < small.Max[1] ||
				pad.Min[0] < -180 || pad.Max[0] > 180 || pad.Min[1] < -90 || pad.Max[1] > 90 {
				c.Failf("bound-pad", "BoundPad(%v, %v) = %v does not contain the bound or leaves the world", small, d, pad)
			}
			if math.Abs(p[1]) < 89 && pad.Max[1] < 90 && pad.Min[1] > -90 {
				if dy := (pad.Max[1] - small.Max[1]) * 111131.75; math.Abs(dy-d) > 1e-6*d+1e-6 {
					c.Failf("bound-pad", "BoundPad(%v, %v) moves the top edge by %v m", small, d, dy)
				}
			}
			if h := geo.BoundHeight(small); math.Abs(h-111131.75*(small.Max[1]-small.Min[1])) > 1e-6 {
				c.Failf("bound-size", "BoundHeight(%v) = %v", small, h)
			}
			mid := (small.Min[1] + small.Max[1]) / 2
			if w := geo.BoundWidth(small); math.Abs(w-geo.Distance(orb.Point{small.Min[0], mid}, orb.Point{small.Max[0], mid})) > 1e-6 {
				c.Failf("bound-size", "BoundWidth(%v) = %v is not the distance between its sides at mid latitude", small, w)
			}
		}
		// along a line: the point at distance d along a two-segment line is d from the start when d is within the first segment
		ls := orb.LineString{p, geo.PointAtBearingAndDistance(p, 30, 5e4)}
		if q, _ := geo.PointAtDistanceAlongLine(ls, 2e4); math.Abs(geo.DistanceHaversine(p, q)-2e4) > 1e-3 {
			c.Failf("along-line", "PointAtDistanceAlongLine(%v, 20000) = %v lies %v m from the start", ls, q, geo.DistanceHaversine(p, q))
		}
		c.NonTrivial()
	})
	var band []orb.Point
	for _, lo := range lons {
		for _, la := range append([]float64{-79, 79, 60.5, -33.3}, lats[1:len(lats)-1]...) {
			if math.Abs(la) <= 79 {
				band = append(band, orb.Point{lo, la})
			}
		}
	}
	offs := []float64{-0.05, -0.01, 0.01, 0.05}
	r.Explore("short-distances", fmt.Sprintf("%d points with |lat| <= 79 x 16 offsets of +-0.01 / +-0.05 degrees (< 10 km, incl. across the antimeridian): equirectangular within 1e-5 of haversine", len(band)), mc.Opts{MaxDev: -1, Split: 1}, func(c *mc.Ctx) {
		p := band[c.Choose(len(band))]
		for _, dx := range offs {
			for _, dy := range offs {
				q := orb.Point{p[0] + dx, p[1] + dy}
				if q[0] > 180 {
					q[0] -= 360
				} else if q[0] < -180 {
					q[0] += 360
				}
				h, d := geo.DistanceHaversine(p, q), geo.Distance(p, q)
				if h > 1e4 {
					c.Failf("harness", "offset pair is not under 10 km: %v %v %v", p, q, h)
				}
				if math.IsNaN(h+d) || math.Abs(h-d) > 1e-5*h {
					c.Failf("equirectangular", "Distance(%v,%v) = %v, haversine = %v (relative %v)", p, q, d, h, math.Abs(h-d)/h)
				}
			}
		}
		c.NonTrivial()
	})
	// travelling along a line: every line of 2..4 (thorough 5) lattice vertices x 10 target distances given as a
	// fraction of the line's length
	alN := ev.Pick(r, 4, 5)
	fracs := []float64{-0.1, 0, 0.1, 0.33, 0.5, 0.7, 0.9, 0.999, 1, 1.2}
	r.Explore("along-line", fmt.Sprintf("every line of 2..%d vertices of a 4x4 degree lattice (repeated vertices included) x %d target distances: PointAtDistanceAlongLine returns the point at that path length on the segment it falls on, with that segment's bearing; the ends beyond", alN, len(fracs)), mc.Opts{MaxDev: -1, Split: 2}, func(c *mc.Ctx) {
		n := 2 + c.Choose(alN-1)
		ls := make(orb.LineString, n)
		for i := range ls {
			k := c.Choose(16)
			ls[i] = orb.Point{10 + float64(k%4)*1.5, 40 + float64(k/4)*1.25}
		}
		seg := make([]float64, n-1)
		total := 0.0
		for i := range seg {
			seg[i] = geo.DistanceHaversine(ls[i], ls[i+1])
			total += seg[i]
		}
		for _, f := range fracs {
			d := f * total
			if total == 0 {
				d = f * 1000
			}
			q, b := geo.PointAtDistanceAlongLine(ls, d)
			desc := fmt.Sprintf("PointAtDistanceAlongLine(%v, %v) = %v, %v (line length %v)", ls, d, q, b, total)
			if d < 0 {
				if q != ls[0] || b != 0 {
					c.Failf("along-line", "a negative distance must give the first vertex and bearing 0 | %s", desc)
				}
				continue
			}
			acc, k := 0.0, -1
			for i := range seg {
				if d-acc < seg[i] {
					k = i
					break
				}
				acc += seg[i]
			}
			if k < 0 {
				if q != ls[n-1] {
					c.Failf("along-line", "a distance at or past the end must give the last vertex | %s", desc)
				}
				continue
			}
			if along := acc + geo.DistanceHaversine(ls[k], q); math.Abs(along-d) > 1e-3 {
				c.Failf("along-line", "the point lies %v m along the line, want %v (segment %d) | %s", along, d, k, desc)
				continue
			}
			if off := geo.DistanceHaversine(ls[k], q) + geo.DistanceHaversine(q, ls[k+1]) - seg[k]; math.Abs(off) > 1e-3 {
				c.Failf("along-line", "the point is not on segment %d (detour %v m) | %s", k, off, desc)
				continue
			}
			if want := geo.Bearing(ls[k], ls[k+1]); b != want {
				c.Failf("along-line", "bearing %v, segment %d has bearing %v | %s", b, k, want, desc)
			}
		}
		if total > 0 {
			c.NonTrivial()
		}
	})
	// size: vertex lists far longer than anything above (a summation that is split, blocked or parallelised above
	// some length must still be the sum of all its segments)
	longNs := []int{33, 64, 65, 100, 128, 129, 257, 500, 1025}
	r.Explore("long-lines", fmt.Sprintf("3 families (zig-zag along a parallel, meridian staircase, closed polygonal circle) x %d lengths %v x 6 holders (line, ring, multi-line-string, polygon, multi-polygon, nested collection): Length / LengthHaversine = the sum of all segment distances (own great-circle formula for the haversine one), Area of the circle = the sum of its fan of triangles within 1e-9, PointAtDistanceAlongLine at 9 fractions lands on the right segment", len(longNs), longNs), mc.Opts{MaxDev: -1}, func(c *mc.Ctx) {
		fam := c.Choose(3)
		n := longNs[c.Choose(len(longNs))]
		ls := make(orb.LineString, n)
		for i := range ls {
			t := float64(i)
			switch fam {
			case 0:
				ls[i] = orb.Point{-20 + 0.03*t, 35 + 0.02*float64(i%2)}
			case 1:
				ls[i] = orb.Point{12 + 0.01*float64((i/2)%3), -30 + 0.025*t}
			default:
				a := 2 * math.Pi * t / float64(n-1)
				ls[i] = orb.Point{100 + 0.5*math.Cos(a), 10 + 0.5*math.Sin(a)}
			}
		}
		if fam == 2 {
			ls[n-1] = ls[0]
		}
		sum := func(f func(a, b orb.Point) float64, l orb.LineString) float64 {
			s := 0.0
			for i := 0; i+1 < len(l); i++ {
				s += f(l[i], l[i+1])
			}
			return s
		}
		sl, sg := sum(geo.Distance, ls), sum(gc, ls)
		outer := orb.Ring{{-30, -40}, {110, -40}, {110, 50}, {-30, 50}, {-30, -40}}
		ol, og := sum(geo.Distance, orb.LineString(outer)), sum(gc, orb.LineString(outer))
		for _, lc := range []struct {
			what   string
			g      orb.Geometry
			wl, wg float64
		}{
			{"line string", ls.Clone(), sl, sg},
			{"ring", orb.Ring(ls.Clone()), sl, sg},
			{"multi-line-string", orb.MultiLineString{orb.LineString(outer), ls.Clone()}, sl + ol, sg + og},
			{"polygon", orb.Polygon{outer, orb.Ring(ls.Clone())}, sl + ol, sg + og},
			{"multi-polygon", orb.MultiPolygon{{outer}, {orb.Ring(ls.Clone()), orb.Ring(ls.Clone())}}, 2*sl + ol, 2*sg + og},
			{"collection", orb.Collection{orb.Point{1, 1}, orb.Collection{ls.Clone()}, orb.Polygon{orb.Ring(ls.Clone())}}, 2 * sl, 2 * sg},
		} {
			if l := geo.Length(lc.g); rel(l, lc.wl) > 1e-11 {
				c.Failf("length-sum", "Length(%s of %d vertices, family %d) = %v, the sum of segment distances is %v", lc.what, n, fam, l, lc.wl)
			}
			if l := geo.LengthHaversine(lc.g); rel(l, lc.wg) > 1e-9 {
				c.Failf("length-sum", "LengthHaversine(%s of %d vertices, family %d) = %v, the sum of great-circle segment lengths is %v", lc.what, n, fam, l, lc.wg)
			}
		}
		// along the line: at 9 fractions of the length, the point lies on the segment that the running sum says
		seg := make([]float64, n-1)
		total := 0.0
		for i := range seg {
			seg[i] = geo.DistanceHaversine(ls[i], ls[i+1])
			total += seg[i]
		}
		for _, f := range []float64{0.01, 0.13, 0.25, 0.49, 0.5, 0.51, 0.75, 0.9, 0.995} {
			d := f * total
			q, _ := geo.PointAtDistanceAlongLine(ls.Clone(), d)
			acc, k := 0.0, n-2
			for i := range seg {
				if d-acc < seg[i] {
					k = i
					break
				}
				acc += seg[i]
			}
			if along := acc + gc(ls[k], q); math.Abs(along-d) > 1e-3+1e-9*d {
				c.Failf("along-line", "PointAtDistanceAlongLine(%d vertices, family %d, %v) = %v lies %v m along the line (segment %d)", n, fam, d, q, along, k)
			}
			if off := gc(ls[k], q) + gc(q, ls[k+1]) - gc(ls[k], ls[k+1]); math.Abs(off) > 1e-3 {
				c.Failf("along-line", "PointAtDistanceAlongLine(%d vertices, family %d, %v) = %v is not on segment %d (detour %v m)", n, fam, d, q, k, off)
			}
		}
		if fam == 2 {
			// the polygonal circle as a fan of triangles around its first vertex: areas add up
			ring := orb.Ring(ls.Clone())
			fan := 0.0
			for i := 1; i+2 < n; i++ {
				fan += geo.SignedArea(orb.Ring{ring[0], ring[i], ring[i+1], ring[0]})
			}
			if a := geo.SignedArea(ring); rel(a, fan) > 1e-9 || a <= 0 {
				c.Failf("area-additive", "SignedArea(circle of %d vertices) = %v, its fan of triangles sums to %v", n, a, fan)
			}
			if a, u := geo.Area(ring), geo.Area(orb.Polygon{ring}); a != u || rel(a, math.Abs(fan)) > 1e-9 {
				c.Failf("area-additive", "Area(circle of %d vertices) = %v as a ring, %v as a polygon, fan %v", n, a, u, fan)
			}
		}
		c.NonTrivial()
	})
	// padding a bound: every side moves out by at least the given number of metres, measured along the bound's own edges
	// (a bound that reaches across the equator has its narrowest parallel at the edge that is farther from the equator,
	// whichever hemisphere that is)
	padLats := []float64{-80, -58, -34, -5, 0, 5, 34, 58, 80}
	r.Explore("bound-pad", fmt.Sprintf("every bound with bottom < top over the latitudes %v x 3 longitude spans x pads {1 km, 100 km}: BoundPad moves top and bottom by the pad (111131.75 m per degree) and the west / east sides by at least the pad along both edge parallels (equirectangular and haversine), unless the world's edge stops it", padLats), mc.Opts{MaxDev: -1}, func(c *mc.Ctx) {
		lo, hi := padLats[c.Choose(len(padLats))], padLats[c.Choose(len(padLats))]
		if lo >= hi {
			c.Skip()
			return
		}
		span := [][2]float64{{-20, 15}, {100, 100.5}, {-170, -169}}[c.Choose(3)]
		d := []float64{1000, 1e5}[c.Choose(2)]
		b := orb.Bound{Min: orb.Point{span[0], lo}, Max: orb.Point{span[1], hi}}
		pad := geo.BoundPad(b, d)
		if dy := (pad.Max[1] - b.Max[1]) * 111131.75; pad.Max[1] < 90 && math.Abs(dy-d) > 1e-6*d {
			c.Failf("bound-pad", "BoundPad(%v, %v) = %v moves the top edge by %v m", b, d, pad, dy)
		}
		if dy := (b.Min[1] - pad.Min[1]) * 111131.75; pad.Min[1] > -90 && math.Abs(dy-d) > 1e-6*d {
			c.Failf("bound-pad", "BoundPad(%v, %v) = %v moves the bottom edge by %v m", b, d, pad, dy)
		}
		for _, lat := range []float64{lo, hi} {
			for side := 0; side < 2; side++ {
				from, to := orb.Point{b.Min[0], lat}, orb.Point{pad.Min[0], lat}
				if side == 1 {
					from, to = orb.Point{b.Max[0], lat}, orb.Point{pad.Max[0], lat}
				}
				if to[0] <= -180 || to[0] >= 180 {
					continue
				}
				if moved := geo.Distance(from, to); moved < d*(1-0.003) {
					c.Failf("bound-pad", "BoundPad(%v, %v) = %v moves side %d only %v m out along the parallel %v", b, d, pad, side, moved, lat)
				}
				if moved := gc(from, to); moved < d*(1-0.006) {
					c.Failf("bound-pad", "BoundPad(%v, %v) = %v moves side %d only %v m (great circle) out along the parallel %v", b, d, pad, side, moved, lat)
				}
			}
		}
		c.NonTrivial()
	})
	// short segments (tens of metres and less, where a flat-earth shortcut is tempting), also across the antimeridian,
	// where the two ends of a segment have longitudes of opposite sign
	r.Explore("short-segments", "lines of 12 vertices 0.4 m .. 400 m apart x 4 directions x 3 anchors (mid-latitude, high latitude, astride the antimeridian) x 11 fractions of the length: PointAtDistanceAlongLine lies on the right segment at the right path length (own great-circle formula), bearing = Bearing of that segment", mc.Opts{MaxDev: -1}, func(c *mc.Ctx) {
		step := []float64{4e-6, 4e-5, 4e-4, 4e-3}[c.Choose(4)] // degrees
		dir := [][2]float64{{1, 0}, {0, 1}, {1, 0.5}, {-1, 0.25}}[c.Choose(4)]
		anchor := []orb.Point{{10, 45}, {-70, 81}, {180, 20}}[c.Choose(3)]
		ls := make(orb.LineString, 12)
		for i := range ls {
			t := float64(i) - 5.5 // the line is centred on the anchor, so the antimeridian anchor is crossed mid-way
			lon := anchor[0] + t*step*dir[0]
			if lon > 180 {
				lon -= 360
			}
			ls[i] = orb.Point{lon, anchor[1] + t*step*dir[1]}
		}
		seg := make([]float64, len(ls)-1)
		total := 0.0
		for i := range seg {
			seg[i] = gc(ls[i], ls[i+1])
			total += seg[i]
		}
		for _, f := range []float64{0.01, 0.1, 0.3, 0.45, 0.49, 0.5, 0.51, 0.55, 0.7, 0.9, 0.99} {
			d := f * total
			q, b := geo.PointAtDistanceAlongLine(ls.Clone(), d)
			acc, k := 0.0, len(seg)-1
			for i := range seg {
				if d-acc < seg[i] {
					k = i
					break
				}
				acc += seg[i]
			}
			tol := 1e-4 + 1e-6*total
			if along := acc + gc(ls[k], q); math.Abs(along-d) > tol {
				c.Failf("along-line", "PointAtDistanceAlongLine(%v, %v) = %v lies %v m along the line (segment %d of %v m)", ls, d, q, along, k, seg[k])
				continue
			}
			if off := gc(ls[k], q) + gc(q, ls[k+1]) - seg[k]; math.Abs(off) > tol {
				c.Failf("along-line", "PointAtDistanceAlongLine(%v, %v) = %v is not on segment %d (detour %v m)", ls, d, q, k, off)
				continue
			}
			if want := geo.Bearing(ls[k], ls[k+1]); b != want {
				c.Failf("along-line", "PointAtDistanceAlongLine(%v, %v): bearing %v, segment %d has bearing %v", ls, d, b, k, want)
			}
		}
		c.NonTrivial()
	})
	sizes := []float64{0.001, 0.5, 1, 3}
	r.Explore("box-area", "boxes of 4 sizes anchored at every lattice point (clipped to the sphere): Area(bound) = R^2 x width x (sin top - sin bottom); ring / polygon / bound spellings agree", mc.Opts{MaxDev: -1, Split: 1}, func(c *mc.Ctx) {
		p := pts[c.Choose(len(pts))]
		for _, w := range sizes {
			for _, h := range sizes {
				b := orb.Bound{Min: p, Max: orb.Point{p[0] + w, p[1] + h}}
				if b.Max[1] > 90 || b.Max[0] > 180 {
					continue
				}
				want := orb.EarthRadius * orb.EarthRadius * (w * math.Pi / 180) * (math.Sin(b.Max[1]*math.Pi/180) - math.Sin(b.Min[1]*math.Pi/180))
				got := geo.Area(b)
				if math.IsNaN(got) || rel(got, want) > 1e-8 {
					c.Failf("box-area", "Area(%v) = %v, closed form %v", b, got, want)
				}
				if a2 := geo.Area(b.ToPolygon()); rel(a2, got) > 1e-12 {
					c.Failf("box-area", "Area(polygon of %v) = %v differs from the bound's %v", b, a2, got)
				}
				if s := geo.SignedArea(b.ToRing()); s <= 0 || rel(s, got) > 1e-12 {
					c.Failf("box-area", "SignedArea(counter-clockwise ring of %v) = %v, want +%v", b, s, got)
				}
				// the length of a bound is the sum of its four sides (the two parallels differ in length)
				ring := b.ToRing()
				wl, wh := 0.0, 0.0
				for i := 0; i+1 < len(ring); i++ {
					wl += geo.Distance(ring[i], ring[i+1])
					wh += geo.DistanceHaversine(ring[i], ring[i+1])
				}
				if l := geo.Length(b); rel(l, wl) > 1e-12 {
					c.Failf("bound-length", "Length(%v) = %v, the sum of its four sides is %v", b, l, wl)
				}
				if l := geo.LengthHaversine(b); rel(l, wh) > 1e-12 {
					c.Failf("bound-length", "LengthHaversine(%v) = %v, the sum of its four sides is %v", b, l, wh)
				}
				if l := geo.Length(orb.Collection{b, orb.Point{1, 1}}); rel(l, wl) > 1e-12 {
					c.Failf("bound-length", "Length(collection holding %v) = %v, the sum of its four sides is %v", b, l, wl)
				}
			}
		}
		c.NonTrivial()
	})
	narrow := func(k int) orb.Point { return orb.Point{10 + float64(k%4)*1.5, 40 + float64(k/4)*1.25} }
	// continental lattice: vertices up to 330 degrees of longitude apart, both hemispheres
	wideLat := func(k int) orb.Point { return orb.Point{-170 + float64(k%4)*110, -60 + float64(k/4)*43.5} }
	var ringPartOn func(n int, gp func(int) orb.Point, wide bool) func(c *mc.Ctx)
	ringPart := func(n int) func(c *mc.Ctx) { return ringPartOn(n, narrow, false) }
	ringPartOn = func(n int, gp func(int) orb.Point, wide bool) func(c *mc.Ctx) {
		return func(c *mc.Ctx) {
			ring := make(orb.Ring, n)
			for i := range ring {
				ring[i] = gp(c.Choose(16))
			}
			base := geo.SignedArea(ring)
			tol := 1e-9*math.Abs(base) + 1e-3
			if wide {
				tol += 1 // the terms are of the order R^2 = 4e13 m^2: one square metre is 2.5e-14 of that
			}
			closed := append(ring.Clone(), ring[0])
			if a := geo.SignedArea(closed); math.Abs(a-base) > tol {
				c.Failf("ring-closed-spelling", "SignedArea closed %v vs unclosed %v | %v", a, base, ring)
			}
			for s := 1; s < n; s++ {
				rot := make(orb.Ring, 0, n+1)
				for i := 0; i < n; i++ {
					rot = append(rot, ring[(s+i)%n])
				}
				if a := geo.SignedArea(rot); math.Abs(a-base) > tol {
					c.Failf("ring-rotation", "SignedArea of rotation %d = %v, base %v | %v", s, a, base, ring)
				}
				if a := geo.SignedArea(append(rot, rot[0])); math.Abs(a-base) > tol {
					c.Failf("ring-rotation", "SignedArea of closed rotation %d = %v, base %v | %v", s, a, base, ring)
				}
			}
			rev := make(orb.Ring, n)
			for i := range ring {
				rev[i] = ring[n-1-i]
			}
			if a := geo.SignedArea(rev); math.Abs(a+base) > tol {
				c.Failf("ring-reversal", "SignedArea reversed = %v, want %v | %v", a, -base, ring)
			}
			if a := geo.Area(ring); math.Abs(a-math.Abs(base)) > tol || a < 0 {
				c.Failf("ring-area", "Area = %v, |SignedArea| = %v | %v", a, math.Abs(base), ring)
			}
			// planar comparison: same sign as the planar shoelace (counter-clockwise positive)
			sh := 0.0
			for i := 0; i < n; i++ {
				p, q := ring[i], ring[(i+1)%n]
				sh += p[0]*q[1] - q[0]*p[1]
			}
			if !wide && sh != 0 && math.Abs(base) > 1 && (sh > 0) != (base > 0) {
				simple := n == 3
				if simple {
					c.Failf("ring-sign", "SignedArea = %v but the ring winds with planar shoelace %v | %v", base, sh, ring)
				}
			}
			// polygon = outer - holes, multi / collection = sum
			outer := orb.Ring{{0, 30}, {30, 30}, {30, 60}, {0, 60}, {0, 30}}
			oa := geo.Area(outer)
			pa := geo.Area(orb.Polygon{outer, closed})
			if math.Abs(pa-(oa-math.Abs(base))) > 1e-9*oa {
				c.Failf("polygon-area", "Area(polygon with hole) = %v, outer %v - hole %v | %v", pa, oa, math.Abs(base), ring)
			}
			// the hole given without its closing point is the same ring (rings close implicitly)
			if pu := geo.Area(orb.Polygon{outer, ring}); math.Abs(pu-pa) > 1e-9*oa {
				c.Failf("polygon-area", "Area(polygon with the hole spelled unclosed) = %v, with the hole closed %v | %v", pu, pa, ring)
			}
			if pu := geo.Area(orb.Polygon{outer[:len(outer)-1], closed}); math.Abs(pu-pa) > 1e-9*oa {
				c.Failf("polygon-area", "Area(polygon with the outer ring spelled unclosed) = %v, closed %v | %v", pu, pa, ring)
			}
			if mu := geo.Area(orb.MultiPolygon{{outer, ring}, {ring}}); math.Abs(mu-(pa+math.Abs(base))) > 1e-9*oa {
				c.Failf("multipolygon-area", "Area(multi, unclosed spellings) = %v, want %v | %v", mu, pa+math.Abs(base), ring)
			}
			ma := geo.Area(orb.MultiPolygon{{outer, closed}, {closed}})
			if math.Abs(ma-(pa+math.Abs(base))) > 1e-9*oa {
				c.Failf("multipolygon-area", "Area(multi) = %v, want %v | %v", ma, pa+math.Abs(base), ring)
			}
			ca := geo.Area(orb.Collection{orb.Polygon{outer, closed}, closed, orb.Point{1, 1}, orb.LineString{{0, 0}, {1, 1}}, orb.Collection{orb.Polygon{closed}}})
			if math.Abs(ca-(pa+2*math.Abs(base))) > 1e-9*oa {
				c.Failf("collection-area", "Area(collection) = %v, want %v | %v", ca, pa+2*math.Abs(base), ring)
			}
			// read-only and layout-independent: the same values with all rings as windows of one shared buffer
			for _, lg := range []orb.Geometry{orb.Polygon{outer[:len(outer)-1], ring}, orb.MultiPolygon{{ring}, {closed, ring}}, orb.Collection{ring, orb.LineString(ring)}} {
				w, verify := refgeom.Windowed(lg)
				wa, wl, wh := geo.Area(w), geo.Length(w), geo.LengthHaversine(w)
				if d := verify(); d != "" {
					c.Failf("measure-writes", "a geodesic measure wrote outside its argument: %s | %T built from %v", d, lg, ring)
					break
				}
				if wa != geo.Area(lg) || wl != geo.Length(lg) || wh != geo.LengthHaversine(lg) {
					c.Failf("measure-layout", "geodesic measures differ when the rings share one buffer: area %v/%v length %v/%v | %T built from %v", wa, geo.Area(lg), wl, geo.Length(lg), lg, ring)
					break
				}
			}
			// length: the sum of segment distances, for every kind that holds the ring
			sl, sh2, ol, oh := 0.0, 0.0, 0.0, 0.0
			for i := 0; i+1 < len(closed); i++ {
				sl += geo.Distance(closed[i], closed[i+1])
				sh2 += geo.DistanceHaversine(closed[i], closed[i+1])
			}
			for i := 0; i+1 < len(outer); i++ {
				ol += geo.Distance(outer[i], outer[i+1])
				oh += geo.DistanceHaversine(outer[i], outer[i+1])
			}
			ul, uh := 0.0, 0.0
			for i := 0; i+1 < len(ring); i++ {
				ul += geo.Distance(ring[i], ring[i+1])
				uh += geo.DistanceHaversine(ring[i], ring[i+1])
			}
			bb := orb.Bound{Min: orb.Point{10, 40}, Max: orb.Point{11.5, 42.5}}
			bl, bh := 0.0, 0.0
			for br, i := bb.ToRing(), 0; i+1 < len(br); i++ {
				bl += geo.Distance(br[i], br[i+1])
				bh += geo.DistanceHaversine(br[i], br[i+1])
			}
			for _, lc := range []struct {
				what   string
				g      orb.Geometry
				wl, wh float64
			}{
				{"ring", closed, sl, sh2},
				{"line string", orb.LineString(closed), sl, sh2},
				{"multi-line-string", orb.MultiLineString{orb.LineString(closed), orb.LineString(outer)}, sl + ol, sh2 + oh},
				{"polygon", orb.Polygon{outer, closed}, sl + ol, sh2 + oh},
				{"multi-polygon", orb.MultiPolygon{{outer, closed}, {closed}}, 2*sl + ol, 2*sh2 + oh},
				{"collection", orb.Collection{orb.Polygon{outer}, closed, bb, orb.Point{1, 1}, orb.Collection{orb.LineString(closed)}}, 2*sl + ol + bl, 2*sh2 + oh + bh},
				// the unclosed spelling: one stored segment fewer, whatever the list is called
				{"unclosed ring", ring, ul, uh},
				{"polygon with the unclosed ring as a hole", orb.Polygon{outer, ring}, ul + ol, uh + oh},
				{"multi-polygon of the unclosed ring", orb.MultiPolygon{{ring}, {outer}}, ul + ol, uh + oh},
				{"collection of the unclosed ring", orb.Collection{ring, orb.Collection{orb.Polygon{ring}}}, 2 * ul, 2 * uh},
			} {
				if l := geo.Length(lc.g); rel(l, lc.wl) > 1e-12 && math.Abs(l-lc.wl) > 1e-6 {
					c.Failf("length-sum", "Length(%s) = %v, the sum of segment distances is %v | %v", lc.what, l, lc.wl, ring)
				}
				if l := geo.LengthHaversine(lc.g); rel(l, lc.wh) > 1e-12 && math.Abs(l-lc.wh) > 1e-6 {
					c.Failf("length-sum", "LengthHaversine(%s) = %v, the sum of segment distances is %v | %v", lc.what, l, lc.wh, ring)
				}
			}
			if base != 0 {
				c.NonTrivial()
			}
		}
	}
	for n := 3; n <= ev.Pick(r, 4, 5); n++ {
		r.Explore(fmt.Sprintf("rings-%d", n), fmt.Sprintf("all 16^%d vertex lists on a 4x4 degree lattice: rotation / closure-spelling invariance, reversal negates, polygon = outer - holes, multi / collection sum", n), mc.Opts{MaxDev: -1, Split: 2}, ringPart(n))
		if n <= 4 {
			r.Explore(fmt.Sprintf("rings-wide-%d", n), fmt.Sprintf("all 16^%d vertex lists on a continental lattice (longitudes -170..160, latitudes -60..70): the same invariances", n), mc.Opts{MaxDev: -1, Split: 2}, ringPartOn(n, wideLat, true))
		}
	}
	r.Sample(map[string]interface{}{"pair": "[-135,80] and [45,-80] (antipodal)", "expected": "haversine finite and <= pi R"})
	r.Sample(map[string]interface{}{"box": "{[45,30],[48,33]}", "closed_form": "R^2 * 3deg * (sin 33 - sin 30)"})
	r.Finish()
}
