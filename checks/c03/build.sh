#!/bin/bash
# C03 is built against a copy of package encoding/mvt whose map ranges are owned by the harness (overlay only).
set -e
cd "$(dirname "$(readlink -f "$0")")/../.."
go build -o .work/bin/instr ./tools/instr
.work/bin/instr -out .work/c03 -maprange encoding/mvt 2>.work/c03.instr.log || { cat .work/c03.instr.log; exit 1; }
go build -tags verif -overlay .work/c03/overlay.json -o "$1" ./checks/c03
