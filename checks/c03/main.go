// C03: MVT tiles round-trip layers exactly and marshal deterministically.
package main

import (
	"bytes"
	"encoding/json"
	"fmt"
	"reflect"

	"github.com/paulmach/orb"
	"github.com/paulmach/orb/encoding/mvt"
	"github.com/paulmach/orb/geojson"
	"github.com/paulmach/orb/zzverif/mcrt"

	"verif/lib/ev"
	"verif/lib/mc"
	"verif/lib/refgeom"
	"verif/lib/retain"
)

const big = 1<<28 - 1

// ---- reference model of the documented decode ----

// shoelace sign, exact: coordinates are integers below 2^28, so every product fits int64
func shoelace(r orb.Ring) float64 {
	var s int64
	for i := 0; i+1 < len(r); i++ {
		s += int64(r[i][0])*int64(r[i+1][1]) - int64(r[i+1][0])*int64(r[i][1])
	}
	return float64(s)
}

func closeRing(r orb.Ring) orb.Ring {
	o := append(orb.Ring{}, r...)
	if len(o) > 0 && o[0] != o[len(o)-1] {
		o = append(o, o[0])
	}
	return o
}

// regroup: rings in order; a counter-clockwise ring (positive shoelace) starts a new polygon, any other ring is a hole of the current one
func regroup(rings []orb.Ring) orb.Geometry {
	var mp orb.MultiPolygon
	var p orb.Polygon
	for i, r := range rings {
		r = closeRing(r)
		if i == 0 || shoelace(r) <= 0 {
			p = append(p, r)
		} else {
			mp = append(mp, p)
			p = orb.Polygon{r}
		}
	}
	if len(mp) == 0 {
		return p
	}
	return append(mp, p)
}

func modelGeometry(g orb.Geometry) orb.Geometry {
	switch v := g.(type) {
	case orb.Point:
		return v
	case orb.MultiPoint:
		if len(v) == 1 {
			return v[0]
		}
		return v
	case orb.LineString:
		return v
	case orb.MultiLineString:
		if len(v) == 1 {
			return v[0]
		}
		return v
	case orb.Ring:
		return regroup([]orb.Ring{v})
	case orb.Bound:
		return regroup([]orb.Ring{v.ToRing()})
	case orb.Polygon:
		return regroup(v)
	case orb.MultiPolygon:
		var rings []orb.Ring
		for _, p := range v {
			rings = append(rings, p...)
		}
		return regroup(rings)
	}
	return g
}

func modelID(id interface{}) interface{} {
	var v float64
	switch x := id.(type) {
	case nil:
		return nil
	case int:
		v = float64(x)
	case int8:
		v = float64(x)
	case int16:
		v = float64(x)
	case int32:
		v = float64(x)
	case int64:
		v = float64(x)
	case uint:
		v = float64(x)
	case uint8:
		v = float64(x)
	case uint16:
		v = float64(x)
	case uint32:
		v = float64(x)
	case uint64:
		v = float64(x)
	case float32:
		v = float64(x)
	case float64:
		v = x
	default:
		return nil
	}
	if v < 0 {
		return nil
	}
	return v
}

type strer struct{}

func (strer) String() string { return "stringer" }

func modelValue(v interface{}) interface{} {
	if v == nil || !reflect.TypeOf(v).Comparable() {
		b, _ := json.Marshal(v)
		return string(b)
	}
	switch x := v.(type) {
	case string, bool:
		return x
	case fmt.Stringer:
		return x.String()
	}
	rv := reflect.ValueOf(v)
	switch rv.Kind() {
	case reflect.Int, reflect.Int8, reflect.Int16, reflect.Int32, reflect.Int64:
		return float64(rv.Int())
	case reflect.Uint, reflect.Uint8, reflect.Uint16, reflect.Uint32, reflect.Uint64:
		return float64(rv.Uint())
	case reflect.Float32, reflect.Float64:
		return rv.Float()
	}
	return v
}

type mFeature struct {
	geom  orb.Geometry
	id    interface{}
	props map[string]interface{}
}

// modelLayerW with mode -2 is the behaviour recorded as KF-C03-collection-flattening: only the first member
// of a collection becomes a feature. A difference is filed under that finding only if the tile matches this model
// exactly; anything else that happens to involve a collection is an ordinary violation.
func modelLayer(l *mvt.Layer) (out []mFeature, hasCollection bool) { return modelLayerW(l, -1) }

func modelLayerW(l *mvt.Layer, mode int) (out []mFeature, hasCollection bool) {
	for _, f := range l.Features {
		if f.Geometry == nil {
			continue
		}
		var props map[string]interface{}
		if len(f.Properties) > 0 {
			props = map[string]interface{}{}
			for k, v := range f.Properties {
				props[k] = modelValue(v)
			}
		}
		if col, ok := f.Geometry.(orb.Collection); ok {
			hasCollection = true
			for i, m := range col {
				if i > 0 && mode == -2 {
					break
				}
				out = append(out, mFeature{modelGeometry(m), modelID(f.ID), props})
			}
			continue
		}
		out = append(out, mFeature{modelGeometry(f.Geometry), modelID(f.ID), props})
	}
	return
}

// compare decoded layers with the model; returns the first difference
func compare(in, got mvt.Layers) (diff string, collection bool) {
	diff, collection = compareW(in, got, -1)
	if diff != "" && collection {
		if d2, _ := compareW(in, got, -2); d2 != "" {
			collection = false // not the recorded behaviour either: an ordinary violation
		}
	}
	return
}

func compareW(in, got mvt.Layers, mode int) (diff string, collection bool) {
	if len(in) != len(got) {
		return fmt.Sprintf("%d layers, want %d", len(got), len(in)), false
	}
	for li, l := range in {
		g := got[li]
		want, hasCol := modelLayerW(l, mode)
		if hasCol {
			collection = true
		}
		if g.Name != l.Name || g.Version != l.Version || g.Extent != l.Extent {
			return fmt.Sprintf("layer %d header name=%q version=%d extent=%d, want %q %d %d", li, g.Name, g.Version, g.Extent, l.Name, l.Version, l.Extent), collection
		}
		if len(g.Features) != len(want) {
			return fmt.Sprintf("layer %d has %d features, want %d", li, len(g.Features), len(want)), collection
		}
		for fi, w := range want {
			f := g.Features[fi]
			if refgeom.Struct(f.Geometry) != refgeom.Struct(w.geom) || fmt.Sprintf("%T", f.Geometry) != fmt.Sprintf("%T", w.geom) {
				return fmt.Sprintf("layer %d feature %d geometry %T %v, want %T %v", li, fi, f.Geometry, f.Geometry, w.geom, w.geom), collection
			}
			if !reflect.DeepEqual(f.ID, w.id) {
				return fmt.Sprintf("layer %d feature %d id %#v, want %#v", li, fi, f.ID, w.id), collection
			}
			var gp map[string]interface{}
			if len(f.Properties) > 0 {
				gp = map[string]interface{}(f.Properties)
			}
			if !reflect.DeepEqual(gp, w.props) {
				return fmt.Sprintf("layer %d feature %d properties %#v, want %#v", li, fi, gp, w.props), collection
			}
		}
	}
	return "", collection
}

var kept retain.Keeper

func roundTrip(c *mc.Ctx, layers mvt.Layers, desc string) {
	data, err := mvt.Marshal(layers)
	if err != nil {
		cl := "marshal-error"
		for _, l := range layers {
			for _, f := range l.Features {
				// the recorded behaviour: an empty collection, or one whose first member is itself a collection, is
				// handed to the geometry encoder as a collection and refused
				if col, ok := f.Geometry.(orb.Collection); ok {
					if len(col) == 0 {
						cl = "mvt:collection-flattening"
					} else if _, nested := col[0].(orb.Collection); nested {
						cl = "mvt:collection-flattening"
					}
				}
			}
		}
		c.Failf(cl, "Marshal: %v | %s", err, desc)
		return
	}
	if d2, err := mvt.Marshal(layers); err != nil || !bytes.Equal(data, d2) {
		c.Failf("nondeterministic", "marshalling the same layers twice differs | %s", desc)
	}
	// what earlier calls returned must still be what they returned (a result must not alias a reused buffer)
	if d := kept.Bytes(c.Worker, "tile from mvt.Marshal", data, desc); d != "" {
		c.Failf("result-overwritten", "%s | now marshalling %s", d, desc)
	}
	got, err := mvt.Unmarshal(data)
	if err != nil {
		c.Failf("unmarshal-error", "Unmarshal: %v | %s", err, desc)
		return
	}
	if d, col := compare(layers, got); d != "" {
		cl := "roundtrip"
		if col {
			cl = "mvt:collection-flattening"
		}
		c.Failf(cl, "%s | %s", d, desc)
	}
	gz, err := mvt.MarshalGzipped(layers)
	if err != nil {
		c.Failf("gzip", "MarshalGzipped: %v | %s", err, desc)
		return
	}
	if d := kept.Bytes(c.Worker, "tile from mvt.MarshalGzipped", gz, desc); d != "" {
		c.Failf("result-overwritten", "%s | now marshalling %s", d, desc)
	}
	g2, err := mvt.UnmarshalGzipped(gz)
	if err != nil {
		c.Failf("gzip", "UnmarshalGzipped: %v | %s", err, desc)
		return
	}
	if d, _ := compare(got, g2); d != "" && err == nil {
		// decoded values are already in model form: compare structurally
		b1, _ := json.Marshal(got)
		b2, _ := json.Marshal(g2)
		if !bytes.Equal(b1, b2) {
			c.Failf("gzip", "gzipped and plain decodes differ: %s | %s", d, desc)
		}
	}
	if _, err := mvt.Unmarshal(gz); err != mvt.ErrDataIsGZipped {
		c.Failf("gzip", "Unmarshal of gzipped data returned %v, want ErrDataIsGZipped | %s", err, desc)
	}
}

// ---- catalogues ----

var sq = orb.Ring{{0, 0}, {10, 0}, {10, 10}, {0, 10}, {0, 0}}                               // counter-clockwise by shoelace
var sqHole = orb.Ring{{2, 2}, {2, 4}, {4, 4}, {4, 2}, {2, 2}}                               // clockwise
var tri = orb.Ring{{20, 0}, {30, 0}, {20, 10}}                                              // ccw, unclosed spelling
var triHole = orb.Ring{{21, 1}, {21, 3}, {23, 1}, {21, 1}}                                  // clockwise
var lshape = orb.Ring{{-5, -5}, {big, -5}, {big, 0}, {0, 0}, {0, big}, {-5, big}, {-5, -5}} // ccw with extreme coordinates

func square(x, y, n float64, ccw bool) orb.Ring {
	r := orb.Ring{{x, y}, {x + n, y}, {x + n, y + n}, {x, y + n}, {x, y}}
	if !ccw {
		r.Reverse()
	}
	return r
}

const far = 1<<27 - 50

var geoms = []orb.Geometry{
	// tiny rings far from the origin: the winding test must not lose them to cancellation
	orb.MultiPolygon{{sq}, {square(far, far, 1, true)}},
	orb.MultiPolygon{{square(-far, -far, 2, true)}, {square(far, -far, 1, true)}, {square(big-3, big-3, 2, true)}},
	orb.Polygon{square(far-10, far-10, 30, true), square(far, far, 1, false)},
	orb.Point{1, 2},
	orb.Point{-big, big},
	orb.MultiPoint{{5, 5}},
	orb.MultiPoint{{0, 0}, {1, -1}, {-5, 5}, {big, -big}, {-big, big}, {-big, big}},
	orb.LineString{{0, 0}, {1, 0}, {1, 0}, {-1, 5}},
	orb.LineString{{big, big}, {-big, -big}},
	orb.MultiLineString{{{0, 0}, {5, 5}}},
	orb.MultiLineString{{{0, 0}, {5, 5}}, {{5, 5}, {0, 0}, {1, 1}}, {{-1, -1}, {big, 0}}},
	sq,
	tri,
	orb.Bound{Min: orb.Point{-5, -5}, Max: orb.Point{5, 5}},
	orb.Polygon{sq},
	orb.Polygon{sq, sqHole},
	orb.Polygon{tri, triHole},
	orb.Polygon{lshape},
	orb.MultiPolygon{{sq}},
	orb.MultiPolygon{{sq, sqHole}, {tri}},
	orb.MultiPolygon{{tri, triHole}, {sq, sqHole}, {lshape}},
	// self-crossing rings: the winding that decides the regrouping is the sign of the shoelace sum, whatever the ring
	// looks like at any one vertex (a bow-tie whose larger lobe winds one way and whose top-right lobe the other way)
	orb.MultiPolygon{{sq}, {{{20, 0}, {30, 0}, {23, 12}, {27, 12}, {20, 0}}}},                                     // second outer ring: shoelace +, clockwise at its top-right vertex
	orb.Polygon{sq, {{2, 2}, {4, 8}, {3, 8}, {6, 2}, {2, 2}}},                                                     // hole: shoelace -, counter-clockwise at its top vertex
	orb.MultiPolygon{{{{0, 0}, {4, 0}, {0, 4}, {4, 4}, {0, 0}}}, {{{10, 0}, {12, 6}, {11, 6}, {14, 0}, {10, 0}}}}, // a symmetric bow-tie (shoelace 0) and a clockwise-sum bow-tie after it
	nil,
	orb.Collection{orb.Point{7, 7}},
	orb.Collection{orb.Point{7, 7}, orb.LineString{{0, 0}, {1, 1}}},
	orb.Collection{},
}

var ids = []interface{}{nil, 0, 1, int8(7), int16(7), int32(7), int64(1) << 40, uint(7), uint8(7), uint16(7), uint32(7), uint64(1) << 50, float32(7), float64(12), 1 << 31}

var values = []interface{}{"", "1", true, false, int(1), int8(1), int16(1), int32(1), int64(1), uint(1), uint8(1), uint16(1), uint32(1), uint64(1), float32(1), float64(1),
	float32(0.5), float64(0.5), float32(0.1), float64(0.1), float64(float32(0.1)), int64(-1), nil, []int{1}, map[string]int{"a": 1}, strer{}, 1e21, int64(-1) << 40, uint64(1) << 63,
	// strings and string lists whose JSON text needs escaping (uncomparable values travel as their encoding/json text)
	"Fish & <Chips>\x07\u2028", "caf\xe9 (latin-1 bytes)", []string{"Fish & Chips", "bell\x07", "nb\u00a0sp", "del\x7f"}, []interface{}{"<tag>", "q\"uote", "bad\xff"}, []string{}, []interface{}{"a", 1}}

var keys = []string{"a", "b", "", "ä", "k\xff"} // the last one is not valid UTF-8: strings travel byte for byte

func main() {
	r := ev.New("C03", "model_checking")
	r.Rule = "layer lists of 0..2 layers x 0..3 features over a geometry catalogue (every kind, coordinates 0, +-1, +-5, +-(2^28-1) so that consecutive deltas cover both signs, zero and the extremes, holes by winding, closed and unclosed ring spellings, nil geometry, collections), 15 id kinds, 26 typed property values on shared and distinct keys (so the per-layer key/value tables de-duplicate across features and Go types), extents 256..8192, versions 1 and 2, plain and gzipped - all within a deviation bound; every iteration order of the property-map range in the encoder (harness-owned, <= 4 keys); the whole delta space |d| < 2^29 through multi-points in the thorough tier; states = executions (layer list, iteration order), non-trivial = at least two features or a property map"
	r.Assume = []string{
		"the reference decode model is the documented behaviour: one-member multi = member, rings closed, polygons regrouped by shoelace sign, ids and numbers widened to float64, nil / uncomparable property values as their JSON text, fmt.Stringer values as their string, empty property map = nil, nil-geometry features skipped, every collection member its own feature",
		"geometries satisfy the quantifier: non-empty parts, rings of non-zero area, outer rings counter-clockwise, holes clockwise, |v| < 2^28",
	}
	var cur *mc.Ctx
	var permSteps int64
	mcrt.PermHook = func(site, n int) []int {
		idx := make([]int, n)
		for i := range idx {
			idx[i] = i
		}
		if cur == nil || n > 4 {
			return idx
		}
		out := make([]int, 0, n)
		for i := 0; i < n; i++ {
			k := 0
			if n-i > 1 {
				k = cur.Choose(n - i)
			}
			out = append(out, idx[k])
			idx = append(idx[:k], idx[k+1:]...)
			permSteps++
		}
		return out
	}
	genFeature := func(c *mc.Ctx) *geojson.Feature {
		f := geojson.NewFeature(orb.Clone(geoms[c.Choose(len(geoms))]))
		f.ID = ids[c.Choose(len(ids))]
		for i, k := 0, c.Choose(4); i < k; i++ {
			f.Properties[keys[c.Choose(len(keys))]] = values[c.Choose(len(values))]
		}
		return f
	}
	genLayers := func(c *mc.Ctx) mvt.Layers {
		var ls mvt.Layers
		for i, n := 0, []int{1, 2, 0}[c.Choose(3)]; i < n; i++ {
			l := &mvt.Layer{Name: []string{"layer", "", "other", "stra\xdfe"}[c.Choose(4)], Version: []uint32{1, 2}[c.Choose(2)], Extent: []uint32{4096, 256, 512, 1024, 2048, 8192}[c.Choose(6)]}
			for j, m := 0, []int{1, 2, 3, 0}[c.Choose(4)]; j < m; j++ {
				l.Features = append(l.Features, genFeature(c))
			}
			ls = append(ls, l)
		}
		return ls
	}
	nontrivial := func(c *mc.Ctx, ls mvt.Layers) {
		for _, l := range ls {
			if len(l.Features) >= 2 {
				c.NonTrivial()
			}
			for _, f := range l.Features {
				if len(f.Properties) > 0 {
					c.NonTrivial()
				}
			}
		}
	}
	dev := ev.Pick(r, 3, 4)
	st := r.ExploreSharded("layers", fmt.Sprintf("layer lists within %d deviations from the simplest (one layer, one point feature, no id, no properties)", dev), mc.Opts{MaxDev: dev}, 16, func(c *mc.Ctx) {
		first := c.Choose(len(geoms)) // the geometry of an extra leading feature partitions the space over processes
		if !r.Owned(c, first) {
			return
		}
		ls := genLayers(c)
		if len(ls) > 0 {
			ls[0].Features = append([]*geojson.Feature{geojson.NewFeature(orb.Clone(geoms[first]))}, ls[0].Features...)
		}
		b, _ := json.Marshal(ls)
		roundTrip(c, ls, "layers="+string(b))
		nontrivial(c, ls)
	})
	r.States += st.Execs
	r.Transitions += st.Points
	r.Traces += st.Execs
	// every geometry x every id x every value on one feature (pairwise, no deviation bound)
	st = r.ExploreSharded("feature-product", "one layer, one feature: full product geometry x id x (key, value) plus a second feature sharing the key with another typed value", mc.Opts{MaxDev: -1}, 16, func(c *mc.Ctx) {
		gi := c.Choose(len(geoms))
		if !r.Owned(c, gi) {
			return
		}
		f := geojson.NewFeature(orb.Clone(geoms[gi]))
		f.ID = ids[c.Choose(len(ids))]
		v1, v2 := values[c.Choose(len(values))], values[c.Choose(len(values))]
		f.Properties["k"] = v1
		f2 := geojson.NewFeature(orb.Point{3, 3})
		f2.Properties["k"] = v2
		f2.Properties["z"] = v1
		ls := mvt.Layers{&mvt.Layer{Name: "l", Version: 2, Extent: 4096, Features: []*geojson.Feature{f, f2}}}
		roundTrip(c, ls, fmt.Sprintf("geometry=%v id=%#v values=%#v,%#v", geoms[gi], f.ID, v1, v2))
		c.NonTrivial()
	})
	r.States += st.Execs
	r.Transitions += st.Points
	r.Traces += st.Execs
	// sizes: counts that cross the varint boundaries of the encoding (a command word is count<<3|id, so its
	// boundaries are 16 and 2048; tag indexes, feature counts and lengths cross at 128 and 16384)
	sizes := []int{1, 2, 3, 15, 16, 17, 127, 128, 129, 2047, 2048, 2049}
	if !r.Quick() {
		sizes = append(sizes, 16383, 16384, 16385, 262143, 262144, 262145)
	}
	st = r.ExploreSharded("sizes", fmt.Sprintf("10 dimensions (vertices of one ring inside a polygon / the second polygon of a multi-polygon, of one line inside a multi-line; vertices of a line, points of a multi-point, rings of a polygon, polygons, features, distinct keys / values of a layer, layers) x %d counts around the varint boundaries: round trip", len(sizes)), mc.Opts{MaxDev: -1}, 16, func(c *mc.Ctx) {
		dim := c.Choose(10)
		si := c.Choose(len(sizes))
		if !r.Owned(c, dim*len(sizes)+si) {
			return
		}
		n := sizes[si]
		if n > 20000 && dim >= 2 && dim <= 6 {
			c.Skip() // the largest counts only for vertex and point lists
			return
		}
		layer := &mvt.Layer{Name: "s", Version: 2, Extent: 4096}
		ls := mvt.Layers{layer}
		switch dim {
		case 0:
			l := make(orb.LineString, n+1)
			for i := range l {
				l[i] = orb.Point{float64(i%97 + i/97), float64((i * 7) % 89)}
				if i > 0 && l[i] == l[i-1] {
					l[i][1]++
				}
			}
			layer.Features = []*geojson.Feature{geojson.NewFeature(l)}
		case 1:
			m := make(orb.MultiPoint, n+1)
			for i := range m {
				m[i] = orb.Point{float64(i % 101), float64(i / 101)}
			}
			layer.Features = []*geojson.Feature{geojson.NewFeature(m)}
		case 2:
			p := orb.Polygon{square(0, 0, float64(4*n+8), true)}
			for i := 0; i < n; i++ {
				p = append(p, square(float64(4*i+2), 2, 2, false))
			}
			layer.Features = []*geojson.Feature{geojson.NewFeature(p)}
		case 3:
			var mp orb.MultiPolygon
			for i := 0; i <= n; i++ {
				mp = append(mp, orb.Polygon{square(float64(4*i), 0, 2, true)})
			}
			layer.Features = []*geojson.Feature{geojson.NewFeature(mp)}
		case 4:
			for i := 0; i < n; i++ {
				f := geojson.NewFeature(orb.Point{float64(i % 4096), float64(i / 4096)})
				f.ID = float64(i)
				f.Properties["n"] = float64(i % 3)
				layer.Features = append(layer.Features, f)
			}
		case 5:
			// n distinct keys and n distinct values spread over features of 3 properties each, the last
			// feature re-using the first and the last table entries
			var f *geojson.Feature
			for i := 0; i < n; i++ {
				if i%3 == 0 {
					f = geojson.NewFeature(orb.Point{float64(i % 4096), 1})
					layer.Features = append(layer.Features, f)
				}
				f.Properties[fmt.Sprintf("k%d", i)] = float64(i) + 0.5
			}
			last := geojson.NewFeature(orb.Point{5, 5})
			last.Properties["k0"] = float64(n-1) + 0.5
			last.Properties[fmt.Sprintf("k%d", n-1)] = 0.5
			layer.Features = append(layer.Features, last)
		case 6:
			ls = nil
			for i := 0; i < n; i++ {
				f := geojson.NewFeature(orb.Point{float64(i % 4096), 2})
				f.Properties["layer"] = float64(i)
				ls = append(ls, &mvt.Layer{Name: fmt.Sprintf("l%d", i), Version: 2, Extent: 4096, Features: []*geojson.Feature{f}})
			}
		case 7, 8, 9: // n vertices in ONE inner sequence: the outer ring of a polygon with a hole, a ring of the second polygon, a line of a multi-line
			long := make(orb.Ring, 0, n+4)
			for i := 0; i <= n; i++ {
				long = append(long, orb.Point{float64(i), 0})
			}
			long = append(long, orb.Point{float64(n), 10}, orb.Point{0, 10}, orb.Point{0, 0})
			if long.Orientation() != square(0, 0, 1, true).Orientation() {
				long.Reverse()
			}
			switch dim {
			case 7:
				p := orb.Polygon{long}
				if n >= 4 {
					p = append(p, square(1, 2, 2, false))
				}
				layer.Features = []*geojson.Feature{geojson.NewFeature(p)}
			case 8:
				layer.Features = []*geojson.Feature{geojson.NewFeature(orb.MultiPolygon{{square(-8, 0, 2, true)}, {long}})}
			case 9:
				layer.Features = []*geojson.Feature{geojson.NewFeature(orb.MultiLineString{{{-3, 1}, {-2, 5}}, orb.LineString(long[:n+1]), {{-3, 2}, {-2, 6}}})}
			}
		}
		roundTrip(c, ls, fmt.Sprintf("dimension=%d count=%d", dim, n))
		c.NonTrivial()
	})
	r.States += st.Execs
	r.Transitions += st.Points
	r.Traces += st.Execs
	// map-order schedules: the encoder ranges over the property map; every order must give the same bytes
	st = r.ExploreSharded("property-order", "property maps of 2..4 keys (5 key families: plain, case variants, blank-padded, differently composed accents, common prefixes) over typed values: every iteration order of the encoder's range over the map yields byte-identical tiles", mc.Opts{MaxDev: -1}, 16, func(c *mc.Ctx) {
		n := 2 + c.Choose(3)
		if !r.Owned(c, n) {
			return
		}
		f := geojson.NewFeature(orb.Point{1, 1})
		vals := []interface{}{"x", 1, 1.5, true, nil, int64(1), []int{1}}
		// key families: plain ones, and keys that an order which folds case, trims blanks, normalises or looks at a
		// prefix only would consider the same (any such order is not total, and the key table then follows the map order)
		fam := c.Choose(5)
		keys := [][]string{keys, {"name", "Name", "NAME", "nAmE"}, {"a", "a ", " a", "a\t"}, {"\u00e9", "e\u0301", "\u00c9", "E\u0301"}, {"key", "key1", "key10", "ke"}}[fam]
		if fam > 0 {
			vals = vals[:3]
		}
		for i := 0; i < n; i++ {
			f.Properties[keys[i]] = vals[c.Choose(len(vals))]
		}
		f2 := geojson.NewFeature(orb.Point{2, 2})
		f2.Properties[keys[n-1]] = vals[c.Choose(3)]
		f2.Properties[keys[0]] = "x"
		ls := mvt.Layers{&mvt.Layer{Name: "l", Version: 2, Extent: 4096, Features: []*geojson.Feature{f, f2}}}
		cur = nil
		ref, err := mvt.Marshal(ls)
		cur = c
		got, err2 := mvt.Marshal(ls)
		cur = nil
		if err != nil || err2 != nil || !bytes.Equal(ref, got) {
			c.Failf("map-order", "Marshal depends on map iteration order (%v %v): %x vs %x | properties=%#v", err, err2, ref, got, f.Properties)
		}
		back, err := mvt.Unmarshal(got)
		if err != nil {
			c.Failf("unmarshal-error", "%v", err)
		} else if d, _ := compare(ls, back); d != "" {
			c.Failf("roundtrip", "%s | properties=%#v", d, f.Properties)
		}
		c.NonTrivial()
	})
	r.States += st.Execs
	r.Transitions += st.Points
	r.Traces += st.Execs
	// delta space through the public API
	chunk := 1 << 16
	lim := ev.Pick(r, 1<<20, 1<<29) // |d| < lim
	nchunks := 2 * lim / chunk
	st = r.ExploreSharded("deltas", fmt.Sprintf("every delta d with |d| < %d on both axes: multi-points [d,0,...] pushed through zigzag, protobuf and unzigzag (%d chunks of %d deltas); plus the extreme alphabet", lim, nchunks, chunk), mc.Opts{MaxDev: -1}, 16, func(c *mc.Ctx) {
		ci := c.Choose(nchunks)
		if !r.Owned(c, ci) {
			return
		}
		lo := -lim + ci*chunk
		mp := make(orb.MultiPoint, 0, 2*chunk)
		for d := lo; d < lo+chunk; d++ {
			// the cursor alternates between (d, -d) and (0, 0): consecutive deltas are +-d on both axes
			mp = append(mp, orb.Point{float64(d), float64(-d)}, orb.Point{0, 0})
		}
		ls := mvt.Layers{&mvt.Layer{Name: "d", Version: 2, Extent: 4096, Features: []*geojson.Feature{geojson.NewFeature(mp)}}}
		data, err := mvt.Marshal(ls)
		if err != nil {
			c.Failf("marshal-error", "%v", err)
			return
		}
		back, err := mvt.Unmarshal(data)
		if err != nil || len(back) != 1 || len(back[0].Features) != 1 {
			c.Failf("unmarshal-error", "%v", err)
			return
		}
		got, ok := back[0].Features[0].Geometry.(orb.MultiPoint)
		if !ok || len(got) != len(mp) {
			c.Failf("delta", "decoded %T of %d points", back[0].Features[0].Geometry, len(got))
			return
		}
		for i := range mp {
			if got[i] != mp[i] {
				c.Failf("delta", "point %d decodes to %v, want %v (delta %v)", i, got[i], mp[i], mp[i][0])
				return
			}
		}
		c.NonTrivial()
	})
	r.States += st.Execs
	r.Transitions += st.Points
	r.Traces += st.Execs
	r.Count("map_iteration_steps", permSteps)
	r.Sample(map[string]interface{}{"layer": "name=layer version=2 extent=4096", "feature": "MultiPolygon{{sq,hole},{tri}} id=int8(7) properties={a:int(1), b:int64(1)}", "expected": "MultiPolygon regrouped by winding, id 7.0, a=1.0, b=1.0 (two value-table entries)"})
	r.Finish()
}
