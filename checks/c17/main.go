// C17: resampling returns the requested number of evenly spaced on-line points.
package main

import (
	"strings"
	"fmt"
	"math"
	"math/big"

	"github.com/paulmach/orb"
	"github.com/paulmach/orb/geo"
	"github.com/paulmach/orb/resample"

	"verif/lib/ev"
	"verif/lib/mc"
	"verif/lib/refgeom"
)

var alphabet = []orb.Point{{0, 0}, {3, 0}, {6, 0}, {3, 4}, {6, 8}, {0, 4}, {6, 4}, {3, 8}}

type dfn struct {
	name  string
	f     orb.DistanceFunc
	exact bool // distances are scaled euclidean: spacing can be checked
	scale float64
}

var dfs = []dfn{
	{"planar", dist, true, 1},
	{"3x planar", func(a, b orb.Point) float64 { return 3 * dist(a, b) }, true, 3},
	{"geo.Distance", geo.Distance, false, 0},
}

func isInt(f float64) bool { return f == math.Trunc(f) }

// position at euclidean arc length s along ls
func at(ls orb.LineString, s float64) orb.Point {
	for i := 1; i < len(ls); i++ {
		d := dist(ls[i-1], ls[i])
		if s <= d && d > 0 {
			t := s / d
			return orb.Point{ls[i-1][0] + t*(ls[i][0]-ls[i-1][0]), ls[i-1][1] + t*(ls[i][1]-ls[i-1][1])}
		}
		s -= d
	}
	return ls[len(ls)-1]
}

// param returns the smallest arc-length position >= from at which p lies on ls (within tol), or -1
func param(ls orb.LineString, p orb.Point, from float64) float64 { return paramIn(ls, p, from, nil) }

// paramIn: with a metric, a segment the metric measures as zero holds no sample strictly between its ends (its
// vertices may be distinct: the antimeridian pair under geo.Distance).
func paramIn(ls orb.LineString, p orb.Point, from float64, metric orb.DistanceFunc) float64 {
	acc := 0.0
	for i := 1; i < len(ls); i++ {
		a, b := ls[i-1], ls[i]
		d := dist(a, b)
		if d > 0 {
			t := ((p[0]-a[0])*(b[0]-a[0]) + (p[1]-a[1])*(b[1]-a[1])) / (d * d)
			t = math.Max(0, math.Min(1, t))
			if metric != nil && metric(a, b) == 0 && p != a && p != b {
				acc += d
				continue
			}
			if math.Hypot(a[0]+t*(b[0]-a[0])-p[0], a[1]+t*(b[1]-a[1])-p[1]) <= 1e-9 && acc+t*d >= from-1e-9 {
				return acc + t*d
			}
		} else if a == p && acc >= from-1e-9 {
			return acc
		}
		acc += d
	}
	return -1
}

// atMetric: the point at the fraction fr of the total length of ls, every segment measured by f and divided linearly.
func atMetric(ls orb.LineString, f orb.DistanceFunc, fr float64) orb.Point {
	total := 0.0
	ds := make([]float64, len(ls))
	for i := 1; i < len(ls); i++ {
		ds[i] = f(ls[i-1], ls[i])
		total += ds[i]
	}
	target := fr * total
	for i := 1; i < len(ls); i++ {
		if target <= ds[i] && ds[i] > 0 {
			t := target / ds[i]
			return orb.Point{ls[i-1][0] + t*(ls[i][0]-ls[i-1][0]), ls[i-1][1] + t*(ls[i][1]-ls[i-1][1])}
		}
		target -= ds[i]
	}
	return ls[len(ls)-1]
}

// dist is the check's own euclidean distance (the one the checks pass to the library as DistanceFunc and use in their oracles).
func dist(a, b orb.Point) float64 {
	dx, dy := a[0]-b[0], a[1]-b[1]
	return math.Sqrt(dx*dx + dy*dy)
}

func main() {
	r := ev.New("C17", "exploration")
	r.Rule = "every vertex list of 0..4 points (nil and empty included; repeated vertices, zero-length segments, all-equal lists) over an 8-point alphabet (axis-aligned and 3-4-5 steps give integer lengths; for lists with an irrational length only intervals whose quotient is far from an integer are used), x every N in -1..12, x every interval d of the stated finite set, x 3 distance functions; an execution is one (line, distance function); non-trivial = positive length and at least two distinct segments or a zero-length segment"
	r.Assume = []string{
		"lengths are integers and intervals dyadic, so floor(length/d) is decided exactly with big rationals",
		"for geo.Distance (equirectangular degrees) only count, endpoints, on-line and travel order are checked: linear interpolation in coordinates is equally spaced only in the planar metrics",
		"N=1 returns the first point only (k/(N-1) is undefined); accepted",
	}
	maxN := ev.Pick(r, 5, 6)
	var runLine func(c *mc.Ctx, dfi int, ls orb.LineString, Ns []int)
	small := []int{-1, 0, 1, 2, 3, 4, 5, 6, 7, 8, 9, 10, 11, 12}
	part := func(c *mc.Ctx) {
		dfi := c.Choose(len(dfs))
		n := c.Choose(maxN + 1)
		var ls orb.LineString
		if n == 0 && c.Bool() {
			ls = orb.LineString{}
		}
		for i := 0; i < n; i++ {
			ls = append(ls, alphabet[c.Choose(len(alphabet))])
		}
		runLine(c, dfi, ls, small)
	}
	runLine = func(c *mc.Ctx, dfi int, ls orb.LineString, Ns []int) {
		df := dfs[dfi]
		n := len(ls)
		L := 0.0
		allEq, zeroSeg, segs, intLen := true, false, 0, true
		for i := 1; i < n; i++ {
			d := dist(ls[i-1], ls[i])
			if !isInt(d) {
				intLen = false
			}
			if d == 0 {
				zeroSeg = true
			} else {
				segs++
			}
			if ls[i] != ls[0] {
				allEq = false
			}
			L += d
		}
		desc := func(call string) string { return fmt.Sprintf("%s df=%s line=%v", call, df.name, ls) }
		validate := func(call string, out orb.LineString, N int) {
			switch {
			case n < 2:
				if len(out) != n || (n == 1 && out[0] != ls[0]) {
					c.Failf("short-line", "a line with fewer than two vertices must be returned as it is, got %v | %s", out, desc(call))
				}
				return
			case allEq:
				if len(out) != N {
					c.Failf("all-equal", "an all-equal line must be padded/truncated to %d points, got %v | %s", N, out, desc(call))
					return
				}
				for _, p := range out {
					if p != ls[0] {
						c.Failf("all-equal", "padding point %v differs | %s", p, desc(call))
					}
				}
				return
			}
			if len(out) != N {
				c.Failf("count", "returned %d points, want %d: %v | %s", len(out), N, out, desc(call))
				return
			}
			if out[0] != ls[0] || (N > 1 && out[N-1] != ls[n-1]) {
				c.Failf("endpoints", "first/last = %v/%v, want %v/%v | %s", out[0], out[N-1], ls[0], ls[n-1], desc(call))
			}
			from := 0.0
			for k, p := range out {
				s := paramIn(ls, p, from, df.f)
				if s < 0 {
					c.Failf("on-line-order", "point %d = %v is not on the line at or after arc position %v: %v | %s", k, p, from, out, desc(call))
					return
				}
				from = s
				if df.exact && N > 1 {
					want := at(ls, float64(k)/float64(N-1)*L)
					if math.Hypot(p[0]-want[0], p[1]-want[1]) > 1e-9*math.Max(1, L) {
						c.Failf("spacing", "point %d = %v, want %v (k/(N-1) of the length): %v | %s", k, p, want, out, desc(call))
						return
					}
				}
				if !df.exact && N > 1 && strings.HasPrefix(call, "Resample") {
					// any other metric: the k-th point lies k/(N-1) of the metric length along the line, each segment
					// measured by the metric itself and divided linearly
					want := atMetric(ls, df.f, float64(k)/float64(N-1))
					if k == N-1 {
						want = ls[n-1]
					}
					// (two positions the metric does not tell apart - the two sides of the antimeridian - are the same place)
					if math.Hypot(p[0]-want[0], p[1]-want[1]) > 1e-7*(1+math.Abs(want[0])+math.Abs(want[1])) && df.f(p, want) > 1e-6 {
						c.Failf("spacing", "point %d = %v, want %v (k/(N-1) of the length in the metric %s): %v | %s", k, p, want, df.name, out, desc(call))
						return
					}
				}
			}
		}
		for _, N := range Ns {
			var out orb.LineString
			out = resample.Resample(ls.Clone(), df.f, N)
			call := fmt.Sprintf("Resample(N=%d)", N)
			if N <= 0 {
				if out != nil {
					c.Failf("nonpositive", "non-positive N must return nothing, got %v | %s", out, desc(call))
				}
				continue
			}
			validate(call, out, N)
			// the same line with spare capacity behind it (a prefix of a longer slice, a slice built by append)
			if o2 := resample.Resample(orb.LineString(refgeom.Spare(ls)), df.f, N); refgeom.Bits(o2) != refgeom.Bits(out) {
				c.Failf("layout-dependent", "%s gives %v for the line with spare capacity and %v for an exact-capacity copy | %s", call, o2, out, desc(call))
			}
			// euclidean metrics: the line scaled by a power of two (exact) resamples to the bit-for-bit scaled points
			if df.scale > 0 {
				for _, k := range []float64{1024, 1.0 / (1 << 40)} {
					sl, _ := refgeom.Scale(ls, k).(orb.LineString)
					if o2 := resample.Resample(sl, df.f, N); !refgeom.Equal(o2, refgeom.Scale(out, k)) {
						c.Failf("scaling", "%s of the line scaled by %v gives %v, unscaled %v | %s", call, k, o2, out, desc(call))
					}
				}
			}
		}
		var ds []float64
		ds = append(ds, -1, 0, 1, 2, 3, 4, 5, 7, 0.5, 0.375)
		// intervals that are not dyadic: length/d then lands a few ulps below or above an integer, and the count is
		// the floor of the exact quotient of the two float values (decided with big rationals below)
		ds = append(ds, 0.1, 0.2, 0.3, 0.6, 0.7, 1.1, 1.0/3)
		if !intLen {
			// irrational length: only intervals whose quotient is far from an integer (count decided in floats)
			ds = []float64{-1, 0, L / 1.5, L / 2.5, L / 7.25, 2 * L}
		} else if L > 0 {
			for _, k := range []float64{1, 2, 4, 8} {
				ds = append(ds, L/k, L/k+1.0/(1<<20), L/k-1.0/(1<<20))
			}
			ds = append(ds, L+1, 2*L)
		}
		for _, d := range ds {
			call := fmt.Sprintf("ToInterval(d=%v)", d)
			dd := d
			if df.scale > 0 {
				dd = d * df.scale // same number of points in the scaled metric
			} else if L > 0 {
				continue // geo: count depends on the geodesic length; checked below with its own total
			}
			out := resample.ToInterval(ls.Clone(), df.f, dd)
			if o2 := resample.ToInterval(orb.LineString(refgeom.Spare(ls)), df.f, dd); refgeom.Bits(o2) != refgeom.Bits(out) {
				c.Failf("layout-dependent", "%s gives %v for the line with spare capacity and %v for an exact-capacity copy | %s", call, o2, out, desc(call))
			}
			if df.scale > 0 {
				for _, k := range []float64{1024, 1.0 / (1 << 40)} {
					sl, _ := refgeom.Scale(ls, k).(orb.LineString)
					if o2 := resample.ToInterval(sl, df.f, dd*k); !refgeom.Equal(o2, refgeom.Scale(out, k)) {
						c.Failf("scaling", "%s of the line and the interval scaled by %v gives %v, unscaled %v | %s", call, k, o2, out, desc(call))
					}
				}
			}
			if d <= 0 {
				if out != nil {
					c.Failf("nonpositive", "non-positive d must return nothing, got %v | %s", out, desc(call))
				}
				continue
			}
			var N int
			if intLen {
				q := new(big.Rat).Quo(new(big.Rat).SetFloat64(L), new(big.Rat).SetFloat64(d))
				N = int(new(big.Int).Quo(q.Num(), q.Denom()).Int64()) + 1
				// when d is not dyadic the float quotient may round onto the next integer (3/0.1 = 30 in floats,
				// 29.99.. exactly): the statement does not say which arithmetic decides, both counts are accepted
				if qf := L / d; math.Abs(qf-math.Round(qf)) < 1e-9*qf && n >= 2 && !allEq {
					if alt := int(math.Round(qf)) + 1; len(out) == alt || len(out) == alt-1 {
						N = len(out)
					}
				}
			} else {
				N = int(math.Floor(L/d)) + 1
			}
			validate(call, out, N)
		}
		if !df.exact && L > 0 && n >= 2 && !allEq {
			tot := 0.0
			for i := 1; i < n; i++ {
				tot += df.f(ls[i-1], ls[i])
			}
			for _, k := range []float64{1.5, 2.5, 5.5} {
				d := tot / k
				validate(fmt.Sprintf("ToInterval(d=total/%v)", k), resample.ToInterval(ls.Clone(), df.f, d), int(math.Floor(k))+1)
			}
		}
		if L > 0 && (segs >= 2 || zeroSeg) {
			c.NonTrivial()
		}
	}
	r.Explore("lines", fmt.Sprintf("3 distance functions x every vertex list of 0..%d alphabet points", maxN)+" x N in -1..12 x interval set", mc.Opts{MaxDev: -1, Split: 3}, part)
	// lines that are tiny compared with their distance from the origin (a few 2^-24 long at coordinates around 2^20:
	// exactly representable, far below any relative tolerance on the coordinates, yet of positive length)
	r.Explore("tiny-far", "every vertex list of 2..4 alphabet points mapped to (2^20, 2^20) + p x 2^-24, planar metrics, N in -1..12 and the interval set: the same oracle as `lines`", mc.Opts{MaxDev: -1, Split: 2}, func(c *mc.Ctx) {
		dfi := c.Choose(2) // the two planar metrics
		n := 2 + c.Choose(3)
		ls := make(orb.LineString, n)
		for i := range ls {
			p := alphabet[c.Choose(len(alphabet))]
			ls[i] = orb.Point{1048576 + p[0]*math.Ldexp(1, -24), 1048576 + p[1]*math.Ldexp(1, -24)}
		}
		runLine(c, dfi, ls, small)
	})
	// lines whose length is not an integer, with intervals that "divide it exactly" in decimal only: the float
	// quotient then sits a few ulps below an integer (0.3/0.1 = 2.9999999999999996) and must be floored, not rounded
	fracL := []float64{0.3, 0.6, 0.7, 0.9, 1.2, 2.1}
	fracD := []float64{0.1, 0.2, 0.3, 0.7}
	r.Explore("fractional-lengths", fmt.Sprintf("lengths %v (one segment, two segments, a repeated vertex) x intervals %v: the count is floor(length/d)+1 with the quotient taken either exactly or in floats (both floors agree unless the float quotient rounds onto an integer)", fracL, fracD), mc.Opts{MaxDev: -1}, func(c *mc.Ctx) {
		L := fracL[c.Choose(len(fracL))]
		d := fracD[c.Choose(len(fracD))]
		var ls orb.LineString
		switch c.Choose(3) {
		case 0:
			ls = orb.LineString{{0, 0}, {L, 0}}
		case 1:
			ls = orb.LineString{{0, 0}, {L / 4, 0}, {L, 0}}
		case 2:
			ls = orb.LineString{{0, 0}, {0, 0}, {L, 0}}
		}
		total := 0.0
		for i := 1; i < len(ls); i++ {
			total += dist(ls[i-1], ls[i])
		}
		q := new(big.Rat).Quo(new(big.Rat).SetFloat64(total), new(big.Rat).SetFloat64(d))
		nExact := int(new(big.Int).Quo(q.Num(), q.Denom()).Int64()) + 1
		nFloat := int(math.Floor(total/d)) + 1
		out := resample.ToInterval(ls.Clone(), dist, d)
		if len(out) != nExact && len(out) != nFloat {
			c.Failf("count", "ToInterval(%v, d=%v) returned %d points; length/d = %v gives floor+1 = %d (exact quotient: %d)", ls, d, len(out), total/d, nFloat, nExact)
			return
		}
		if out[0] != ls[0] || (len(out) > 1 && out[len(out)-1] != ls[len(ls)-1]) {
			c.Failf("endpoints", "ToInterval(%v, d=%v) = %v does not start and end at the line's ends", ls, d, out)
		}
		c.NonTrivial()
	})
	// families: long lines and large counts (scratch arrays sized by the input or by N; up- and down-sampling)
	lens := []int{16, 100, 257, 1000}
	bigN := []int{2, 3, 13, 100, 257, 1000, 4097}
	r.Explore("families", fmt.Sprintf("3 distance functions x 4 families (3-4-5 zigzag, axis staircase with repeated vertices, there-and-back, one long segment among zero-length ones) x lengths %v x N in %v x the interval set", lens, bigN), mc.Opts{MaxDev: -1, Split: 2}, func(c *mc.Ctx) {
		dfi := c.Choose(len(dfs))
		f := c.Choose(4)
		n := lens[c.Choose(len(lens))]
		ls := make(orb.LineString, n)
		x, y := 0.0, 0.0
		for i := range ls {
			switch f {
			case 0: // 3-4-5 zigzag
				if i > 0 {
					x += 3
					if i%2 == 1 {
						y += 4
					} else {
						y -= 4
					}
				}
			case 1: // staircase, every third vertex repeated
				if i > 0 && i%3 != 0 {
					if i%2 == 0 {
						x++
					} else {
						y++
					}
				}
			case 2: // there and back along the same segment
				x = float64(i % 2 * 8)
			case 3: // zero-length segments around one long one
				if i >= n/2 {
					x = 1024
				}
			}
			ls[i] = orb.Point{x, y}
		}
		runLine(c, dfi, ls, bigN)
	})
	// curved lines: many segments of lengths that are not representable, so that sums taken in different orders
	// (total length vs running distance) differ in the last place
	curveN := []int{2, 3, 4, 5, 7, 13, 100}
	// a segment the metric measures as exactly zero between two different vertices: the antimeridian written as the
	// vertex pair (180,y),(-180,y) under geo.Distance (the planar metrics see a 360-long segment there)
	anti := []orb.LineString{
		{{170, 0}, {180, 0}, {-180, 0}, {-170, 0}},
		{{170, 45}, {180, 45}, {-180, 45}, {-170, 45}, {-170, 50}},
		{{-175, 10}, {-180, 10}, {180, 10}, {175, 10}},
		{{180, 0}, {-180, 0}, {-170, 0}},
		{{170, 0}, {180, 0}, {-180, 0}},
	}
	r.Explore("antimeridian-pair", fmt.Sprintf("3 distance functions x %d lines that cross the antimeridian through the vertex pair (180,y),(-180,y) x N in 2..9 x the interval set", len(anti)), mc.Opts{MaxDev: -1}, func(c *mc.Ctx) {
		dfi := c.Choose(len(dfs))
		runLine(c, dfi, anti[c.Choose(len(anti))].Clone(), []int{2, 3, 4, 5, 6, 7, 8, 9})
	})
	r.Explore("curved-families", fmt.Sprintf("3 distance functions x 4 curves (parabola (i, i^2/10), a small longitude/latitude parabola, a 0.1-step diagonal, equal (2,4)-degree steps towards the pole) x 2..40 vertices x N in %v x the interval set", curveN), mc.Opts{MaxDev: -1, Split: 2}, func(c *mc.Ctx) {
		dfi := c.Choose(len(dfs))
		f := c.Choose(4)
		n := 2 + c.Choose(39)
		if f == 3 && n > 20 {
			c.Skip() // latitude 4t stays below 80
			return
		}
		ls := make(orb.LineString, n)
		for i := range ls {
			t := float64(i)
			switch f {
			case 0:
				ls[i] = orb.Point{t, t * t / 10}
			case 1:
				ls[i] = orb.Point{-122.4 + 0.001*t, 37.7 + 0.0001*t*t}
			case 2:
				ls[i] = orb.Point{0.1 * t, 0.3 * t}
			case 3: // the same step over and over, towards the pole: equal in degrees, different in metres
				ls[i] = orb.Point{2 * t, 4 * t}
			}
		}
		runLine(c, dfi, ls, curveN)
	})
	r.Sample(map[string]interface{}{"line": "[[0,0],[3,4],[3,4],[6,8]]", "N": 5, "expected": "[[0,0],[1.5,2],[3,4],[4.5,6],[6,8]]"})
	r.Finish()
}
