// C06: Clone is deep, Equal is structural, Bound is the tight box; bound lattice laws; Reverse / Orientation.
package main

import (
	"fmt"
	"math"
	"math/big"
	"reflect"
	"sort"
	"unsafe"

	"github.com/paulmach/orb"

	"verif/lib/ev"
	"verif/lib/gg"
	"verif/lib/mc"
	"verif/lib/refgeom"
)

// -1 and 1 collide with the private empty-bound sentinel {(1,1),(-1,-1)}; the others expose it.
// the pair (0,0) is in the list: the zero point / zero bound is a value, not a marker for "unset"
var coords = []float64{5, -3, 2, 0, 0, 0, -1, 1, 3, 7, -2, 4, 6}

func addrs(g orb.Geometry) map[uintptr]bool {
	m := map[uintptr]bool{}
	switch g.(type) {
	case orb.Point, orb.Bound:
		return m
	}
	refgeom.Vertices(g, true, func(p *orb.Point) { m[uintptr(unsafe.Pointer(p))] = true })
	return m
}

func typedClone(g orb.Geometry) orb.Geometry {
	switch v := g.(type) {
	case orb.MultiPoint:
		return v.Clone()
	case orb.LineString:
		return v.Clone()
	case orb.Ring:
		return v.Clone()
	case orb.MultiLineString:
		return v.Clone()
	case orb.Polygon:
		return v.Clone()
	case orb.MultiPolygon:
		return v.Clone()
	case orb.Collection:
		return v.Clone()
	}
	return g
}

func checkValue(c *mc.Ctx, g orb.Geometry) {
	desc := fmt.Sprintf("%s %v", kindOf(g), g)
	before := refgeom.Bits(g)
	for ci, cl := range []orb.Geometry{orb.Clone(g), typedClone(g)} {
		if !refgeom.Equal(cl, g) {
			if rv := reflect.ValueOf(g); cl == nil && g != nil && rv.Kind() == reflect.Slice && rv.IsNil() && ci == 0 {
				// a typed nil slice at the top level: orb.Clone returns the untyped nil interface
				c.Failf("clone-typed-nil:returns-untyped-nil", "orb.Clone(%s(nil)) returns the nil interface, which orb.Equal does not consider equal to the original", kindOf(g))
				continue
			}
			c.Failf("clone-equal", "clone #%d %v differs from the original | %s", ci, cl, desc)
			continue
		}
		if !orb.Equal(cl, g) || !orb.Equal(g, cl) {
			c.Failf("clone-equal", "orb.Equal(clone, original) is false | %s", desc)
		}
		ga, ca := addrs(g), addrs(cl)
		for a := range ca {
			if ga[a] {
				c.Failf("clone-aliases", "clone #%d shares vertex memory with the original | %s", ci, desc)
				break
			}
		}
		// mutate every vertex of the clone: the original must not change; and the other way round
		snap := refgeom.Bits(cl)
		refgeom.Vertices(cl, true, func(p *orb.Point) {
			old := *p
			p[0] += 1000
			p[1] -= 1000
			if refgeom.Bits(g) != before {
				c.Failf("clone-aliases", "mutating a vertex of clone #%d changed the original | %s", ci, desc)
			}
			*p = old
		})
		refgeom.Vertices(g, true, func(p *orb.Point) {
			old := *p
			p[0] += 1000
			if _, isVal := g.(orb.Point); !isVal && refgeom.Bits(cl) != snap {
				c.Failf("clone-aliases", "mutating a vertex of the original changed clone #%d | %s", ci, desc)
			}
			*p = old
		})
	}
	if !orb.Equal(g, g) {
		c.Failf("equal-reflexive", "orb.Equal(g, g) is false | %s", desc)
	}
	// values that share memory with g but differ from it: a shorter or shifted view of one of its point lists or
	// member lists. Equal is structural: sharing the first element's address proves nothing about the lengths.
	for _, w := range views(g) {
		want := refgeom.Equal(g, w)
		if orb.Equal(g, w) != want || orb.Equal(w, g) != want {
			c.Failf("equal-aliased", "orb.Equal(g, view) = %v / %v, structurally %v, for the view %v that shares g's memory | %s", orb.Equal(g, w), orb.Equal(w, g), want, w, desc)
			break
		}
	}
	// the same value laid out as windows of one shared buffer: read-only calls must not write past their slices
	if wg, verify := refgeom.Windowed(g); wg != nil {
		wc := orb.Clone(wg)
		eq := orb.Equal(wg, g)
		wb := wg.Bound()
		if d := verify(); d != "" {
			c.Failf("read-only", "Clone/Equal/Bound on the windowed layout: %s | %s", d, desc)
		} else if !eq || refgeom.Struct(wc) != refgeom.Struct(orb.Clone(g)) || wb != g.Bound() {
			c.Failf("layout-dependent", "Clone/Equal/Bound give other results when the slices of the value share one buffer (equal=%v clone=%v bound=%v) | %s", eq, wc, wb, desc)
		}
	}
	// Bound: tight box of the vertices, empty iff there are none
	got := g.Bound()
	want, has := refgeom.TightBound(g)
	switch {
	case !has:
		if !got.IsEmpty() {
			c.Failf("bound-empty", "Bound() = %v of a geometry without vertices is not empty | %s", got, desc)
		}
	case got != want:
		cl := "bound-tight"
		if got.IsEmpty() {
			cl = "bound-empty"
		}
		c.Failf(cl, "Bound() = %v, the tight box of the vertices is %v | %s", got, want, desc)
	}
	if refgeom.Bits(g) != before {
		c.Failf("read-only", "Clone/Equal/Bound modified their argument | %s", desc)
	}
	// Reverse twice = identity; ring orientation negated
	switch v := g.(type) {
	case orb.LineString:
		w := v.Clone()
		func() {
			defer func() {
				if r := recover(); r != nil {
					c.Failf("panic:reverse-empty", "LineString(%v).Reverse() panicked: %v", v, r)
				}
			}()
			w.Reverse()
			for i := range w {
				if w[i] != v[len(v)-1-i] {
					c.Failf("reverse", "Reverse of %v gives %v", v, w)
					break
				}
			}
			w.Reverse()
			if refgeom.Struct(w) != refgeom.Struct(v) {
				c.Failf("reverse", "reversing %v twice gives %v", v, w)
			}
		}()
	case orb.Ring:
		w := v.Clone()
		func() {
			defer func() {
				if r := recover(); r != nil {
					cl := "panic:ring-empty"
					c.Failf(cl, "Ring(%v) Reverse()/Orientation() panicked: %v", v, r)
				}
			}()
			o := v.Orientation()
			w.Reverse()
			if o2 := w.Orientation(); o2 != -o {
				c.Failf("orientation", "Orientation %d, after Reverse %d | %v", o, o2, v)
			}
			w.Reverse()
			if refgeom.Struct(w) != refgeom.Struct(v) {
				c.Failf("reverse", "reversing ring %v twice gives %v", v, w)
			}
		}()
	}
	if has {
		c.NonTrivial()
	}
}

// views returns geometries of the same kind as g that share memory with it and differ from it in one length.
func views(g orb.Geometry) []orb.Geometry {
	var out []orb.Geometry
	pv := func(ps []orb.Point) [][]orb.Point {
		if len(ps) < 2 {
			return nil
		}
		return [][]orb.Point{ps[:len(ps)-1], ps[1:], ps[:1]}
	}
	switch v := g.(type) {
	case orb.MultiPoint:
		for _, w := range pv(v) {
			out = append(out, orb.MultiPoint(w))
		}
	case orb.LineString:
		for _, w := range pv(v) {
			out = append(out, orb.LineString(w))
		}
	case orb.Ring:
		for _, w := range pv(v) {
			out = append(out, orb.Ring(w))
		}
	case orb.Polygon:
		if len(v) >= 2 {
			out = append(out, v[:len(v)-1], v[1:])
		}
		for i := range v {
			for _, w := range pv(v[i]) {
				cp := append(orb.Polygon{}, v...)
				cp[i] = orb.Ring(w)
				out = append(out, cp)
			}
		}
	case orb.MultiLineString:
		if len(v) >= 2 {
			out = append(out, v[:len(v)-1], v[1:])
		}
		for i := range v {
			for _, w := range pv(v[i]) {
				cp := append(orb.MultiLineString{}, v...)
				cp[i] = orb.LineString(w)
				out = append(out, cp)
			}
		}
	case orb.MultiPolygon:
		if len(v) >= 2 {
			out = append(out, v[:len(v)-1], v[1:])
		}
		for i := range v {
			for _, w := range views(v[i]) {
				cp := append(orb.MultiPolygon{}, v...)
				cp[i] = w.(orb.Polygon)
				out = append(out, cp)
			}
		}
	case orb.Collection:
		if len(v) >= 2 {
			out = append(out, v[:len(v)-1], v[1:])
		}
		for i := range v {
			for _, w := range views(v[i]) {
				cp := append(orb.Collection{}, v...)
				cp[i] = w
				out = append(out, cp)
			}
		}
	}
	return out
}

// isNilGeometry: the nil interface or a typed nil slice at the top level (Round returns nil for those).
func isNilGeometry(g orb.Geometry) bool {
	if g == nil {
		return true
	}
	return refgeom.Bits(g) != refgeom.Struct(g) && len(fmt.Sprint(g)) <= 2 && refgeom.Bits(orb.Clone(g)) != refgeom.Bits(g)
}

// h2 applies holder hi when it is one of the kind-agnostic ones
func h2(hs []func(orb.Geometry) orb.Geometry, hi int, g orb.Geometry) orb.Geometry {
	if hi >= len(hs) {
		return nil
	}
	return hs[hi](g)
}

func kindOf(g orb.Geometry) string {
	if g == nil {
		return "nil"
	}
	return fmt.Sprintf("%T", g)
}

func main() {
	r := ev.New("C06", "exploration")
	r.Rule = "geometry grammar G(k,m): every shape of the eight non-collection kinds with 0..k points per part and 0..m parts (typed nil slices, empty and single-vertex members before non-empty ones) in full product, collections nested to depth 3 within a deviation bound; coordinates are assigned positionally from a list of pairwise distinct values chosen to collide with the empty-bound sentinel (1,1)/(-1,-1); all ordered pairs of a sub-universe for Equal; all pairs and triples of boxes for the lattice laws; non-trivial = the geometry has at least one vertex"
	r.Assume = []string{
		"coordinates exclude NaN (Equal is then reflexive); -0/0 are not distinguished by Equal, as == does",
		"nil and empty slices are the same value for Equal",
		"collections never hold nil members (the quantifier excludes them)",
	}
	k, m := ev.Pick(r, 2, 3), 3
	mkGen := func() (*gg.Gen, func(int)) {
		next, reset := gg.CyclicAt(coords)
		return &gg.Gen{K: k, M: m, Depth: 3, NilSlice: true, SortBound: true, Next: next}, reset
	}
	type loc struct {
		g     *gg.Gen
		reset func(int)
	}
	newLocal := func(int) interface{} { g, rs := mkGen(); return &loc{g, rs} }
	r.Explore("values-noncollection", fmt.Sprintf("full product of the 8 non-collection kinds, k=%d m=%d", k, m), mc.Opts{MaxDev: -1, Split: 3, NewLocal: newLocal}, func(c *mc.Ctx) {
		l := c.Local().(*loc)
		l.reset(c.Choose((len(coords) + 1) / 2))
		kind := c.Choose(gg.KCollection)
		checkValue(c, l.g.Kind(c, kind, 0, true))
	})
	dev := ev.Pick(r, 6, 7)
	r.Explore("values-collections", fmt.Sprintf("collections nested to depth 3, members of all kinds, all shapes within %d deviations from the simplest", dev), mc.Opts{MaxDev: dev, Split: 3, NewLocal: newLocal}, func(c *mc.Ctx) {
		l := c.Local().(*loc)
		l.reset(c.Choose((len(coords) + 1) / 2))
		checkValue(c, l.g.Kind(c, gg.KCollection, 0, true))
	})

	// Orientation == sign of the shoelace area of the implicitly closed ring; Reverse negates it
	on := ev.Pick(r, 4, 5)
	r.Explore("orientation", fmt.Sprintf("every vertex list of 3..%d points on the 3x3 grid, unclosed and closed, also shrunk to a 5e-10th of its distance from the origin at two anchors: Orientation is the sign of the exact shoelace area, reversing negates it, reversing twice is the identity", on), mc.Opts{MaxDev: -1, Split: 2}, func(c *mc.Ctx) {
		n := 3 + c.Choose(on-2)
		ring := make(orb.Ring, n)
		var a2 int64
		xs := make([][2]int64, n)
		for i := range ring {
			k := c.Choose(9)
			xs[i] = [2]int64{int64(k % 3), int64(k / 3)}
			ring[i] = orb.Point{float64(k % 3), float64(k / 3)}
		}
		for i := range xs {
			p, q := xs[i], xs[(i+1)%n]
			a2 += p[0]*q[1] - q[0]*p[1]
		}
		want := orb.Orientation(0)
		if a2 > 0 {
			want = orb.CCW
		} else if a2 < 0 {
			want = orb.CW
		}
		for _, v := range []orb.Ring{ring, append(ring.Clone(), ring[0])} {
			if got := v.Orientation(); got != want {
				c.Failf("orientation", "Orientation(%v) = %d, the shoelace area of the (implicitly closed) ring has sign %d", v, got, want)
			}
			w := v.Clone()
			w.Reverse()
			if got := w.Orientation(); got != -want {
				c.Failf("orientation", "Orientation after Reverse of %v = %d, want %d", v, got, -want)
			}
			w.Reverse()
			if !w.Equal(v) {
				c.Failf("reverse", "reversing %v twice gives %v", v, w)
			}
		}
		// the same ring very small and far from the origin (a parcel given in degrees, a millimetre shape in mercator
		// metres): the sign of its area, computed exactly from the coordinates as they are stored, still decides
		for _, anchor := range []orb.Point{{-122.4194155, 37.7749295}, {1.3e7 + 0.5, 4.5e6 + 0.25}} {
			tiny := make(orb.Ring, n)
			for i, p := range ring {
				tiny[i] = orb.Point{anchor[0] + p[0]*math.Ldexp(1, -24)*math.Max(1, math.Abs(anchor[0])/128), anchor[1] + p[1]*math.Ldexp(1, -24)*math.Max(1, math.Abs(anchor[0])/128)}
			}
			sum := new(big.Rat)
			for i := range tiny {
				p, q := tiny[i], tiny[(i+1)%n]
				px, py, qx, qy := new(big.Rat).SetFloat64(p[0]), new(big.Rat).SetFloat64(p[1]), new(big.Rat).SetFloat64(q[0]), new(big.Rat).SetFloat64(q[1])
				sum.Add(sum, new(big.Rat).Sub(new(big.Rat).Mul(px, qy), new(big.Rat).Mul(qx, py)))
			}
			wantT := orb.Orientation(sum.Sign())
			if got := tiny.Orientation(); got != wantT {
				c.Failf("orientation", "Orientation(%v) = %d, the exact shoelace area of these coordinates has sign %d", tiny, got, wantT)
			}
			rv := tiny.Clone()
			rv.Reverse()
			if got := rv.Orientation(); got != -wantT {
				c.Failf("orientation", "Orientation after Reverse of %v = %d, want %d", tiny, got, -wantT)
			}
		}
		if a2 != 0 {
			c.NonTrivial()
		}
	})

	// Equal on all ordered pairs of a sub-universe (distinct by bit rendering)
	var uni []orb.Geometry
	{
		seen := map[string]bool{}
		next, reset := gg.Cyclic([]float64{0, 1, 0, 2})
		g := &gg.Gen{K: 3, M: 3, Depth: 2, NilSlice: true, SortBound: true, Next: next}
		collect := func(c *mc.Ctx) {
			reset()
			v := g.Geometry(c, 0, true)
			// variants differing from the base shape in exactly one coordinate
			nv := 0
			refgeom.Vertices(v, true, func(*orb.Point) { nv++ })
			if _, isPt := v.(orb.Point); !isPt && nv > 0 {
				if j := c.Choose(nv + 1); j > 0 {
					i := 0
					if b, ok := v.(orb.Bound); ok {
						if j == 1 {
							b.Min[0] -= 10
						} else {
							b.Max[1] += 10
						}
						v = b
					} else {
						refgeom.Vertices(v, true, func(p *orb.Point) {
							i++
							if i == j {
								p[j%2] += 10
							}
						})
					}
				}
			}
			if b := refgeom.Bits(v); !seen[b] {
				seen[b] = true
				uni = append(uni, v)
			}
		}
		mc.Explore(mc.Opts{Workers: 1, MaxDev: 5}, collect)
		uni = append(uni, nil)
		sort.SliceStable(uni, func(i, j int) bool { return refgeom.Bits(uni[i]) < refgeom.Bits(uni[j]) })
		if lim := ev.Pick(r, 1500, 6000); len(uni) > lim {
			uni = uni[:lim]
		}
	}
	r.Count("equal_universe", int64(len(uni)))
	r.Explore("equal-pairs", fmt.Sprintf("all ordered pairs of %d distinct values (all nine kinds, nil, nil/empty slices, values differing in one coordinate / one length / kind only)", len(uni)), mc.Opts{MaxDev: -1, Split: 1}, func(c *mc.Ctx) {
		a := uni[c.Choose(len(uni))]
		for _, b := range uni {
			want := refgeom.Equal(a, b)
			if got := orb.Equal(a, b); got != want {
				c.Failf("equal", "orb.Equal(%s %v, %s %v) = %v, structural equality is %v", kindOf(a), a, kindOf(b), b, got, want)
				return
			}
		}
		c.NonTrivial()
	})

	// one-vertex variants of longer sequences: equality must see a difference in every position - the first, the
	// last (the closing vertex of a closed ring included) and each one in between - from both sides, and through
	// every container
	r.Explore("equal-one-vertex-variants", "sequences of 1..7 vertices (closed rings and open ones) x the position of the one edited vertex x 6 kinds / containers: Equal is false in both directions, true for the untouched clone", mc.Opts{MaxDev: -1}, func(c *mc.Ctx) {
		n := 1 + c.Choose(7)
		closed := c.Bool()
		pos := c.Choose(n)
		base := make([]orb.Point, n)
		for i := range base {
			base[i] = orb.Point{float64(i % 3), float64(i / 3)}
		}
		if closed && n >= 2 {
			base[n-1] = base[0]
		}
		edited := append([]orb.Point(nil), base...)
		edited[pos][c.Choose(2)] += 0.5
		forms := []func(ps []orb.Point) orb.Geometry{
			func(ps []orb.Point) orb.Geometry { return orb.MultiPoint(ps) },
			func(ps []orb.Point) orb.Geometry { return orb.LineString(ps) },
			func(ps []orb.Point) orb.Geometry { return orb.Ring(ps) },
			func(ps []orb.Point) orb.Geometry { return orb.Polygon{{{0, 0}, {9, 0}, {9, 9}, {0, 0}}, orb.Ring(ps)} },
			func(ps []orb.Point) orb.Geometry {
				return orb.MultiPolygon{{{{0, 0}, {9, 0}, {9, 9}, {0, 0}}}, {orb.Ring(ps)}}
			},
			func(ps []orb.Point) orb.Geometry { return orb.MultiLineString{{{5, 5}}, orb.LineString(ps)} },
			func(ps []orb.Point) orb.Geometry {
				return orb.Collection{orb.Point{1, 1}, orb.Collection{orb.Ring(ps)}}
			},
		}
		for fi, f := range forms {
			a, b, a2 := f(base), f(edited), f(append([]orb.Point(nil), base...))
			if orb.Equal(a, b) || orb.Equal(b, a) {
				c.Failf("equal", "form %d: orb.Equal(%v, %v) = %v, reversed %v; vertex %d differs", fi, a, b, orb.Equal(a, b), orb.Equal(b, a), pos)
			}
			if !orb.Equal(a, a2) || !orb.Equal(a2, a) {
				c.Failf("equal", "form %d: orb.Equal(%v, its copy) is false", fi, a)
			}
			// the same coordinates with the other sign of zero agree under ==, hence the geometries are equal
			neg := append([]orb.Point(nil), base...)
			for i := range neg {
				for k := 0; k < 2; k++ {
					if neg[i][k] == 0 {
						neg[i][k] = math.Copysign(0, -1)
					}
				}
			}
			if z := f(neg); !orb.Equal(a, z) || !orb.Equal(z, a) {
				c.Failf("equal", "form %d: orb.Equal(%v, the same with negative zeros) = %v / %v", fi, a, orb.Equal(a, z), orb.Equal(z, a))
			}
		}
		c.NonTrivial()
	})

	// size: vertex lists far longer than the universes above (a copy, comparison or scan that works in blocks above some
	// length must still reach every vertex)
	longNs := []int{33, 64, 65, 128, 129, 257, 1025}
	r.Explore("long-values", fmt.Sprintf("vertex lists of %v points on a spiral x 6 kinds / containers x the edited position {first, around the middle, last}: the clone is equal and independent at that position, Equal sees the one edited vertex from both sides, the bound is the tight box, Reverse is the reversed list and an involution", longNs), mc.Opts{MaxDev: -1}, func(c *mc.Ctx) {
		n := longNs[c.Choose(len(longNs))]
		base := make([]orb.Point, n)
		for i := range base {
			a := float64(i) * 0.37
			base[i] = orb.Point{math.Round(float64(i)*math.Cos(a)*8) / 8, math.Round(float64(i)*math.Sin(a)*8) / 8}
		}
		pos := []int{0, 1, n/2 - 1, n / 2, n/2 + 1, n - 2, n - 1}[c.Choose(7)]
		forms := []func(ps []orb.Point) orb.Geometry{
			func(ps []orb.Point) orb.Geometry { return orb.MultiPoint(ps) },
			func(ps []orb.Point) orb.Geometry { return orb.LineString(ps) },
			func(ps []orb.Point) orb.Geometry { return orb.Ring(ps) },
			func(ps []orb.Point) orb.Geometry { return orb.Polygon{orb.Ring(ps), {{0, 0}, {1, 0}, {1, 1}, {0, 0}}} },
			func(ps []orb.Point) orb.Geometry { return orb.MultiLineString{{{5, 5}}, orb.LineString(ps)} },
			func(ps []orb.Point) orb.Geometry {
				return orb.Collection{orb.MultiPolygon{{orb.Ring(ps)}}, orb.Point{1, 1}}
			},
		}
		for fi, f := range forms {
			mk := func() orb.Geometry { return f(append([]orb.Point(nil), base...)) }
			g := mk()
			cl := orb.Clone(g)
			if !orb.Equal(cl, g) || !orb.Equal(g, cl) || !refgeom.Equal(cl, g) {
				c.Failf("clone-equal", "form %d, %d vertices: the clone differs from the original", fi, n)
				continue
			}
			// edit vertex pos of the clone: the original keeps its value, and equality sees the difference
			k := 0
			refgeom.Vertices(cl, true, func(p *orb.Point) {
				if k == pos+map[int]int{4: 1}[fi] { // the multi-line-string holds one vertex in front of the list
					p[1] += 0.5
				}
				k++
			})
			if !refgeom.Equal(g, mk()) {
				c.Failf("clone-shares-memory", "form %d, %d vertices: editing vertex %d of the clone changed the original", fi, n, pos)
			}
			if orb.Equal(cl, g) || orb.Equal(g, cl) {
				c.Failf("equal", "form %d, %d vertices: Equal does not see the edit of vertex %d (%v / %v)", fi, n, pos, orb.Equal(cl, g), orb.Equal(g, cl))
			}
			var all orb.MultiPoint
			refgeom.Vertices(g, true, func(p *orb.Point) { all = append(all, *p) })
			if fi == 3 {
				all = all[:n] // outer ring only
			}
			if tb, ok := refgeom.TightBound(all); !ok || g.Bound() != tb {
				c.Failf("bound-tight", "form %d, %d vertices: Bound() = %v, the tight box is %v", fi, n, g.Bound(), tb)
			}
		}
		ls := orb.LineString(append([]orb.Point(nil), base...))
		ls.Reverse()
		for i := range ls {
			if ls[i] != base[n-1-i] {
				c.Failf("reverse", "LineString.Reverse of %d vertices: position %d holds %v, want %v", n, i, ls[i], base[n-1-i])
				break
			}
		}
		rg := orb.Ring(append([]orb.Point(nil), base...))
		rg.Reverse()
		rg.Reverse()
		if !refgeom.Equal(rg, orb.Ring(base)) {
			c.Failf("reverse", "Ring.Reverse twice of %d vertices is not the identity", n)
		}
		c.NonTrivial()
	})

	// near-coincident coordinates: values one ulp, 5e-10 and 2e-9 apart. A comparison with a tolerance, however small,
	// makes the bound miss a vertex or Contains accept a point outside
	nearVals := []float64{1, math.Nextafter(1, 2), 1 + 5e-10, 1 - 5e-10, 1 + 2e-9, 1 - 1e-12}
	r.Explore("near-coincident", fmt.Sprintf("every list of 2..3 vertices with coordinates in %v (%d points): the bound of the list as multi-point / line / ring / polygon / collection is the exact min / max; Bound.Contains, Extend, Union and Intersects on the boxes spanned by two of the points agree with exact comparisons, Union commutes", nearVals, len(nearVals)*len(nearVals)), mc.Opts{MaxDev: -1, Split: 2}, func(c *mc.Ctx) {
		n := 2 + c.Choose(2)
		ps := make([]orb.Point, n)
		for i := range ps {
			ps[i] = orb.Point{nearVals[c.Choose(len(nearVals))], nearVals[c.Choose(len(nearVals))]}
		}
		want := orb.Bound{Min: ps[0], Max: ps[0]}
		for _, p := range ps[1:] {
			want.Min[0], want.Min[1] = math.Min(want.Min[0], p[0]), math.Min(want.Min[1], p[1])
			want.Max[0], want.Max[1] = math.Max(want.Max[0], p[0]), math.Max(want.Max[1], p[1])
		}
		cp := func() []orb.Point { return append([]orb.Point(nil), ps...) }
		for _, g := range []orb.Geometry{orb.MultiPoint(cp()), orb.LineString(cp()), orb.Ring(cp()), orb.Polygon{orb.Ring(cp())}, orb.MultiLineString{orb.LineString(cp()[:1]), orb.LineString(cp()[1:])},
			orb.MultiPolygon{{orb.Ring(cp()[:1])}, {orb.Ring(cp()[1:])}}, orb.Collection{ps[0], orb.MultiPoint(cp()[1:])}} {
			if b := g.Bound(); b != want {
				c.Failf("bound-tight", "%s %v: Bound() = %v, the exact box is %v", kindOf(g), g, b, want)
			}
		}
		// the first two points span a box; the last point is the probe
		a := orb.Bound{Min: orb.Point{math.Min(ps[0][0], ps[1][0]), math.Min(ps[0][1], ps[1][1])}, Max: orb.Point{math.Max(ps[0][0], ps[1][0]), math.Max(ps[0][1], ps[1][1])}}
		q := ps[n-1]
		in := q[0] >= a.Min[0] && q[0] <= a.Max[0] && q[1] >= a.Min[1] && q[1] <= a.Max[1]
		if a.Contains(q) != in {
			c.Failf("bound-contains", "%v.Contains(%v) = %v, exact comparison says %v", a, q, a.Contains(q), in)
		}
		ext := orb.Bound{Min: orb.Point{math.Min(a.Min[0], q[0]), math.Min(a.Min[1], q[1])}, Max: orb.Point{math.Max(a.Max[0], q[0]), math.Max(a.Max[1], q[1])}}
		if e := a.Extend(q); e != ext {
			c.Failf("bound-extend", "%v.Extend(%v) = %v, want %v", a, q, e, ext)
		}
		b := orb.Bound{Min: orb.Point{math.Min(ps[n-2][0], q[0]), math.Min(ps[n-2][1], q[1])}, Max: orb.Point{math.Max(ps[n-2][0], q[0]), math.Max(ps[n-2][1], q[1])}}
		un := orb.Bound{Min: orb.Point{math.Min(a.Min[0], b.Min[0]), math.Min(a.Min[1], b.Min[1])}, Max: orb.Point{math.Max(a.Max[0], b.Max[0]), math.Max(a.Max[1], b.Max[1])}}
		if u1, u2 := a.Union(b), b.Union(a); u1 != un || u2 != un {
			c.Failf("bound-union", "%v.Union(%v) = %v, reversed %v, want %v", a, b, u1, u2, un)
		}
		meet := a.Min[0] <= b.Max[0] && b.Min[0] <= a.Max[0] && a.Min[1] <= b.Max[1] && b.Min[1] <= a.Max[1]
		if a.Intersects(b) != meet || b.Intersects(a) != meet {
			c.Failf("bound-intersects", "%v.Intersects(%v) = %v / %v, exact comparison says %v", a, b, a.Intersects(b), b.Intersects(a), meet)
		}
		c.NonTrivial()
	})

	// nil against empty: a nil slice, an empty one and an empty one with spare capacity have the same (zero) length,
	// so they are equal - in both directions, directly through the typed method and through every container
	type emptyKind struct {
		name  string
		forms []orb.Geometry
		typed func(a, b orb.Geometry) bool
	}
	emptyKinds := []emptyKind{
		{"MultiPoint", []orb.Geometry{orb.MultiPoint(nil), orb.MultiPoint{}, make(orb.MultiPoint, 0, 3)}, func(a, b orb.Geometry) bool { return a.(orb.MultiPoint).Equal(b.(orb.MultiPoint)) }},
		{"LineString", []orb.Geometry{orb.LineString(nil), orb.LineString{}, make(orb.LineString, 0, 3)}, func(a, b orb.Geometry) bool { return a.(orb.LineString).Equal(b.(orb.LineString)) }},
		{"Ring", []orb.Geometry{orb.Ring(nil), orb.Ring{}, make(orb.Ring, 0, 3)}, func(a, b orb.Geometry) bool { return a.(orb.Ring).Equal(b.(orb.Ring)) }},
		{"MultiLineString", []orb.Geometry{orb.MultiLineString(nil), orb.MultiLineString{}, make(orb.MultiLineString, 0, 3)}, func(a, b orb.Geometry) bool { return a.(orb.MultiLineString).Equal(b.(orb.MultiLineString)) }},
		{"Polygon", []orb.Geometry{orb.Polygon(nil), orb.Polygon{}, make(orb.Polygon, 0, 3)}, func(a, b orb.Geometry) bool { return a.(orb.Polygon).Equal(b.(orb.Polygon)) }},
		{"MultiPolygon", []orb.Geometry{orb.MultiPolygon(nil), orb.MultiPolygon{}, make(orb.MultiPolygon, 0, 3)}, func(a, b orb.Geometry) bool { return a.(orb.MultiPolygon).Equal(b.(orb.MultiPolygon)) }},
		{"Collection", []orb.Geometry{orb.Collection(nil), orb.Collection{}, make(orb.Collection, 0, 3)}, func(a, b orb.Geometry) bool { return a.(orb.Collection).Equal(b.(orb.Collection)) }},
	}
	// containers that hold the value at the same index on both sides (nil when the kind does not fit the container)
	emptyHolders := []func(g orb.Geometry) orb.Geometry{
		func(g orb.Geometry) orb.Geometry { return g },
		func(g orb.Geometry) orb.Geometry { return orb.Collection{g} },
		func(g orb.Geometry) orb.Geometry {
			return orb.Collection{orb.Point{1, 2}, orb.Collection{g}, orb.LineString{{3, 4}}}
		},
		func(g orb.Geometry) orb.Geometry {
			switch v := g.(type) {
			case orb.Ring:
				return orb.Polygon{{{0, 0}, {1, 0}, {1, 1}, {0, 0}}, v}
			case orb.LineString:
				return orb.MultiLineString{v, {{5, 5}, {6, 6}}}
			case orb.Polygon:
				return orb.MultiPolygon{{{{0, 0}, {1, 0}, {1, 1}, {0, 0}}}, v}
			}
			return nil
		},
		func(g orb.Geometry) orb.Geometry {
			switch v := g.(type) {
			case orb.Ring:
				return orb.MultiPolygon{{v}, {{{0, 0}, {1, 0}, {1, 1}, {0, 0}}}}
			case orb.Polygon:
				return orb.Collection{orb.MultiPolygon{v}}
			}
			return nil
		},
	}
	r.Explore("empty-forms", "7 slice kinds x ordered pairs of {nil, empty, empty with spare capacity} x 5 holders (bare, in a collection, in a nested collection, as a ring / line / polygon member at the same index): equal in both directions through orb.Equal and the typed method, never equal to the empty value of another kind, clones equal; the clone of an empty value with spare capacity does not hand out that capacity", mc.Opts{MaxDev: -1}, func(c *mc.Ctx) {
		k := emptyKinds[c.Choose(len(emptyKinds))]
		i, j := c.Choose(len(k.forms)), c.Choose(len(k.forms))
		a, b := k.forms[i], k.forms[j]
		if !k.typed(a, b) {
			c.Failf("equal", "%s: form %d .Equal(form %d) is false (forms: nil, empty, empty with capacity)", k.name, i, j)
		}
		// an empty value with spare capacity (a reset buffer, s[:0]) still owns memory: its clone must not hand that
		// memory out - growing the clone within its capacity leaves the slots behind the original untouched
		spareClone := func(mk func() orb.Geometry, holder func(orb.Geometry) orb.Geometry, what string) {
			orig := mk()
			cl := orb.Clone(holder(orig))
			var inner reflect.Value
			found := false
			var walk func(v reflect.Value)
			walk = func(v reflect.Value) {
				if found {
					return
				}
				if v.Kind() == reflect.Interface {
					if v.IsNil() {
						return
					}
					v = v.Elem()
				}
				if v.Kind() != reflect.Slice {
					return
				}
				if v.Type() == reflect.TypeOf(orig) && v.Len() == 0 {
					inner, found = v, true
					return
				}
				for q := 0; q < v.Len(); q++ {
					walk(v.Index(q))
				}
			}
			walk(reflect.ValueOf(cl))
			if !found || inner.Cap() == 0 {
				return // a fresh (or nil) value: nothing shared
			}
			slot := inner.Slice(0, 1).Index(0)
			switch slot.Kind() {
			case reflect.Array: // a point
				slot.Index(0).SetFloat(77)
			case reflect.Slice: // a line, ring or polygon
				slot.Set(reflect.MakeSlice(slot.Type(), 1, 1))
			case reflect.Interface:
				slot.Set(reflect.ValueOf(orb.Geometry(orb.Point{77, 77})))
			}
			if back := reflect.ValueOf(orig).Slice(0, 1).Index(0); !back.IsZero() {
				c.Failf("clone-shares-memory", "%s: writing into the spare capacity of the clone of an empty %s changed the slot behind the original to %v", what, k.name, back.Interface())
			}
		}
		if i == 2 {
			mk := map[string]func() orb.Geometry{
				"MultiPoint":      func() orb.Geometry { return make(orb.MultiPoint, 0, 3) },
				"LineString":      func() orb.Geometry { return make(orb.LineString, 0, 3) },
				"Ring":            func() orb.Geometry { return make(orb.Ring, 0, 3) },
				"MultiLineString": func() orb.Geometry { return make(orb.MultiLineString, 0, 3) },
				"Polygon":         func() orb.Geometry { return make(orb.Polygon, 0, 3) },
				"MultiPolygon":    func() orb.Geometry { return make(orb.MultiPolygon, 0, 3) },
				"Collection":      func() orb.Geometry { return make(orb.Collection, 0, 3) },
			}[k.name]
			for hi, h := range emptyHolders {
				if h(mk()) != nil {
					spareClone(mk, h, fmt.Sprintf("holder %d", hi))
				}
			}
		}
		for hi, h := range emptyHolders {
			ha, hb := h(a), h(b)
			if ha == nil {
				continue
			}
			if !orb.Equal(ha, hb) {
				c.Failf("equal", "%s holder %d: orb.Equal(%#v, %#v) is false: the two differ only in nil / empty / spare capacity of one %s", k.name, hi, ha, hb, k.name)
			}
			// (the clone of a nil slice is the recorded finding of this property; values-* parts observe it)
			if cl := orb.Clone(ha); i > 0 && (!orb.Equal(cl, hb) || !orb.Equal(hb, cl)) {
				c.Failf("equal", "%s holder %d: the clone of %#v and %#v are not equal", k.name, hi, ha, hb)
			}
			for _, o := range emptyKinds {
				if o.name == k.name {
					continue
				}
				if ho := h2(emptyHolders[:3], hi, o.forms[j]); ho != nil && (orb.Equal(ha, ho) || orb.Equal(ho, ha)) {
					c.Failf("equal", "%s holder %d: %#v equals %#v, which holds an empty %s instead", k.name, hi, ha, ho, o.name)
				}
			}
		}
		c.NonTrivial()
	})

	// Bound lattice laws
	var boxes []orb.Bound
	cs := []float64{-3, 0, 1, 2}
	for _, x0 := range cs {
		for _, x1 := range cs {
			for _, y0 := range cs {
				for _, y1 := range cs {
					if x0 <= x1 && y0 <= y1 {
						boxes = append(boxes, orb.Bound{Min: orb.Point{x0, y0}, Max: orb.Point{x1, y1}})
					}
				}
			}
		}
	}
	nonEmpty := len(boxes)
	boxes = append(boxes, orb.MultiPoint{}.Bound(), orb.Bound{Min: orb.Point{2, 0}, Max: orb.Point{0, 2}},
		orb.Bound{Min: orb.Point{0, 2}, Max: orb.Point{2, 0}}, orb.Bound{Min: orb.Point{2, 2}, Max: orb.Point{0, 0}}) // inverted on x, on y, on both
	same := func(a, b orb.Bound) bool { return a == b || (a.IsEmpty() && b.IsEmpty()) }
	tight := func(bs ...orb.Bound) (orb.Bound, bool) {
		var mp orb.MultiPoint
		for _, b := range bs {
			if !b.IsEmpty() {
				mp = append(mp, b.Min, b.Max)
			}
		}
		return refgeom.TightBound(mp)
	}
	// nil members: a collection may hold nil geometries (orb.AllGeometries starts with one); they count for nothing in
	// the bound, survive cloning as nil, and compare equal to themselves
	nilMenu := []orb.Geometry{nil, orb.Point{-7, -6}, orb.LineString{{2, 3}, {4, 1}}, orb.MultiPoint{}, orb.Polygon{{{5, 5}, {6, 5}, {6, 7}, {5, 5}}}}
	r.Explore("nil-members", fmt.Sprintf("every collection of 1..3 members over %d shapes (a nil geometry among them), flat and nested in another collection: Bound is the tight box of the non-nil members' vertices (empty when there are none), Clone keeps the nils, Equal is reflexive", len(nilMenu)), mc.Opts{MaxDev: -1}, func(c *mc.Ctx) {
		n := 1 + c.Choose(3)
		var col, rest orb.Collection
		hasNil := false
		for i := 0; i < n; i++ {
			m := nilMenu[c.Choose(len(nilMenu))]
			col = append(col, m)
			if m == nil {
				hasNil = true
			} else {
				rest = append(rest, m)
			}
		}
		if !hasNil {
			c.Skip()
			return
		}
		for fi, form := range []orb.Collection{col, {orb.Point{9, 9}, col}, {col}} {
			var wr orb.Collection
			switch fi {
			case 0:
				wr = rest
			case 1:
				wr = orb.Collection{orb.Point{9, 9}, rest}
			case 2:
				wr = orb.Collection{rest}
			}
			want, has := refgeom.TightBound(wr)
			got := form.Bound()
			if has && got != want || !has && !got.IsEmpty() {
				c.Failf("nil-member-bound", "Bound() of %v = %v, the non-nil members give %v (any vertices: %v)", form, got, want, has)
				return
			}
			cl, ok := orb.Clone(form).(orb.Collection)
			if !ok || len(cl) != len(form) || !orb.Equal(cl, form) || !orb.Equal(form, form) {
				c.Failf("nil-member-clone", "Clone / Equal of %v: clone %v", form, cl)
				return
			}
		}
		// a nil member equals a nil member and nothing else: the collection with the nil replaced by a geometry (and
		// the other way round) is another collection, from both sides, flat and nested
		for i, m := range col {
			other := append(orb.Collection(nil), col...)
			if m == nil {
				other[i] = orb.Point{5, 5}
			} else {
				other[i] = nil
			}
			for _, pair := range [][2]orb.Geometry{{col, other}, {orb.Collection{orb.Point{9, 9}, col}, orb.Collection{orb.Point{9, 9}, other}}} {
				if orb.Equal(pair[0], pair[1]) || orb.Equal(pair[1], pair[0]) || refgeom.Equal(pair[0], pair[1]) {
					c.Failf("nil-member-equal", "orb.Equal(%v, %v) = %v / %v: member %d is nil on one side only", pair[0], pair[1], orb.Equal(pair[0], pair[1]), orb.Equal(pair[1], pair[0]), i)
					return
				}
			}
		}
		c.NonTrivial()
	})
	// bound methods: accessors, corners, ring / polygon forms, padding; and orb.Round under every factor
	r.Explore("bound-methods", fmt.Sprintf("%d boxes x pads {-2,-0.5,0,0.25,1,3}: Left/Right/Top/Bottom/LeftTop/RightBottom/Center, ToRing (5 points, counter-clockwise from Min, closed), ToPolygon, Pad additive, IsZero, IsEmpty, Equal", len(boxes)), mc.Opts{MaxDev: -1}, func(c *mc.Ctx) {
		b := boxes[c.Choose(len(boxes))]
		d := []float64{-2, -0.5, 0, 0.25, 1, 3}[c.Choose(6)]
		if b.Left() != b.Min[0] || b.Right() != b.Max[0] || b.Bottom() != b.Min[1] || b.Top() != b.Max[1] ||
			b.LeftTop() != (orb.Point{b.Min[0], b.Max[1]}) || b.RightBottom() != (orb.Point{b.Max[0], b.Min[1]}) ||
			b.Center() != (orb.Point{(b.Min[0] + b.Max[0]) / 2, (b.Min[1] + b.Max[1]) / 2}) || b.Bound() != b || !b.Equal(b) {
			c.Failf("bound-methods", "accessors of %v disagree with Min/Max: left %v right %v bottom %v top %v lefttop %v rightbottom %v center %v", b, b.Left(), b.Right(), b.Bottom(), b.Top(), b.LeftTop(), b.RightBottom(), b.Center())
		}
		wantRing := orb.Ring{b.Min, {b.Max[0], b.Min[1]}, b.Max, {b.Min[0], b.Max[1]}, b.Min}
		if rg := b.ToRing(); !rg.Equal(wantRing) {
			c.Failf("bound-methods", "%v.ToRing() = %v, want %v", b, rg, wantRing)
		}
		if pg := b.ToPolygon(); len(pg) != 1 || !pg[0].Equal(wantRing) {
			c.Failf("bound-methods", "%v.ToPolygon() = %v, want the one-ring polygon of %v", b, pg, wantRing)
		}
		p := b.Pad(d)
		if p.Min != (orb.Point{b.Min[0] - d, b.Min[1] - d}) || p.Max != (orb.Point{b.Max[0] + d, b.Max[1] + d}) {
			c.Failf("bound-methods", "%v.Pad(%v) = %v", b, d, p)
		}
		if pp := b.Pad(d).Pad(0.5); pp != b.Pad(d+0.5) {
			c.Failf("bound-methods", "%v.Pad(%v).Pad(0.5) = %v, Pad(%v) = %v", b, d, pp, d+0.5, b.Pad(d+0.5))
		}
		if b.IsZero() != (b.Min == orb.Point{} && b.Max == orb.Point{}) || b.IsEmpty() != (b.Min[0] > b.Max[0] || b.Min[1] > b.Max[1]) {
			c.Failf("bound-methods", "IsZero / IsEmpty of %v = %v / %v", b, b.IsZero(), b.IsEmpty())
		}
		if other := boxes[(c.Trail()[0]+1)%len(boxes)]; b.Equal(other) != (b == other) {
			c.Failf("bound-methods", "%v.Equal(%v) = %v", b, other, b.Equal(other))
		}
		c.NonTrivial()
	})
	roundCoords := []float64{0, -0.0000004, 0.0000005, 1.23456789, -1.23456749, 12345.678951, 0.05, 0.15, -2.5, 1e15 + 0.3, 7}
	for _, drf := range []float64{1e6, 100} {
		orb.DefaultRoundingFactor = drf
		r.Explore(fmt.Sprintf("round-default-%v", drf), fmt.Sprintf("orb.DefaultRoundingFactor = %v: the 8 non-collection kinds and collections (k=2,m=2, within 6 deviations) over %d coordinates that sit on and next to rounding boundaries x factor {default, 1, 10, 1000}: every coordinate becomes math.Round(x*f)/f in place, structure kept, rounding twice changes nothing", drf, len(roundCoords)), mc.Opts{MaxDev: 8, Split: 2, NewLocal: func(int) interface{} {
			next, reset := gg.CyclicAt(roundCoords)
			return &loc{&gg.Gen{K: 2, M: 2, Depth: 2, NilSlice: true, SortBound: true, Next: next}, reset}
		}}, func(c *mc.Ctx) {
			l := c.Local().(*loc)
			l.reset(c.Choose(len(roundCoords)))
			fi := c.Choose(4)
			g := l.g.Kind(c, c.Choose(gg.KCollection+1), 0, true)
			f := []float64{orb.DefaultRoundingFactor, 1, 10, 1000}[fi]
			want := refgeom.Map(g, func(p orb.Point) orb.Point { return orb.Point{math.Round(p[0]*f) / f, math.Round(p[1]*f) / f} })
			arg := orb.Clone(g)
			var got orb.Geometry
			if fi == 0 {
				got = orb.Round(arg)
			} else {
				got = orb.Round(arg, int(f))
			}
			if isNilGeometry(g) {
				return
			}
			if refgeom.Bits(got) != refgeom.Bits(want) {
				c.Failf("round", "orb.Round(%T %v, factor %v) = %v, want %v", g, g, f, got, want)
				return
			}
			var again orb.Geometry
			if fi == 0 {
				again = orb.Round(orb.Clone(got))
			} else {
				again = orb.Round(orb.Clone(got), int(f))
			}
			if refgeom.Bits(again) != refgeom.Bits(got) {
				c.Failf("round", "rounding %v again with factor %v gives %v", got, f, again)
			}
			c.NonTrivial()
		})
	}
	orb.DefaultRoundingFactor = 1e6
	r.Explore("bound-lattice", fmt.Sprintf("all triples of %d boxes (%d non-empty over corners {-3,0,1,2}^2, the empty sentinel, boxes inverted on x / on y / on both) and all 36 lattice points: union commutative / associative / idempotent / tight, extend, contains, intersects, clip.Bound-free absorption", len(boxes), nonEmpty),
		mc.Opts{MaxDev: -1, Split: 2}, func(c *mc.Ctx) {
			a, b, d := boxes[c.Choose(len(boxes))], boxes[c.Choose(len(boxes))], boxes[c.Choose(len(boxes))]
			desc := fmt.Sprintf("a=%v b=%v c=%v", a, b, d)
			ab, ba := a.Union(b), b.Union(a)
			cls := func(base string, bs ...orb.Bound) string {
				for _, x := range bs {
					if x.IsEmpty() {
						return base + ":empty-operand"
					}
				}
				return base
			}
			if !same(ab, ba) {
				c.Failf(cls("union-commutative", a, b), "a.Union(b) = %v, b.Union(a) = %v | %s", ab, ba, desc)
			}
			if w, ok := tight(a, b); ok && ab != w {
				c.Failf(cls("union-tight", a, b), "a.Union(b) = %v, want the tight box %v | %s", ab, w, desc)
			} else if !ok && !ab.IsEmpty() {
				c.Failf(cls("union-tight", a, b), "union of two empty boxes = %v is not empty | %s", ab, desc)
			}
			if l, rr := a.Union(b).Union(d), a.Union(b.Union(d)); !same(l, rr) {
				c.Failf(cls("union-associative", a, b, d), "(a∪b)∪c = %v, a∪(b∪c) = %v | %s", l, rr, desc)
			}
			if aa := a.Union(a); !same(aa, a) {
				c.Failf(cls("union-idempotent", a), "a.Union(a) = %v | %s", aa, desc)
			}
			// intersects == interval arithmetic (empty boxes intersect nothing)
			wi := !a.IsEmpty() && !b.IsEmpty() && a.Min[0] <= b.Max[0] && b.Min[0] <= a.Max[0] && a.Min[1] <= b.Max[1] && b.Min[1] <= a.Max[1]
			if gi := a.Intersects(b); gi != wi {
				c.Failf(cls("intersects", a, b), "a.Intersects(b) = %v, interval arithmetic says %v | %s", gi, wi, desc)
			}
			if a.Intersects(b) != b.Intersects(a) {
				c.Failf(cls("intersects-symmetric", a, b), "Intersects is not symmetric | %s", desc)
			}
			for _, x := range []float64{-4, -3, 0, 0.5, 2, 3} {
				for _, y := range []float64{-4, -3, 0, 0.5, 2, 3} {
					p := orb.Point{x, y}
					wc := !a.IsEmpty() && a.Min[0] <= x && x <= a.Max[0] && a.Min[1] <= y && y <= a.Max[1]
					if a.Contains(p) != wc {
						c.Failf(cls("contains", a), "a.Contains(%v) = %v want %v | %s", p, a.Contains(p), wc, desc)
					}
					if wc && !ab.Contains(p) {
						c.Failf(cls("union-monotone", a, b), "a contains %v but a.Union(b) = %v does not | %s", p, ab, desc)
					}
					e := a.Extend(p)
					w, _ := tight(a, orb.Bound{Min: p, Max: p})
					if e != w {
						c.Failf(cls("extend", a), "a.Extend(%v) = %v, want the tight box %v | %s", p, e, w, desc)
					}
				}
			}
			if !a.IsEmpty() && !b.IsEmpty() && a != b {
				c.NonTrivial()
			}
		})
	r.Sample(map[string]interface{}{"geometry": "MultiLineString{{}, {{5,-3}}}", "expected_bound": "{[5,-3],[5,-3]}", "note": "an empty member precedes a non-empty one"})
	r.Finish()
}
