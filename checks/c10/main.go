// C10: planar area, centroid, length and distance equal their exact values.
package main

import (
	"fmt"
	"math"
	"math/big"

	"github.com/paulmach/orb"
	"github.com/paulmach/orb/planar"

	"verif/lib/ev"
	"verif/lib/exact"
	"verif/lib/refgeom"
	"verif/lib/mc"
)

type ipt [2]int64

// transforms keep |v| <= 2^20 for grid coordinates {0,2,4,6} and queries -1..7
var transforms = []struct {
	name   string
	scale  int64
	dx, dy int64
}{
	{"identity", 1, 0, 0},
	{"scale 2^17", 1 << 17, 0, 0},
	{"translate (2^20-7, -2^20+1)", 1, 1<<20 - 7, -(1 << 20) + 1},
	{"scale 2^16, translate (-2^19, 2^19)", 1 << 16, -(1 << 19), 1 << 19},
}

func tr(t int, p ipt) ipt {
	x := transforms[t]
	return ipt{p[0]*x.scale + x.dx, p[1]*x.scale + x.dy}
}

// scaledMeasures: every coordinate multiplied by 2^-40 (exact in float64) must give the bit-for-bit scaled centroid,
// area (by the square) and length: an absolute epsilon anywhere in the formulas shows at that magnitude.
func scaledMeasures(c *mc.Ctx, g orb.Geometry, desc func() string) {
	const k = 1.0 / (1 << 40)
	cen, a := planar.CentroidArea(g)
	l := planar.Length(g)
	sg := refgeom.Scale(g, k)
	sc, sa := planar.CentroidArea(sg)
	same := func(x, y float64) bool { return x == y || (x != x && y != y) }
	if !same(sa, a*k*k) || !same(sc[0], cen[0]*k) || !same(sc[1], cen[1]*k) || !same(planar.Length(sg), l*k) {
		c.Failf("scaling", "scaled by 2^-40: centroid %v area %v length %v; unscaled %v, %v, %v | %s", sc, sa, planar.Length(sg), cen, a, l, desc())
	}
}

// scaledDistance is the same device for a point-to-geometry distance.
func scaledDistance(c *mc.Ctx, g orb.Geometry, q orb.Point, desc func() string) {
	const k = 1.0 / (1 << 40)
	d := planar.DistanceFrom(g, q)
	if sd := planar.DistanceFrom(refgeom.Scale(g, k), orb.Point{q[0] * k, q[1] * k}); sd != d*k && !(sd != sd && d != d) {
		c.Failf("scaling", "scaled by 2^-40: DistanceFrom(%v) = %v, unscaled %v | %s", q, sd, d, desc())
	}
}

func fpt(p ipt) orb.Point { return orb.Point{float64(p[0]), float64(p[1])} }

func rat(n int64) *big.Rat { return new(big.Rat).SetInt64(n) }

// exact twice-area and centroid numerators of an implicitly closed ring
func exactRing(r []ipt) (area2 *big.Int, cx, cy *big.Rat) {
	a2 := new(big.Int)
	sx, sy := new(big.Int), new(big.Int)
	n := len(r)
	for i := 0; i < n; i++ {
		p, q := r[i], r[(i+1)%n]
		cr := new(big.Int).Sub(new(big.Int).Mul(big.NewInt(p[0]), big.NewInt(q[1])), new(big.Int).Mul(big.NewInt(q[0]), big.NewInt(p[1])))
		a2.Add(a2, cr)
		sx.Add(sx, new(big.Int).Mul(big.NewInt(p[0]+q[0]), cr))
		sy.Add(sy, new(big.Int).Mul(big.NewInt(p[1]+q[1]), cr))
	}
	if a2.Sign() == 0 {
		return a2, nil, nil
	}
	d := new(big.Int).Mul(big.NewInt(3), a2) // 6A = 3*area2
	return a2, new(big.Rat).SetFrac(sx, d), new(big.Rat).SetFrac(sy, d)
}

func f64(r *big.Rat) float64 { f, _ := r.Float64(); return f }

// exact squared distance from point to segment as a rational
func segDist2(a, b, p ipt) *big.Rat {
	dx, dy := b[0]-a[0], b[1]-a[1]
	if dx == 0 && dy == 0 {
		return rat((p[0]-a[0])*(p[0]-a[0]) + (p[1]-a[1])*(p[1]-a[1]))
	}
	num := (p[0]-a[0])*dx + (p[1]-a[1])*dy
	den := dx*dx + dy*dy
	switch {
	case num <= 0:
		return rat((p[0]-a[0])*(p[0]-a[0]) + (p[1]-a[1])*(p[1]-a[1]))
	case num >= den:
		return rat((p[0]-b[0])*(p[0]-b[0]) + (p[1]-b[1])*(p[1]-b[1]))
	}
	// |cross|^2 / den
	cr := new(big.Int).Sub(new(big.Int).Mul(big.NewInt(dx), big.NewInt(p[1]-a[1])), new(big.Int).Mul(big.NewInt(dy), big.NewInt(p[0]-a[0])))
	return new(big.Rat).SetFrac(new(big.Int).Mul(cr, cr), big.NewInt(den))
}

func zeroSuffix(p orb.Point) string {
	if p == (orb.Point{}) {
		return ":returns-origin"
	}
	return ":other"
}

func relClose(got, want, scale float64) bool {
	return math.Abs(got-want) <= 1e-9*math.Max(scale, math.Abs(want))
}

func main() {
	r := ev.New("C10", "exploration")
	r.Rule = "every vertex list of the stated lengths on the grid {0,2,4,6}^2 under 4 integer similarity transforms keeping |v| <= 2^20 (so the float computation can be compared with exact big-integer arithmetic), closed and unclosed; every query point of the transformed integer lattice [-1,7]^2; polygons with nested holes, multi-polygons and mixed collections from catalogues; an execution is one (ring, transform); non-trivial = non-zero area"
	r.Assume = []string{
		"area is required to be exactly the big-integer shoelace value (all intermediate products are exact in float64 for |v| <= 2^20); centroid, length and distance are compared within a relative 1e-9",
		"rings are given closed for DistanceFrom (orb does not add an implicit closing segment for distance)",
		"general-position floats are not explored",
	}
	ringPart := func(n int) func(c *mc.Ctx) {
		return func(c *mc.Ctx) {
			t := c.Choose(len(transforms))
			base := make([]ipt, n)
			for i := range base {
				k := c.Choose(16)
				base[i] = ipt{int64(2 * (k % 4)), int64(2 * (k / 4))}
			}
			ir := make([]ipt, n)
			ring := make(orb.Ring, n, n+1)
			for i := range base {
				ir[i] = tr(t, base[i])
				ring[i] = fpt(ir[i])
			}
			scale := float64(transforms[t].scale)
			closed := append(ring.Clone(), ring[0])
			a2, cx, cy := exactRing(ir)
			wantArea := f64(new(big.Rat).SetFrac(a2, big.NewInt(2)))
			desc := func() string { return fmt.Sprintf("transform=%q ring=%v", transforms[t].name, closed) }
			for vi, v := range []orb.Ring{closed, ring} {
				cen, area := planar.CentroidArea(v)
				if t == 0 {
					scaledMeasures(c, v, desc)
				}
				if area != wantArea {
					c.Failf("area", "Area = %v, exact shoelace = %v (spelling %d) | %s", area, wantArea, vi, desc())
				}
				if planar.Area(v) != area {
					c.Failf("area", "Area and CentroidArea disagree | %s", desc())
				}
				if a2.Sign() != 0 {
					if o := int(v.Orientation()); (o > 0) != (a2.Sign() > 0) && vi == 0 {
						c.Failf("orientation", "Orientation = %d but signed area = %v | %s", o, wantArea, desc())
					}
					wx, wy := f64(cx), f64(cy)
					if !relClose(cen[0], wx, 4*scale) || !relClose(cen[1], wy, 4*scale) {
						c.Failf("centroid", "centroid = %v, exact = (%v,%v) (spelling %d) | %s", cen, wx, wy, vi, desc())
					}
				}
			}
			// polygon of the single ring: |area|
			if _, pa := planar.CentroidArea(orb.Polygon{closed}); pa != math.Abs(wantArea) {
				c.Failf("polygon-area", "Area(Polygon{ring}) = %v, want %v | %s", pa, math.Abs(wantArea), desc())
			}
			// length: sum of segment lengths
			wantLen := 0.0
			for i := 0; i < n; i++ {
				p, q := ir[i], ir[(i+1)%n]
				wantLen += math.Sqrt(float64((p[0]-q[0])*(p[0]-q[0]) + (p[1]-q[1])*(p[1]-q[1])))
			}
			if l := planar.Length(closed); !relClose(l, wantLen, 0) {
				c.Failf("length", "Length = %v, want %v | %s", l, wantLen, desc())
			}
			if l := planar.Length(orb.LineString(closed)); !relClose(l, wantLen, 0) {
				c.Failf("length", "Length(LineString) = %v, want %v | %s", l, wantLen, desc())
			}
			// the same vertices without the closing point: the stored segments are one fewer, and the length is their
			// sum whether the list is called a ring, a line, or the outer ring / hole of a polygon
			{
				openLen := 0.0
				for i := 0; i+1 < n; i++ {
					p, q := ir[i], ir[i+1]
					openLen += math.Sqrt(float64((p[0]-q[0])*(p[0]-q[0]) + (p[1]-q[1])*(p[1]-q[1])))
				}
				for what, g := range map[string]orb.Geometry{"Ring": ring, "LineString": orb.LineString(ring), "Polygon": orb.Polygon{ring}, "MultiPolygon": orb.MultiPolygon{{ring}}, "Collection": orb.Collection{ring}} {
					if l := planar.Length(g); !relClose(l, openLen, 0) {
						c.Failf("length", "Length(%s of the unclosed vertex list) = %v, sum of its stored segments %v | %s", what, l, openLen, desc())
					}
				}
				if l := planar.Length(orb.Polygon{closed, ring}); !relClose(l, wantLen+openLen, 0) {
					c.Failf("length", "Length(polygon with the unclosed list as its hole) = %v, want %v | %s", l, wantLen+openLen, desc())
				}
			}
			// distance from every lattice query point to the closed ring
			ls := orb.LineString(closed)
			for qx := int64(-1); qx <= 7; qx++ {
				for qy := int64(-1); qy <= 7; qy++ {
					q := tr(t, ipt{qx, qy})
					var best *big.Rat
					for i := 0; i < n; i++ {
						d := segDist2(ir[i], ir[(i+1)%n], q)
						if best == nil || d.Cmp(best) < 0 {
							best = d
						}
					}
					want := math.Sqrt(f64(best))
					got, idx := planar.DistanceFromWithIndex(closed, fpt(q))
					if t == 0 {
						scaledDistance(c, closed, fpt(q), desc)
					}
					if !relClose(got, want, 0) && math.Abs(got-want) > 1e-9*scale {
						c.Failf("distance", "DistanceFrom(ring, %v) = %v, exact = %v | %s", fpt(q), got, want, desc())
						return
					}
					if best.Sign() == 0 && got > 1e-9*scale {
						c.Failf("distance-boundary", "DistanceFrom(ring, %v) = %v for a point on the boundary | %s", fpt(q), got, desc())
						return
					}
					if best.Sign() != 0 && got <= 0 {
						c.Failf("distance-boundary", "DistanceFrom(ring, %v) = %v for a point off the boundary | %s", fpt(q), got, desc())
						return
					}
					if idx < 0 || idx >= n || math.Abs(math.Sqrt(f64(segDist2(ir[idx], ir[(idx+1)%n], q)))-want) > 1e-9*math.Max(scale, want) {
						c.Failf("distance-index", "DistanceFromWithIndex(ring, %v) names segment %d which does not attain the minimum %v | %s", fpt(q), idx, want, desc())
						return
					}
					if g2 := planar.DistanceFrom(ls, fpt(q)); g2 != got {
						c.Failf("distance", "DistanceFrom differs between Ring and LineString | %s", desc())
						return
					}
				}
			}
			if a2.Sign() != 0 {
				c.NonTrivial()
			}
		}
	}
	for n := 3; n <= ev.Pick(r, 4, 5); n++ {
		r.Explore(fmt.Sprintf("rings-%d", n), fmt.Sprintf("4 transforms x all 16^%d vertex lists, closed and unclosed: exact area, orientation, centroid, length, distance from 81 lattice points", n),
			mc.Opts{MaxDev: -1, Split: 2}, ringPart(n))
	}

	// polygons with nested holes, multi-polygons, collections
	sq := func(x0, y0, x1, y1 int64, ccw bool) []ipt {
		if ccw {
			return []ipt{{x0, y0}, {x1, y0}, {x1, y1}, {x0, y1}}
		}
		return []ipt{{x0, y0}, {x0, y1}, {x1, y1}, {x1, y0}}
	}
	outers := [][]ipt{sq(0, 0, 12, 12, true), sq(0, 0, 12, 12, false), {{0, 0}, {12, 0}, {12, 6}, {6, 6}, {6, 12}, {0, 12}}}
	holesCat := [][]ipt{sq(1, 1, 3, 3, false), sq(1, 1, 3, 3, true), {{2, 7}, {4, 7}, {3, 10}}, sq(4, 1, 5, 5, false)}
	toRing := func(t int, r []ipt) (orb.Ring, []ipt) {
		var o orb.Ring
		var ir []ipt
		for _, p := range r {
			q := tr(t, p)
			ir = append(ir, q)
			o = append(o, fpt(q))
		}
		return append(o, o[0]), ir
	}
	r.Explore("polygons", "outer x subset of nested holes x transform: polygon, multi-polygon and collection area/centroid/length/distance compose exactly", mc.Opts{MaxDev: -1}, func(c *mc.Ctx) {
		t := c.Choose(len(transforms))
		scale := float64(transforms[t].scale)
		oi := c.Choose(len(outers))
		outer, oir := toRing(t, outers[oi])
		poly := orb.Polygon{outer}
		oa2, ocx, ocy := exactRing(oir)
		absR := func(a *big.Int) *big.Rat { return new(big.Rat).SetFrac(new(big.Int).Abs(a), big.NewInt(2)) }
		area := absR(oa2)
		mx := new(big.Rat).Mul(area, ocx)
		my := new(big.Rat).Mul(area, ocy)
		var rings [][]ipt
		rings = append(rings, oir)
		for hi := range holesCat {
			if !c.Bool() {
				continue
			}
			if oi == 2 && hi == 2 {
				continue // not nested in the L shape
			}
			h, hir := toRing(t, holesCat[hi])
			poly = append(poly, h)
			rings = append(rings, hir)
			ha2, hcx, hcy := exactRing(hir)
			ha := absR(ha2)
			area.Sub(area, ha)
			mx.Sub(mx, new(big.Rat).Mul(ha, hcx))
			my.Sub(my, new(big.Rat).Mul(ha, hcy))
		}
		desc := func() string { return fmt.Sprintf("transform=%q polygon=%v", transforms[t].name, poly) }
		cen, a := planar.CentroidArea(poly)
		if t == 0 {
			scaledMeasures(c, poly, desc)
		}
		if a != f64(area) || a < 0 {
			c.Failf("polygon-area", "Area = %v, exact outer - holes = %v | %s", a, f64(area), desc())
		}
		wx, wy := f64(new(big.Rat).Quo(mx, area)), f64(new(big.Rat).Quo(my, area))
		if !relClose(cen[0], wx, 12*scale) || !relClose(cen[1], wy, 12*scale) {
			c.Failf("polygon-centroid", "centroid = %v, exact = (%v,%v) | %s", cen, wx, wy, desc())
		}
		// every ring spelled without its closing point: the same polygon
		open := make(orb.Polygon, len(poly))
		for i, rg := range poly {
			open[i] = rg[:len(rg)-1]
		}
		if ocen, oa := planar.CentroidArea(open); oa != a || !relClose(ocen[0], cen[0], 12*scale) || !relClose(ocen[1], cen[1], 12*scale) {
			c.Failf("polygon-unclosed", "CentroidArea with every ring spelled unclosed = %v, %v; closed = %v, %v | %s", ocen, oa, cen, a, desc())
		}
		for hi := 1; hi < len(poly); hi++ {
			mixed := poly.Clone()
			mixed[hi] = mixed[hi][:len(mixed[hi])-1]
			if _, ma := planar.CentroidArea(mixed); ma != a {
				c.Failf("polygon-unclosed", "Area with hole %d spelled unclosed = %v, closed = %v | %s", hi, ma, a, desc())
			}
		}
		// the measures are read-only and must not depend on how the argument is laid out in memory: the same
		// polygons with all rings as windows of one shared buffer (capacity running into the next ring)
		for _, lg := range []orb.Geometry{poly, open, orb.MultiPolygon{open, poly}, orb.Collection{open[0], poly}} {
			w, verify := refgeom.Windowed(lg)
			wa, wl := planar.Area(w), planar.Length(w)
			wc, wca := planar.CentroidArea(w)
			wd := planar.DistanceFrom(w, orb.Point{-3, -3})
			if d := verify(); d != "" {
				c.Failf("measure-writes", "a planar measure wrote outside its argument: %s | %T of %s", d, lg, desc())
				break
			}
			ra, rl := planar.Area(lg), planar.Length(lg)
			rc, rca := planar.CentroidArea(lg)
			if wa != ra || wl != rl || wc != rc || wca != rca || wd != planar.DistanceFrom(lg, orb.Point{-3, -3}) {
				c.Failf("measure-layout", "planar measures differ when the rings share one buffer: area %v/%v length %v/%v centroid %v/%v | %T of %s", wa, ra, wl, rl, wc, rc, lg, desc())
				break
			}
		}
		// second polygon far away; multi = sum, centroid = area weighted mean
		p2r, p2ir := toRing(t, sq(8, 8, 11, 10, true))
		if oi == 2 {
			p2r, p2ir = toRing(t, sq(7, 7, 11, 10, true))
		}
		p2a2, p2cx, p2cy := exactRing(p2ir)
		p2a := absR(p2a2)
		mp := orb.MultiPolygon{poly, orb.Polygon{p2r}}
		mcen, ma := planar.CentroidArea(mp)
		tot := new(big.Rat).Add(area, p2a)
		if ma != f64(tot) {
			c.Failf("multipolygon-area", "Area(multi) = %v, want sum %v | %s", ma, f64(tot), desc())
		}
		mwx := f64(new(big.Rat).Quo(new(big.Rat).Add(mx, new(big.Rat).Mul(p2a, p2cx)), tot))
		mwy := f64(new(big.Rat).Quo(new(big.Rat).Add(my, new(big.Rat).Mul(p2a, p2cy)), tot))
		if !relClose(mcen[0], mwx, 12*scale) || !relClose(mcen[1], mwy, 12*scale) {
			c.Failf("multipolygon-centroid", "centroid(multi) = %v, exact = (%v,%v) | %s", mcen, mwx, mwy, desc())
		}
		// a member whose holes cancel its outer ring exactly (area 0) weighs nothing: it must not disturb the
		// centroid of the multi-polygon or collection it sits in
		hole0 := outer.Clone()
		hole0.Reverse()
		zero := orb.Polygon{outer.Clone(), hole0}
		for zi, zg := range []orb.Geometry{orb.MultiPolygon{zero, orb.Polygon{p2r}}, orb.MultiPolygon{orb.Polygon{p2r}, zero}, orb.Collection{zero, orb.Polygon{p2r}}} {
			zc, za := planar.CentroidArea(zg)
			if za != f64(p2a) || !relClose(zc[0], f64(p2cx), 12*scale) || !relClose(zc[1], f64(p2cy), 12*scale) {
				c.Failf("zero-area-member", "CentroidArea of form %d holding a polygon whose hole cancels its outer ring = %v, %v; want the other member's %v, %v, %v | %s", zi, zc, za, f64(p2cx), f64(p2cy), f64(p2a), desc())
			}
		}
		// collection mixing dimensions: only the top-dimensional members count
		col := orb.Collection{fpt(tr(t, ipt{100, 100})), poly, orb.LineString{fpt(tr(t, ipt{0, 0})), fpt(tr(t, ipt{50, 50}))}, orb.Polygon{p2r}, orb.Collection{orb.MultiPoint{fpt(tr(t, ipt{3, 3}))}}}
		ccen, ca := planar.CentroidArea(col)
		if ca != f64(tot) {
			c.Failf("collection-area", "Area(collection) = %v, want %v | %s", ca, f64(tot), desc())
		}
		if !relClose(ccen[0], mwx, 12*scale) || !relClose(ccen[1], mwy, 12*scale) {
			c.Failf("collection-centroid", "centroid(collection) = %v, exact = (%v,%v) | %s", ccen, mwx, mwy, desc())
		}
		// length: all rings
		wl := 0.0
		for _, ir := range append(rings, p2ir) {
			for i := range ir {
				p, q := ir[i], ir[(i+1)%len(ir)]
				wl += math.Sqrt(float64((p[0]-q[0])*(p[0]-q[0]) + (p[1]-q[1])*(p[1]-q[1])))
			}
		}
		if l := planar.Length(mp); !relClose(l, wl, 0) {
			c.Failf("multipolygon-length", "Length(multi) = %v, want %v | %s", l, wl, desc())
		}
		// distance from lattice points: min over all rings of all polygons
		for qx := int64(-1); qx <= 13; qx += 2 {
			for qy := int64(-1); qy <= 13; qy++ {
				q := tr(t, ipt{qx, qy})
				best := func(rs [][]ipt) *big.Rat {
					var b *big.Rat
					for _, ir := range rs {
						for i := range ir {
							d := segDist2(ir[i], ir[(i+1)%len(ir)], q)
							if b == nil || d.Cmp(b) < 0 {
								b = d
							}
						}
					}
					return b
				}
				b1, b2 := best(rings), best([][]ipt{p2ir})
				w1, w2 := math.Sqrt(f64(b1)), math.Sqrt(f64(b2))
				if t == 0 {
					scaledDistance(c, poly, fpt(q), desc)
				}
				if got := planar.DistanceFrom(poly, fpt(q)); math.Abs(got-w1) > 1e-9*math.Max(scale, w1) {
					c.Failf("polygon-distance", "DistanceFrom(polygon, %v) = %v, exact %v | %s", fpt(q), got, w1, desc())
					return
				}
				// the same rings as a multi-line-string and as a collection: minimum over members, index of a member attaining it
				mls := orb.MultiLineString{orb.LineString(p2r)}
				var memberD []float64
				memberD = append(memberD, w2)
				for ri, ir := range rings {
					mls = append(mls, orb.LineString(poly[ri]))
					memberD = append(memberD, math.Sqrt(f64(best([][]ipt{ir}))))
				}
				col := orb.Collection{}
				for _, l := range mls {
					col = append(col, l)
				}
				for gi, g := range []orb.Geometry{mls, col} {
					gd, gidx := planar.DistanceFromWithIndex(g, fpt(q))
					min := math.Inf(1)
					for _, d := range memberD {
						min = math.Min(min, d)
					}
					if math.Abs(gd-min) > 1e-9*math.Max(scale, min) || gidx < 0 || gidx >= len(memberD) || math.Abs(memberD[gidx]-min) > 1e-9*math.Max(scale, min) {
						c.Failf("multi-member-distance", "DistanceFromWithIndex(%s, %v) = %v,%d; member distances %v | %s", []string{"multi-line-string", "collection"}[gi], fpt(q), gd, gidx, memberD, desc())
						return
					}
				}
				// a bound measures as its boundary ring, also diagonally off its corners, alone and as a member
				obd := outer.Bound()
				if db, dr := planar.DistanceFrom(obd, fpt(q)), planar.DistanceFrom(obd.ToRing(), fpt(q)); math.Abs(db-dr) > 1e-9*math.Max(scale, dr) {
					c.Failf("bound-distance", "DistanceFrom(%v, %v) = %v, its boundary ring is %v away | %s", obd, fpt(q), db, dr, desc())
					return
				} else if dc := planar.DistanceFrom(orb.Collection{obd}, fpt(q)); math.Abs(dc-dr) > 1e-9*math.Max(scale, dr) {
					c.Failf("bound-distance", "DistanceFrom(collection holding %v, %v) = %v, the boundary ring is %v away | %s", obd, fpt(q), dc, dr, desc())
					return
				}
				got, idx := planar.DistanceFromWithIndex(mp, fpt(q))
				wm, wi := w1, 0
				if w2 < w1 {
					wm, wi = w2, 1
				}
				if math.Abs(got-wm) > 1e-9*math.Max(scale, wm) || (idx != wi && math.Abs(w1-w2) > 1e-9*math.Max(scale, wm)) {
					c.Failf("multipolygon-distance", "DistanceFromWithIndex(multi, %v) = %v,%d exact %v,%d | %s", fpt(q), got, idx, wm, wi, desc())
					return
				}
			}
		}
		if len(poly) > 1 {
			c.NonTrivial()
		}
	})

	// collections over every kind of two-dimensional member: the collection's area is the sum of its members'
	// areas (a bare ring keeps its sign, polygons and bounds are positive) and its centroid the mean weighted by them
	r.Explore("collection-kinds", "collections of 1..3 members (ordered, with repetition) from a menu of 10: ring ccw / cw, polygon with a hole, polygon with cw outer, multi-polygon, bound, nested collection, cw triangle, point, line string; x 4 transforms: area is the exact sum over the 2-d members, centroid the area-weighted mean", mc.Opts{MaxDev: -1}, func(c *mc.Ctx) {
		t := c.Choose(len(transforms))
		scale := float64(transforms[t].scale)
		type mom struct{ a, mx, my *big.Rat }
		ringMom := func(ir []ipt, abs bool) mom {
			a2, cx, cy := exactRing(ir)
			a := new(big.Rat).SetFrac(a2, big.NewInt(2))
			if abs {
				a.Abs(a)
			}
			return mom{a, new(big.Rat).Mul(a, cx), new(big.Rat).Mul(a, cy)}
		}
		add := func(ms ...mom) mom {
			o := mom{new(big.Rat), new(big.Rat), new(big.Rat)}
			for _, m := range ms {
				o.a.Add(o.a, m.a)
				o.mx.Add(o.mx, m.mx)
				o.my.Add(o.my, m.my)
			}
			return o
		}
		neg := func(m mom) mom {
			return mom{new(big.Rat).Neg(m.a), new(big.Rat).Neg(m.mx), new(big.Rat).Neg(m.my)}
		}
		type member struct {
			g orb.Geometry
			m *mom // nil: lower-dimensional
		}
		mk := func(i int) member {
			R := func(ir0 []ipt) (orb.Ring, []ipt) { return toRing(t, ir0) }
			switch i {
			case 0:
				g, ir := R(sq(0, 0, 2, 2, true))
				m := ringMom(ir, false)
				return member{g, &m}
			case 1:
				g, ir := R(sq(4, 0, 8, 2, false))
				m := ringMom(ir, false)
				return member{g, &m}
			case 2:
				o, oir := R(sq(0, 4, 4, 8, true))
				h, hir := R(sq(1, 5, 2, 7, false))
				m := add(ringMom(oir, true), neg(ringMom(hir, true)))
				return member{orb.Polygon{o, h}, &m}
			case 3:
				o, oir := R(sq(6, 4, 8, 6, false))
				m := ringMom(oir, true)
				return member{orb.Polygon{o}, &m}
			case 4:
				a, air := R(sq(10, 0, 12, 2, true))
				b, bir := R(sq(10, 4, 12, 8, false))
				m := add(ringMom(air, true), ringMom(bir, true))
				return member{orb.MultiPolygon{{a}, {b}}, &m}
			case 5:
				_, ir := R(sq(0, 10, 4, 12, true))
				m := ringMom(ir, true)
				return member{orb.Bound{Min: fpt(ir[0]), Max: fpt(ir[2])}, &m}
			case 6:
				g, ir := R(sq(6, 10, 8, 12, false))
				m := ringMom(ir, false)
				return member{orb.Collection{g, fpt(tr(t, ipt{1, 1}))}, &m}
			case 7:
				g, ir := R([]ipt{{4, 8}, {4, 10}, {8, 8}})
				m := ringMom(ir, false)
				return member{g, &m}
			case 8:
				return member{fpt(tr(t, ipt{9, 9})), nil}
			}
			return member{orb.LineString{fpt(tr(t, ipt{0, 0})), fpt(tr(t, ipt{12, 12}))}, nil}
		}
		n := 1 + c.Choose(3)
		var col orb.Collection
		tot := add()
		twoD := 0
		for i := 0; i < n; i++ {
			m := mk(c.Choose(10))
			col = append(col, m.g)
			if m.m != nil {
				tot = add(tot, *m.m)
				twoD++
			}
		}
		// length: the sum over all members, whatever their dimension (a line next to a polygon still has its length)
		{
			sum := 0.0
			for _, m := range col {
				sum += planar.Length(m)
			}
			if l := planar.Length(col); l != sum && math.Abs(l-sum) > 1e-12*math.Max(l, sum) {
				c.Failf("collection-kinds-length", "Length(collection) = %v, its members alone add up to %v | transform=%q collection=%v", l, sum, transforms[t].name, col)
				return
			}
		}
		if twoD == 0 {
			return // lower-dimensional collections are the business of the next part
		}
		c.NonTrivial()
		cen, a := planar.CentroidArea(col)
		if a != f64(tot.a) || planar.Area(col) != a {
			c.Failf("collection-kinds-area", "Area(collection) = %v (Area: %v), the exact sum over its 2-d members is %v | transform=%q collection=%v", a, planar.Area(col), f64(tot.a), transforms[t].name, col)
			return
		}
		if tot.a.Sign() != 0 {
			wx, wy := f64(new(big.Rat).Quo(tot.mx, tot.a)), f64(new(big.Rat).Quo(tot.my, tot.a))
			if !relClose(cen[0], wx, 12*scale) || !relClose(cen[1], wy, 12*scale) {
				c.Failf("collection-kinds-centroid", "centroid(collection) = %v, exact area-weighted mean = (%v,%v) | transform=%q collection=%v", cen, wx, wy, transforms[t].name, col)
			}
		}
	})

	// long segments: the distance to a segment a million units long from points a lattice step off its line.
	// Formulas that subtract two nearly equal large numbers lose all their digits here; the comparison is
	// relative 1e-9 against the exact rational value (the property's bound for this lattice)
	ext := []int64{0, 1<<20 - 1, -(1<<20 - 1), 1<<20 - 4, 349525, -699050, 1 << 19, 3}
	r.Explore("long-segments", fmt.Sprintf("segments between all pairs of %d^2 far lattice points x 7 positions along the segment (before, at, thirds, past the ends) x 9 offsets of <= 1 lattice step: DistanceFrom / DistanceFromSegment / ring and line forms within 1e-9 (relative, absolute below 1) of the exact value", len(ext)), mc.Opts{MaxDev: -1, Split: 2}, func(c *mc.Ctx) {
		a := ipt{ext[c.Choose(len(ext))], ext[c.Choose(len(ext))]}
		b := ipt{ext[c.Choose(len(ext))], ext[c.Choose(len(ext))]}
		if a == b {
			c.Skip()
			return
		}
		num := int64([]int{-1, 0, 1, 2, 3, 4, 5}[c.Choose(7)]) // position = a + (b-a)*num/4, rounded to the lattice
		off := c.Choose(9)
		q := ipt{a[0] + (b[0]-a[0])*num/4 + int64(off%3-1), a[1] + (b[1]-a[1])*num/4 + int64(off/3-1)}
		if q[0] > 1<<20 || q[0] < -(1<<20) || q[1] > 1<<20 || q[1] < -(1<<20) {
			c.Skip()
			return
		}
		third := ipt{a[0] - 1000, a[1] + 1000}
		if third[0] < -(1 << 20) {
			third[0] = a[0] + 1000
		}
		if third[1] > 1<<20 {
			third[1] = a[1] - 1000
		}
		want2 := segDist2(a, b, q)
		want := math.Sqrt(f64(want2))
		check := func(what string, got float64) {
			// on the segment the projection point is rounded (coordinates ~1e6, so ~1e-10): as everywhere in this
			// check, "zero on the boundary" is read within 1e-9
			if math.Abs(got-want) > 1e-9*math.Max(1, want) {
				c.Failf("long-segment-distance", "%s = %v, exact %v (relative error %.3g) | a=%v b=%v q=%v", what, got, want, math.Abs(got-want)/want, a, b, q)
			}
		}
		// point-to-point: the squared distance of lattice points is an exact integer, the distance its square root
		if d2, ex := planar.DistanceSquared(fpt(a), fpt(q)), float64((a[0]-q[0])*(a[0]-q[0])+(a[1]-q[1])*(a[1]-q[1])); d2 != ex || planar.DistanceSquared(fpt(q), fpt(a)) != ex {
			c.Failf("point-distance", "DistanceSquared(%v, %v) = %v, exact %v", a, q, d2, ex)
		} else if d := planar.Distance(fpt(a), fpt(q)); math.Abs(d-math.Sqrt(ex)) > 1e-12*math.Sqrt(ex) {
			c.Failf("point-distance", "Distance(%v, %v) = %v, exact %v", a, q, d, math.Sqrt(ex))
		}
		check("DistanceFromSegment", planar.DistanceFromSegment(fpt(a), fpt(b), fpt(q)))
		if d2 := planar.DistanceFromSegmentSquared(fpt(a), fpt(b), fpt(q)); math.Abs(d2-f64(want2)) > 2e-9*math.Max(1, f64(want2)) {
			c.Failf("long-segment-distance", "DistanceFromSegmentSquared = %v, exact %v | a=%v b=%v q=%v", d2, f64(want2), a, b, q)
		}
		check("DistanceFrom(line string)", planar.DistanceFrom(orb.LineString{fpt(a), fpt(b)}, fpt(q)))
		// as the long side of a triangle, through every form that holds the ring: the minimum over the three sides
		for _, side := range [][2]ipt{{b, third}, {third, a}} {
			if d := segDist2(side[0], side[1], q); d.Cmp(want2) < 0 {
				want2 = d
			}
		}
		want = math.Sqrt(f64(want2))
		ring := orb.Ring{fpt(a), fpt(b), fpt(third), fpt(a)}
		check("DistanceFrom(ring)", planar.DistanceFrom(ring, fpt(q)))
		check("DistanceFrom(multi-line-string)", planar.DistanceFrom(orb.MultiLineString{orb.LineString(ring)}, fpt(q)))
		check("DistanceFrom(collection)", planar.DistanceFrom(orb.Collection{orb.LineString(ring)}, fpt(q)))
		if exact.Area2I([]exact.IP{{a[0], a[1]}, {b[0], b[1]}, {third[0], third[1]}}) != 0 {
			// a polygon's distance is to its boundary when the point is outside; inside it is negative or zero by orb's
			// convention only for DistanceFromWithIndex, so the polygon form is compared on the boundary distance
			if d, _ := planar.DistanceFromWithIndex(orb.MultiPolygon{{ring}}, fpt(q)); math.Abs(math.Abs(d)-want) > 1e-9*math.Max(1, want) {
				c.Failf("long-segment-distance", "DistanceFromWithIndex(multi-polygon) = %v, exact boundary distance %v | a=%v b=%v q=%v", d, want, a, b, q)
			}
		}
		if want2.Sign() != 0 && want < 2 {
			c.NonTrivial()
		}
	})

	// slanted rings: the nearest ring is decided between distances below one unit (squared distances and plain
	// distances order differently there only if they are mixed up), every lattice point around a slanted outer ring
	// with slanted holes
	slOuters := [][]ipt{{{0, 0}, {48, 0}, {48, 32}}, {{0, 0}, {24, 0}, {12, 20}}, {{0, 0}, {30, 10}, {10, 30}}}
	slHoles := [][]ipt{{{5, 1}, {8, 4}, {9, 1}}, {{10, 2}, {14, 8}, {16, 3}}, {{12, 6}, {13, 9}, {15, 7}}, {{20, 4}, {22, 9}, {26, 5}}}
	r.Explore("slanted-holes", fmt.Sprintf("%d slanted outer rings x every subset of %d slanted triangular holes x every lattice point of the outer ring's box (+2): DistanceFrom the polygon, the multi-polygon and the collection is the exact minimum over all ring segments", len(slOuters), len(slHoles)), mc.Opts{MaxDev: -1, Split: 2}, func(c *mc.Ctx) {
		oi := c.Choose(len(slOuters))
		mask := c.Choose(1 << len(slHoles))
		rings := [][]ipt{slOuters[oi]}
		for hi := range slHoles {
			if mask&(1<<hi) != 0 {
				rings = append(rings, slHoles[hi])
			}
		}
		poly := make(orb.Polygon, len(rings))
		for i, ir := range rings {
			for _, p := range ir {
				poly[i] = append(poly[i], fpt(p))
			}
			poly[i] = append(poly[i], poly[i][0])
		}
		var maxX, maxY int64
		for _, p := range slOuters[oi] {
			if p[0] > maxX {
				maxX = p[0]
			}
			if p[1] > maxY {
				maxY = p[1]
			}
		}
		for qx := int64(-2); qx <= maxX+2; qx++ {
			for qy := int64(-2); qy <= maxY+2; qy++ {
				q := ipt{qx, qy}
				var best *big.Rat
				for _, ir := range rings {
					for i := range ir {
						if d := segDist2(ir[i], ir[(i+1)%len(ir)], q); best == nil || d.Cmp(best) < 0 {
							best = d
						}
					}
				}
				want := math.Sqrt(f64(best))
				for gi, g := range []orb.Geometry{poly, orb.MultiPolygon{poly}, orb.Collection{poly}} {
					if got := math.Abs(planar.DistanceFrom(g, fpt(q))); math.Abs(got-want) > 1e-9*math.Max(1, want) {
						c.Failf("slanted-distance", "DistanceFrom(form %d of %v, %v) = %v, the exact minimum over all ring segments is %v", gi, poly, fpt(q), got, want)
						return
					}
				}
			}
		}
		if len(rings) > 1 {
			c.NonTrivial()
		}
	})

	// long lines: length is the sum of ALL segment lengths however many there are
	lineLens := []int{3, 100, 128, 129, 130, 257, 513, 1000}
	r.Explore("long-lines", fmt.Sprintf("unit staircases and 3-4-5 zigzags of %v vertices as line string, ring, polygon, multi-line-string and collection: Length is exactly the number of steps (x5 for the zigzag)", lineLens), mc.Opts{MaxDev: -1}, func(c *mc.Ctx) {
		n := lineLens[c.Choose(len(lineLens))]
		zig := c.Bool()
		ls := make(orb.LineString, n)
		x, y := 0.0, 0.0
		for i := range ls {
			if i > 0 {
				switch {
				case zig && i%2 == 1:
					x, y = x+3, y+4
				case zig:
					x, y = x+4, y-3
				case i%2 == 1:
					x++
				default:
					y++
				}
			}
			ls[i] = orb.Point{x, y}
		}
		want := float64(n - 1)
		if zig {
			want *= 5
		}
		closing := planar.Distance(ls[n-1], ls[0])
		for _, lc := range []struct {
			what string
			g    orb.Geometry
			want float64
		}{
			{"line string", ls, want},
			{"multi-line-string", orb.MultiLineString{ls, ls[:n/2+1]}, want + want*float64(n/2)/float64(n-1)},
			{"collection", orb.Collection{ls, orb.Point{1, 1}, orb.Collection{ls}}, 2 * want},
			{"closed ring", append(orb.Ring(ls.Clone()), ls[0]), want + closing},
			{"polygon", orb.Polygon{append(orb.Ring(ls.Clone()), ls[0])}, want + closing},
		} {
			if got := planar.Length(lc.g); math.Abs(got-lc.want) > 1e-9*lc.want {
				c.Failf("long-line-length", "Length of the %s with %d vertices = %v, the sum of its segment lengths is %v", lc.what, n, got, lc.want)
			}
		}
		c.NonTrivial()
	})

	// a bound is measured as the ring of its four corners - also when its corners are the wrong way round (Pad with a
	// negative amount, a literal with swapped corners) or coincide
	bvals := []float64{-2, 0, 1, 3}
	r.Explore("bound-measures", "every bound with corner coordinates in {-2,0,1,3} (256: regular, degenerate, inverted on x / y / both), alone and as a collection member: Length = the four sides of ToRing() by the check's own distance, Area and CentroidArea = those of ToRing()", mc.Opts{MaxDev: -1}, func(c *mc.Ctx) {
		b := orb.Bound{Min: orb.Point{bvals[c.Choose(4)], bvals[c.Choose(4)]}, Max: orb.Point{bvals[c.Choose(4)], bvals[c.Choose(4)]}}
		ring := b.ToRing()
		want := 0.0
		for i := 0; i+1 < len(ring); i++ {
			want += math.Hypot(ring[i+1][0]-ring[i][0], ring[i+1][1]-ring[i][1])
		}
		if want != 2*(math.Abs(b.Max[0]-b.Min[0])+math.Abs(b.Max[1]-b.Min[1])) || len(ring) != 5 {
			c.Failf("bound-ring", "ToRing(%v) = %v is not the closed ring of the four corners", b, ring)
		}
		if l := planar.Length(b); l != want {
			c.Failf("bound-length", "Length(%v) = %v, the sides of its ring %v add up to %v", b, l, ring, want)
		}
		if l := planar.Length(orb.Collection{b, orb.Point{9, 9}}); l != want {
			c.Failf("bound-length", "Length(Collection{%v, point}) = %v, want %v", b, l, want)
		}
		if a, ra := planar.Area(b), planar.Area(ring); a != ra {
			c.Failf("bound-area", "Area(%v) = %v, Area of its ring %v = %v", b, a, ring, ra)
		}
		cb, ab := planar.CentroidArea(b)
		cr, ar := planar.CentroidArea(ring)
		if ab != ar || (cb != cr && !(cb != cb && cr != cr)) {
			if !(math.IsNaN(cb[0]) && math.IsNaN(cr[0])) {
				c.Failf("bound-centroid", "CentroidArea(%v) = %v, %v; of its ring %v: %v, %v", b, cb, ab, ring, cr, ar)
			}
		}
		if b.Min[0] > b.Max[0] || b.Min[1] > b.Max[1] {
			c.NonTrivial()
		}
	})
	// lower dimensions: multi-point (count weighted) and line strings (length weighted)
	r.Explore("points-lines", "multi-points of 1..3 lattice points and line strings of 2..3 lattice points (axis-aligned / 3-4-5 steps so lengths are exact): centroid is the count- / length-weighted mean; collections of only such members", mc.Opts{MaxDev: -1}, func(c *mc.Ctx) {
		t := c.Choose(len(transforms))
		scale := float64(transforms[t].scale)
		pts := []ipt{{0, 0}, {3, 4}, {3, 0}, {0, 4}, {6, 8}, {6, 0}}
		n := 1 + c.Choose(3)
		var mp orb.MultiPoint
		var sx, sy int64
		for i := 0; i < n; i++ {
			p := tr(t, pts[c.Choose(len(pts))])
			mp = append(mp, fpt(p))
			sx += p[0]
			sy += p[1]
		}
		cen, a := planar.CentroidArea(mp)
		if a != 0 || !relClose(cen[0], float64(sx)/float64(n), scale) || !relClose(cen[1], float64(sy)/float64(n), scale) {
			c.Failf("multipoint-centroid", "CentroidArea(%v) = %v,%v want mean (%v,%v)", mp, cen, a, float64(sx)/float64(n), float64(sy)/float64(n))
		}
		m := 2 + c.Choose(2)
		var ls orb.LineString
		var ils []ipt
		for i := 0; i < m; i++ {
			p := tr(t, pts[c.Choose(len(pts))])
			ls = append(ls, fpt(p))
			ils = append(ils, p)
		}
		var L, wx, wy float64
		for i := 1; i < len(ils); i++ {
			d := math.Sqrt(float64((ils[i][0]-ils[i-1][0])*(ils[i][0]-ils[i-1][0]) + (ils[i][1]-ils[i-1][1])*(ils[i][1]-ils[i-1][1])))
			L += d
			wx += d * float64(ils[i][0]+ils[i-1][0]) / 2
			wy += d * float64(ils[i][1]+ils[i-1][1]) / 2
		}
		lc, la := planar.CentroidArea(ls)
		if L > 0 {
			c.NonTrivial()
			if la != 0 || !relClose(lc[0], wx/L, scale) || !relClose(lc[1], wy/L, scale) {
				c.Failf("linestring-centroid", "CentroidArea(%v) = %v,%v want length-weighted mean (%v,%v)", ls, lc, la, wx/L, wy/L)
			}
			if l := planar.Length(ls); !relClose(l, L, 0) {
				c.Failf("length", "Length(%v) = %v want %v", ls, l, L)
			}
			// several lines: the centroid of a multi-line-string is the length-weighted mean over all its segments,
			// whatever the number of vertices of each member (two-point members, longer ones, a degenerate one)
			seconds := [][]ipt{{{0, 0}, {6, 0}}, {{3, 0}, {3, 4}, {6, 8}}, {{0, 4}, {0, 4}}}
			var ls2 orb.LineString
			L2, wx2, wy2 := L, wx, wy
			var i2 []ipt
			for _, q := range seconds[c.Choose(len(seconds))] {
				i2 = append(i2, tr(t, q))
				ls2 = append(ls2, fpt(tr(t, q)))
			}
			for i := 1; i < len(i2); i++ {
				d := math.Sqrt(float64((i2[i][0]-i2[i-1][0])*(i2[i][0]-i2[i-1][0]) + (i2[i][1]-i2[i-1][1])*(i2[i][1]-i2[i-1][1])))
				L2 += d
				wx2 += d * float64(i2[i][0]+i2[i-1][0]) / 2
				wy2 += d * float64(i2[i][1]+i2[i-1][1]) / 2
			}
			for _, mls := range []orb.MultiLineString{{ls, ls2}, {ls2, ls}} {
				if mc2, ma := planar.CentroidArea(mls); ma != 0 || !relClose(mc2[0], wx2/L2, 4*scale) || !relClose(mc2[1], wy2/L2, 4*scale) {
					c.Failf("multilinestring-centroid", "CentroidArea(%v) = %v,%v want the length-weighted mean over all segments (%v,%v)", mls, mc2, ma, wx2/L2, wy2/L2)
				}
				if l := planar.Length(mls); !relClose(l, L2, 4*scale) {
					c.Failf("length", "Length(%v) = %v want %v", mls, l, L2)
				}
			}
			// a collection holding only this line (top dimension 1): length-weighted mean of its members
			cc, _ := planar.CentroidArea(orb.Collection{ls, mp})
			if !relClose(cc[0], wx/L, scale) || !relClose(cc[1], wy/L, scale) {
				c.Failf("collection-centroid-lowdim:lines"+zeroSuffix(cc), "CentroidArea(Collection{%v, %v}) = %v, want the length-weighted mean of the top-dimensional member (%v,%v)", ls, mp, cc, wx/L, wy/L)
			}
		}
		cc, _ := planar.CentroidArea(orb.Collection{mp})
		if !relClose(cc[0], float64(sx)/float64(n), scale) || !relClose(cc[1], float64(sy)/float64(n), scale) {
			c.Failf("collection-centroid-lowdim:points"+zeroSuffix(cc), "CentroidArea(Collection{%v}) = %v, want the count-weighted mean (%v,%v)", mp, cc, float64(sx)/float64(n), float64(sy)/float64(n))
		}
	})
	r.Sample(map[string]interface{}{"transform": "scale 2^17", "ring": "[[0,0],[786432,0],[786432,786432],[0,0]]", "exact_area": "309237645312"})
	r.Finish()
}
