// C01: WKB/EWKB encode-decode is lossless; every decode path agrees.
package main

import (
	"bytes"
	"database/sql/driver"
	"encoding/binary"
	"encoding/hex"
	"fmt"
	"io"
	"math"
	"strings"

	"github.com/paulmach/orb"
	"github.com/paulmach/orb/encoding/ewkb"
	"github.com/paulmach/orb/encoding/wkb"

	"verif/lib/ev"
	"verif/lib/gg"
	"verif/lib/mc"
	"verif/lib/refgeom"
	"verif/lib/retain"
)

func fb(u uint64) float64 { return math.Float64frombits(u) }

// Fbits: values a lossless codec must move byte for byte
var special = []float64{
	0, math.Copysign(0, -1), math.Inf(1), math.Inf(-1),
	fb(0x7ff8000000000001), fb(0x7ff0000000000001), fb(0xfff8123456789abc), fb(0x7ff00f0e0d0c0b0a), // quiet / signalling NaNs with payloads
	fb(1), fb(0x000fffffffffffff), fb(0x0010000000000000), math.MaxFloat64, // subnormals, min normal, max
	1, -1, 0.1, 4326.5, fb(0x0102030405060708), fb(0xf1f2f3f4f5f6f7f8), -179.99999999999997, 85.05112877980659,
}

var srids = []int{0, 4326, 1, 255, 256, 257, 12336, 12592, 30812, 1<<31 - 1}

// prefixSRIDs: the SRIDs written into the 4-byte prefix framing for one run: the run's own SRID plus, on the
// default configuration, prefixes that spell a plausible WKB header (0 = absent, 1, 256, 257, 8192 = 00 20 00 00,
// 513) and the extremes
func prefixSRIDs(srid int) []int {
	if srid == 0 {
		// 2096.. : prefixes whose first byte is one the framing sniffers look at ('0', '1', '\\') while the second is not
		return []int{0, 4326, 8192, 1, 256, 257, 513, 1<<31 - 1, 2096, 2097, 2140, 30768}
	}
	return []int{srid}
}

var orders = []binary.ByteOrder{binary.LittleEndian, binary.BigEndian}

// fragReader: every Read returns everything asked for or (when the driver says so) a single byte.
type fragReader struct {
	data   []byte
	c      *mc.Ctx
	budget *int
}

func (f *fragReader) Read(p []byte) (int, error) {
	if len(f.data) == 0 {
		return 0, io.EOF
	}
	n := len(p)
	if n > len(f.data) {
		n = len(f.data)
	}
	if n > 1 && *f.budget > 0 {
		if f.c.Bool() {
			n = 1
			*f.budget--
		}
	}
	copy(p, f.data[:n])
	f.data = f.data[n:]
	return n, nil
}

func encode(g orb.Geometry, srid int, order binary.ByteOrder) ([]byte, error) {
	if srid == 0 {
		return wkb.Marshal(g, order)
	}
	return ewkb.Marshal(g, srid, order)
}

func isTopNil(g orb.Geometry) bool {
	return g == nil || refgeom.Bits(g) != refgeom.Struct(g) && topNil(g)
}

func topNil(g orb.Geometry) bool {
	switch v := g.(type) {
	case orb.MultiPoint:
		return v == nil
	case orb.LineString:
		return v == nil
	case orb.Ring:
		return v == nil
	case orb.MultiLineString:
		return v == nil
	case orb.Polygon:
		return v == nil
	case orb.MultiPolygon:
		return v == nil
	case orb.Collection:
		return v == nil
	}
	return false
}

// coerce: the documented scan coercions. ok=false means ErrIncorrectGeometry is expected.
func coerce(dst string, v orb.Geometry) (orb.Geometry, bool) {
	switch dst {
	case "nil":
		return v, true
	case "Point":
		switch x := v.(type) {
		case orb.Point:
			return x, true
		case orb.MultiPoint:
			if len(x) == 1 {
				return x[0], true
			}
		}
	case "MultiPoint":
		switch x := v.(type) {
		case orb.Point:
			return orb.MultiPoint{x}, true
		case orb.MultiPoint:
			return x, true
		}
	case "LineString":
		switch x := v.(type) {
		case orb.LineString:
			return x, true
		case orb.MultiLineString:
			if len(x) == 1 {
				return x[0], true
			}
		}
	case "MultiLineString":
		switch x := v.(type) {
		case orb.LineString:
			return orb.MultiLineString{x}, true
		case orb.MultiLineString:
			return x, true
		}
	case "Ring":
		if x, ok := v.(orb.Polygon); ok && len(x) == 1 {
			return x[0], true
		}
	case "Polygon":
		switch x := v.(type) {
		case orb.Polygon:
			return x, true
		case orb.MultiPolygon:
			if len(x) == 1 {
				return x[0], true
			}
		}
	case "MultiPolygon":
		switch x := v.(type) {
		case orb.Polygon:
			return orb.MultiPolygon{x}, true
		case orb.MultiPolygon:
			return x, true
		}
	case "Collection":
		if x, ok := v.(orb.Collection); ok {
			return x, true
		}
	case "Bound":
		if b, ok := refgeom.TightBound(v); ok {
			return b, true
		}
		return orb.MultiPoint{}.Bound(), true
	}
	return nil, false
}

var dsts = []string{"nil", "Point", "MultiPoint", "LineString", "MultiLineString", "Ring", "Polygon", "MultiPolygon", "Collection", "Bound", "unsupported"}

func newDst(name string) (ptr interface{}, get func() orb.Geometry) {
	switch name {
	case "nil":
		return nil, func() orb.Geometry { return nil }
	case "Point":
		v := &orb.Point{}
		return v, func() orb.Geometry { return *v }
	case "MultiPoint":
		v := &orb.MultiPoint{}
		return v, func() orb.Geometry { return *v }
	case "LineString":
		v := &orb.LineString{}
		return v, func() orb.Geometry { return *v }
	case "MultiLineString":
		v := &orb.MultiLineString{}
		return v, func() orb.Geometry { return *v }
	case "Ring":
		v := &orb.Ring{}
		return v, func() orb.Geometry { return *v }
	case "Polygon":
		v := &orb.Polygon{}
		return v, func() orb.Geometry { return *v }
	case "MultiPolygon":
		v := &orb.MultiPolygon{}
		return v, func() orb.Geometry { return *v }
	case "Collection":
		v := &orb.Collection{}
		return v, func() orb.Geometry { return *v }
	case "Bound":
		v := &orb.Bound{}
		return v, func() orb.Geometry { return *v }
	}
	v := new(int)
	return v, func() orb.Geometry { return nil }
}

type framing struct {
	name string
	f    func(b []byte, srid int) []byte
}

var framings = []framing{
	{"raw", func(b []byte, _ int) []byte { return append([]byte(nil), b...) }},
	{"hex", func(b []byte, _ int) []byte { return []byte(hex.EncodeToString(b)) }},
	{"HEX", func(b []byte, _ int) []byte { return []byte(strings.ToUpper(hex.EncodeToString(b))) }},
	{"\\xhex", func(b []byte, _ int) []byte { return []byte("\\x" + hex.EncodeToString(b)) }},
}

func sameBound(a, b orb.Geometry) bool {
	x, ok1 := a.(orb.Bound)
	y, ok2 := b.(orb.Bound)
	if !ok1 || !ok2 {
		return false
	}
	if x.IsEmpty() && y.IsEmpty() {
		return true
	}
	return refgeom.Bits(x) == refgeom.Bits(y)
}

// hasNaN: bounds of geometries with NaN coordinates are not defined by min/max; typed Bound scans skip them
func hasNaN(g orb.Geometry) bool {
	n := false
	refgeom.Vertices(g, true, func(p *orb.Point) {
		if p[0] != p[0] || p[1] != p[1] {
			n = true
		}
	})
	return n
}

// checkAll runs every encoder and decode path on g. It returns the number of decode calls.
var kept retain.Keeper

func checkAll(c *mc.Ctx, g orb.Geometry, srid int, order binary.ByteOrder, typed bool) int {
	calls := 0
	oname := "LE"
	if order == binary.BigEndian {
		oname = "BE"
	}
	desc := fmt.Sprintf("geometry=%T %v srid=%d order=%s", g, g, srid, oname)
	want := refgeom.Normal(g, false)
	enc, err := encode(g, srid, order)
	if err != nil {
		c.Failf("encode-error", "Marshal: %v | %s", err, desc)
		return calls
	}
	if isTopNil(g) {
		if len(enc) != 0 {
			c.Failf("nil-bytes", "a nil geometry must encode to no bytes, got % x | %s", enc, desc)
		}
		v, verr := ewkb.Value(g, srid).Value()
		if v != nil || verr != nil {
			c.Failf("nil-bytes", "Value() of a nil geometry = %v, %v | %s", v, verr, desc)
		}
		s := ewkb.Scanner(nil)
		if err := s.Scan(nil); err != nil || s.Valid || s.Geometry != nil {
			c.Failf("nil-scan", "Scan(nil) = %v valid=%v | %s", err, s.Valid, desc)
		}
		return calls
	}
	// all encoders agree
	var buf bytes.Buffer
	if srid == 0 {
		if err := wkb.NewEncoder(&buf).SetByteOrder(order).Encode(g); err != nil || !bytes.Equal(buf.Bytes(), enc) {
			c.Failf("encoders-differ", "wkb.Encoder wrote % x, Marshal % x (%v) | %s", buf.Bytes(), enc, err, desc)
		}
		if e2, _ := ewkb.Marshal(g, 0, order); !bytes.Equal(e2, enc) {
			c.Failf("encoders-differ", "ewkb.Marshal with srid 0 differs from wkb.Marshal | %s", desc)
		}
		if h, err := wkb.MarshalToHex(g, order); err != nil || h != hex.EncodeToString(enc) {
			c.Failf("encoders-differ", "wkb.MarshalToHex = %s | %s", h, desc)
		}
		if order == wkb.DefaultByteOrder {
			if v, err := wkb.Value(g).Value(); err != nil || !bytes.Equal(v.([]byte), enc) {
				c.Failf("encoders-differ", "wkb.Value() = %v,%v | %s", v, err, desc)
			}
		}
	} else {
		if err := ewkb.NewEncoder(&buf).SetByteOrder(order).SetSRID(srid).Encode(g); err != nil || !bytes.Equal(buf.Bytes(), enc) {
			c.Failf("encoders-differ", "ewkb.Encoder wrote % x, Marshal % x (%v) | %s", buf.Bytes(), enc, err, desc)
		}
		buf.Reset()
		if err := ewkb.NewEncoder(&buf).SetByteOrder(order).Encode(g, srid); err != nil || !bytes.Equal(buf.Bytes(), enc) {
			c.Failf("encoders-differ", "ewkb.Encoder.Encode(g, srid) differs | %s", desc)
		}
		if h, err := ewkb.MarshalToHex(g, srid, order); err != nil || h != hex.EncodeToString(enc) {
			c.Failf("encoders-differ", "ewkb.MarshalToHex = %s | %s", h, desc)
		}
		if order == wkb.DefaultByteOrder {
			if v, err := ewkb.Value(g, srid).Value(); err != nil || !bytes.Equal(v.([]byte), enc) {
				c.Failf("encoders-differ", "ewkb.Value() = %v,%v | %s", v, err, desc)
			}
		}
	}
	cmp := func(path string, got orb.Geometry, gotSRID int, err error, checkSRID bool) {
		calls++
		if err != nil {
			c.Failf("decode-error", "%s: %v | bytes=% x | %s", path, err, enc, desc)
			return
		}
		if refgeom.Struct(got) != refgeom.Struct(want) {
			c.Failf("lossy", "%s returned %T %v, want %T %v (bit-wise) | bytes=% x | %s", path, got, got, want, want, enc, desc)
		}
		if checkSRID && gotSRID != srid {
			c.Failf("srid", "%s returned SRID %d | %s", path, gotSRID, desc)
		}
	}
	// what earlier calls returned must still be what they returned (no result may alias a reused buffer)
	if d := kept.Bytes(c.Worker, "bytes from Marshal", enc, desc); d != "" {
		c.Failf("result-overwritten", "%s | now encoding %s", d, desc)
	}
	g1, s1, e1 := ewkb.Unmarshal(append([]byte(nil), enc...))
	cmp("ewkb.Unmarshal", g1, s1, e1, true)
	if d := kept.Geometry(c.Worker, "geometry from ewkb.Unmarshal", g1, desc); d != "" {
		c.Failf("result-overwritten", "%s | now decoding %s", d, desc)
	}
	g2, e2 := wkb.Unmarshal(append([]byte(nil), enc...))
	cmp("wkb.Unmarshal", g2, 0, e2, false)
	g3, s3, e3 := ewkb.NewDecoder(bytes.NewReader(enc)).Decode()
	cmp("ewkb.Decoder", g3, s3, e3, true)
	if d := kept.Geometry(c.Worker, "geometry from ewkb.Decoder", g3, desc); d != "" {
		c.Failf("result-overwritten", "%s | now decoding %s", d, desc)
	}
	g4, e4 := wkb.NewDecoder(bytes.NewReader(enc)).Decode()
	cmp("wkb.Decoder", g4, 0, e4, false)
	for _, fr := range framings {
		s := ewkb.Scanner(nil)
		err := s.Scan(fr.f(enc, srid))
		cmp("ewkb.Scanner(nil)/"+fr.name, s.Geometry, s.SRID, err, true)
		if err == nil && !s.Valid {
			c.Failf("valid-flag", "ewkb.Scanner(nil)/%s: Valid=false | %s", fr.name, desc)
		}
		w := wkb.Scanner(nil)
		err = w.Scan(fr.f(enc, srid))
		cmp("wkb.Scanner(nil)/"+fr.name, w.Geometry, 0, err, false)
	}
	// 4-byte SRID prefix (supported path): ValuePrefixSRID -> ScannerPrefixSRID
	if order == wkb.DefaultByteOrder {
		for _, psrid := range prefixSRIDs(srid) {
			pv, err := ewkb.ValuePrefixSRID(g, psrid).Value()
			if err != nil || pv == nil {
				c.Failf("encoders-differ", "ValuePrefixSRID = %v,%v | %s", pv, err, desc)
				continue
			}
			pb := pv.([]byte)
			plain, _ := wkb.Marshal(g)
			if len(pb) < 4 || int(binary.LittleEndian.Uint32(pb)) != psrid || !bytes.Equal(pb[4:], plain) {
				c.Failf("encoders-differ", "ValuePrefixSRID bytes % x are not prefix+WKB | %s", pb, desc)
			}
			s := ewkb.ScannerPrefixSRID(nil)
			err = s.Scan(append([]byte(nil), pb...))
			calls++
			if err != nil || refgeom.Struct(s.Geometry) != refgeom.Struct(want) || s.SRID != psrid || !s.Valid {
				c.Failf("prefix-srid", "ScannerPrefixSRID(ValuePrefixSRID(g,%d)) = %T %v srid=%d valid=%v err=%v, want %v | %s", psrid, s.Geometry, s.Geometry, s.SRID, s.Valid, err, want, desc)
			}
			// typed destination through the prefix framing
			for _, dn := range []string{"Point", "LineString", "Polygon", "Collection", "Bound"} {
				exp, ok := coerce(dn, want)
				ptr, get := newDst(dn)
				ts := ewkb.ScannerPrefixSRID(ptr)
				terr := ts.Scan(append([]byte(nil), pb...))
				calls++
				switch {
				case !ok:
					if terr != ewkb.ErrIncorrectGeometry {
						c.Failf("prefix-srid-typed", "ScannerPrefixSRID(*%s) with prefix SRID %d: want ErrIncorrectGeometry, got %v, %v | %s", dn, psrid, ts.Geometry, terr, desc)
					}
				case terr != nil || ts.SRID != psrid:
					c.Failf("prefix-srid-typed", "ScannerPrefixSRID(*%s) with prefix SRID %d: err=%v srid=%d | %s", dn, psrid, terr, ts.SRID, desc)
				case dn == "Bound":
					if !hasNaN(want) && !sameBound(get(), exp) {
						c.Failf("prefix-srid-typed", "ScannerPrefixSRID(*Bound) with prefix SRID %d = %v want %v | %s", psrid, get(), exp, desc)
					}
				case refgeom.Struct(get()) != refgeom.Struct(exp):
					c.Failf("prefix-srid-typed", "ScannerPrefixSRID(*%s) with prefix SRID %d = %v want %v | %s", dn, psrid, get(), exp, desc)
				}
			}
			// deprecated MySQL retry of wkb.Scanner
			w := wkb.Scanner(nil)
			err = w.Scan(append([]byte(nil), pb...))
			calls++
			if err != nil || refgeom.Struct(w.Geometry) != refgeom.Struct(want) {
				cl := "wkb-scanner-mysql-prefix"
				if pb[0] <= 1 || string(pb[:2]) == "00" || string(pb[:2]) == "01" || string(pb[:2]) == "\\x" {
					cl = "wkb-scanner-mysql-prefix:ambiguous-prefix" // the prefix itself looks like a byte-order mark or a hex marker
				}
				c.Failf(cl, "wkb.Scanner on a 4-byte-SRID-prefixed value (srid %d, prefix % x) = %v, %v; want %v | %s", psrid, pb[:4], w.Geometry, err, want, desc)
			}
		}
	}
	if !typed {
		return calls
	}
	// typed destinations under the documented coercions
	for _, dn := range dsts {
		exp, ok := coerce(dn, want)
		for fi, fr := range framings {
			if fi > 0 && dn != "nil" && (fi+len(dn))%3 != 0 {
				continue // every destination sees raw; the text framings rotate over destinations
			}
			for which := 0; which < 2; which++ {
				ptr, get := newDst(dn)
				var err error
				var sg orb.Geometry
				var valid bool
				var incorrect error
				if which == 0 {
					s := ewkb.Scanner(ptr)
					err, sg, valid, incorrect = s.Scan(fr.f(enc, srid)), s.Geometry, s.Valid, ewkb.ErrIncorrectGeometry
					if err == nil && s.SRID != srid {
						c.Failf("srid", "ewkb.Scanner(*%s)/%s returned SRID %d | %s", dn, fr.name, s.SRID, desc)
					}
				} else {
					s := wkb.Scanner(ptr)
					err, sg, valid, incorrect = s.Scan(fr.f(enc, srid)), s.Geometry, s.Valid, wkb.ErrIncorrectGeometry
				}
				calls++
				path := fmt.Sprintf("%s.Scanner(*%s)/%s", []string{"ewkb", "wkb"}[which], dn, fr.name)
				if !ok {
					if err != incorrect {
						c.Failf("typed-scan-error", "%s: want ErrIncorrectGeometry, got value %v err %v | %s", path, sg, err, desc)
					}
					continue
				}
				if err != nil || !valid {
					c.Failf("typed-scan", "%s: err=%v valid=%v, want %v | %s", path, err, valid, exp, desc)
					continue
				}
				if dn == "Bound" {
					if hasNaN(want) {
						// min/max over NaN has no closed form, but "its bound" is still the Bound() of the value the
						// other decoders return: the scan may not compute a different one
						if wb := want.Bound(); !sameBound(sg, wb) || !sameBound(get(), wb) {
							c.Failf("typed-scan", "%s: bound %v (destination %v), the decoded geometry's Bound() is %v | %s", path, sg, get(), wb, desc)
						}
						continue
					}
					if !sameBound(sg, exp) || !sameBound(get(), exp) {
						c.Failf("typed-scan", "%s: bound %v (destination %v), want %v | %s", path, sg, get(), exp, desc)
					}
					continue
				}
				if refgeom.Struct(sg) != refgeom.Struct(exp) || (dn != "nil" && refgeom.Struct(get()) != refgeom.Struct(exp)) {
					c.Failf("typed-scan", "%s: value %v destination %v, want %T %v | %s", path, sg, get(), exp, exp, desc)
				}
			}
		}
	}
	return calls
}

var _ driver.Valuer

func main() {
	r := ev.New("C01", "exploration")
	r.Rule = "geometry grammar: full product of the 8 non-collection kinds (k,m) and collections nested to depth 3 within a deviation bound (typed nil slices at the top, empty and single-vertex members), coordinates assigned positionally from 20 special bit patterns (signed zeros, infinities, quiet/signalling NaN payloads, subnormals, extremes, byte-lane markers) x byte order {LE,BE} x 10 SRIDs (absent, 1, 255, 256, 257, 4326, '00', '01', '\\x' spelled in bytes, 2^31-1) x every encoder x every decode path x scanner framings x 11 destination types; value sweep: all 2048 single-byte-lane patterns + 64 one-hot bits in the first and last slot of one shape per kind; stream: every fragmentation of the reader with <= 2 one-byte reads; non-trivial = the geometry has at least one vertex"
	r.Assume = []string{
		"a top-level typed nil slice is a nil geometry: it encodes to no bytes (orb's documented convention); members are never nil",
		"nil and empty slices are the same value in the round-trip normal form; ring and bound decode as the one-ring polygon",
		"readers that return (0, nil) are outside the explored environment",
		"typed scans into *Bound are compared only for NaN-free geometries (min/max over NaN is not defined by the property)",
	}
	type loc struct {
		g     *gg.Gen
		reset func(int)
		calls int64
	}
	newLocal := func(int) interface{} {
		next, reset := gg.CyclicAt(special)
		return &loc{g: &gg.Gen{K: 3, M: 2, Depth: 3, NilSlice: true, Next: next}, reset: reset}
	}
	total := func(st mc.Stats) {
		var n int64
		for _, l := range st.Locals {
			if x, ok := l.(*loc); ok && x != nil {
				n += x.calls
			}
		}
		r.Count("decode_calls", n)
	}
	st := r.Explore("noncollection", "full product of the 8 non-collection kinds (k=3,m=2) x 2 byte orders x 10 SRIDs x all encoders / decode paths / framings / 11 destinations", mc.Opts{MaxDev: -1, Split: 3, NewLocal: newLocal}, func(c *mc.Ctx) {
		l := c.Local().(*loc)
		l.reset(c.Choose(len(special) / 2))
		order := orders[c.Choose(2)]
		srid := srids[c.Choose(len(srids))]
		g := l.g.Kind(c, c.Choose(gg.KCollection), 0, true)
		l.calls += int64(checkAll(c, g, srid, order, true))
		n := 0
		refgeom.Vertices(g, true, func(*orb.Point) { n++ })
		if n > 0 {
			c.NonTrivial()
		}
	})
	total(st)
	dev := ev.Pick(r, 5, 7)
	st = r.Explore("collections", fmt.Sprintf("collections nested to depth 3, all shapes within %d deviations (byte order and SRID choices included in the bound, defaults LE / absent)", dev), mc.Opts{MaxDev: dev, Split: 3, NewLocal: newLocal}, func(c *mc.Ctx) {
		l := c.Local().(*loc)
		l.reset(c.Choose(len(special) / 2))
		order := orders[c.Choose(2)]
		srid := srids[c.Choose(len(srids))]
		g := l.g.Kind(c, gg.KCollection, 0, true)
		l.calls += int64(checkAll(c, g, srid, order, true))
		n := 0
		refgeom.Vertices(g, true, func(*orb.Point) { n++ })
		if n > 0 {
			c.NonTrivial()
		}
	})
	total(st)

	// value sweep: one shape per kind, first and last slot sweep the byte-lane alphabet
	shapes := []func(p, q orb.Point) orb.Geometry{
		func(p, q orb.Point) orb.Geometry { return p },
		func(p, q orb.Point) orb.Geometry { return orb.MultiPoint{p, {1, 2}, q} },
		func(p, q orb.Point) orb.Geometry { return orb.LineString{p, {1, 2}, q} },
		func(p, q orb.Point) orb.Geometry { return orb.Ring{p, {1, 2}, {3, 4}, q} },
		func(p, q orb.Point) orb.Geometry { return orb.MultiLineString{{p, {1, 2}}, {{3, 4}, q}} },
		func(p, q orb.Point) orb.Geometry { return orb.Polygon{{p, {1, 2}, {3, 4}}, {{5, 6}, q}} },
		func(p, q orb.Point) orb.Geometry { return orb.MultiPolygon{{{p, {1, 2}}}, {{{3, 4}}, {q}}} },
		func(p, q orb.Point) orb.Geometry { return orb.Bound{Min: p, Max: q} },
		func(p, q orb.Point) orb.Geometry {
			return orb.Collection{p, orb.Collection{orb.LineString{{1, 2}, q}, orb.Collection{orb.MultiPoint{q, p}}}}
		},
	}
	var lanes []uint64
	for k := 0; k < 8; k++ {
		for b := 0; b < 256; b++ {
			lanes = append(lanes, uint64(b)<<(8*k))
		}
	}
	for i := 0; i < 64; i++ {
		lanes = append(lanes, 1<<i)
	}
	st = r.Explore("value-sweep", fmt.Sprintf("9 shapes x %d bit patterns (2048 single-byte-lane values, 64 one-hot bits) in x and y of the first and last slot x {LE,BE} x {absent, 4326}", len(lanes)), mc.Opts{MaxDev: -1, Split: 2, NewLocal: newLocal}, func(c *mc.Ctx) {
		l := c.Local().(*loc)
		sh := shapes[c.Choose(len(shapes))]
		u := lanes[c.Choose(len(lanes))]
		for _, order := range orders {
			for _, srid := range []int{0, 4326} {
				v := fb(u)
				l.calls += int64(checkAll(c, sh(orb.Point{v, 7}, orb.Point{8, fb(^u)}), srid, order, false))
				l.calls += int64(checkAll(c, sh(orb.Point{9, v}, orb.Point{v, v}), srid, order, false))
			}
		}
		c.NonTrivial()
	})
	total(st)

	// zero values: a point or a bound whose coordinates are all zero is the Go zero value of its type, and still a
	// geometry like any other (not "no geometry")
	nz := math.Copysign(0, -1)
	zeros := []orb.Geometry{
		orb.Point{}, orb.Bound{}, orb.Point{nz, nz}, orb.Bound{Min: orb.Point{nz, nz}, Max: orb.Point{nz, nz}}, orb.Bound{Min: orb.Point{0, 0}, Max: orb.Point{0, 1}},
		orb.MultiPoint{{}}, orb.LineString{{}, {}}, orb.Ring{{}, {}, {}, {}}, orb.Polygon{{{}, {}, {}, {}}}, orb.MultiLineString{{{}, {}}}, orb.MultiPolygon{{{{}, {}, {}, {}}}},
		orb.Collection{orb.Bound{}}, orb.Collection{orb.Point{}}, orb.Collection{orb.Point{1, 2}, orb.Bound{}, orb.Point{}}, orb.Collection{orb.Collection{orb.Bound{}}, orb.Point{3, 4}},
	}
	st = r.Explore("zero-values", fmt.Sprintf("%d geometries whose coordinates are all zero (the zero point and the zero bound alone, as collection members, nested; negative zeros; zero lines, rings, polygons) x {LE,BE} x {absent, 4326}: every encoder / decode path / destination", len(zeros)), mc.Opts{MaxDev: -1, NewLocal: newLocal}, func(c *mc.Ctx) {
		l := c.Local().(*loc)
		g := zeros[c.Choose(len(zeros))]
		order := orders[c.Choose(2)]
		srid := []int{0, 4326}[c.Choose(2)]
		l.calls += int64(checkAll(c, g, srid, order, true))
		c.NonTrivial()
	})
	total(st)

	// streaming decoder under every fragmentation with at most `frag` one-byte reads
	frag := ev.Pick(r, 2, 3)
	reps := []orb.Geometry{
		orb.Point{special[4], special[1]},
		orb.MultiPoint{{1, 2}, {special[5], 4}},
		orb.LineString{{1, 2}, {3, 4}, {5, special[6]}},
		orb.MultiLineString{{{1, 2}}, {}, {{3, 4}, {5, 6}}},
		orb.Polygon{{{1, 2}, {3, 4}, {5, 6}, {1, 2}}, {}},
		orb.MultiPolygon{{{{1, 2}}}, {}, {{{3, 4}}, {{5, 6}}}},
		orb.Collection{orb.Point{1, 2}, orb.Collection{orb.LineString{{3, 4}}, orb.Collection{}}, orb.MultiPolygon{{{{5, 6}}}}},
		orb.Collection{},
	}
	st = r.Explore("stream-fragmentation", fmt.Sprintf("%d representative shapes x {LE,BE} x {absent, 4326}: the streaming decoders fed through a reader whose every Read returns all that is asked or one byte, every fragmentation with <= %d one-byte reads", len(reps), frag), mc.Opts{MaxDev: -1, Split: 3, NewLocal: newLocal}, func(c *mc.Ctx) {
		l := c.Local().(*loc)
		g := reps[c.Choose(len(reps))]
		order := orders[c.Choose(2)]
		srid := []int{0, 4326}[c.Choose(2)]
		enc, _ := encode(g, srid, order)
		budget := frag
		got, gs, err := ewkb.NewDecoder(&fragReader{data: enc, c: c, budget: &budget}).Decode()
		l.calls++
		want := refgeom.Normal(g, false)
		if err != nil || refgeom.Struct(got) != refgeom.Struct(want) || gs != srid {
			c.Failf("stream-fragmented", "ewkb.Decoder over a fragmenting reader (choices %v) = %v srid=%d err=%v, want %v | geometry=%v srid=%d", c.Trail(), got, gs, err, want, g, srid)
		}
		if budget < frag {
			c.NonTrivial()
		}
	})
	total(st)
	// package-level defaults: the byte order of every call without an explicit order (Marshal without argument,
	// Value, ValuePrefixSRID, NewEncoder) comes from wkb.DefaultByteOrder / ewkb.DefaultByteOrder. The whole
	// non-collection product again with both set to big endian (the parts run one after the other, so the
	// variables are constant for the duration of the part)
	wkb.DefaultByteOrder, ewkb.DefaultByteOrder = binary.BigEndian, binary.BigEndian
	st = r.Explore("defaults-big-endian", "wkb.DefaultByteOrder = ewkb.DefaultByteOrder = BigEndian: full product of the 8 non-collection kinds (k=3,m=2) x SRIDs {0, 4326, 257} through every encoder that takes no explicit order, every decode path and the SRID-prefix framing", mc.Opts{MaxDev: -1, Split: 3, NewLocal: newLocal}, func(c *mc.Ctx) {
		l := c.Local().(*loc)
		l.reset(c.Choose(len(special) / 2))
		srid := []int{0, 4326, 257}[c.Choose(3)]
		g := l.g.Kind(c, c.Choose(gg.KCollection), 0, true)
		if def, _ := wkb.Marshal(g); !isTopNil(g) && (len(def) == 0 || def[0] != 0) {
			c.Failf("default-order", "wkb.Marshal without an order wrote % x with DefaultByteOrder = BigEndian | %v", def, g)
		}
		l.calls += int64(checkAll(c, g, srid, binary.BigEndian, true))
		c.NonTrivial()
	})
	total(st)
	wkb.DefaultByteOrder, ewkb.DefaultByteOrder = binary.LittleEndian, binary.LittleEndian

	// sizes: element counts whose 4-byte count field crosses a byte lane (255/256/257, 65535/65536/65537), in
	// each of the six places a count is written
	counts := []int{255, 256, 257, 1000}
	if !r.Quick() {
		counts = append(counts, 65535, 65536, 65537)
	}
	st = r.Explore("sizes", fmt.Sprintf("13 size dimensions (vertices of one ring inside a polygon / multi-polygon / collection, of one line inside a multi-line, of a bare ring; points of a multi-point, vertices of a line, rings of a polygon, lines of a multi-line, polygons of a multi-polygon, members of a collection, sibling sub-collections, nesting depth n/8) x counts %v x {LE,BE} x {absent, 4326}: every decode path", counts), mc.Opts{MaxDev: -1, Split: 2, NewLocal: newLocal}, func(c *mc.Ctx) {
		l := c.Local().(*loc)
		dim := c.Choose(13)
		n := counts[c.Choose(len(counts))]
		order := orders[c.Choose(2)]
		srid := []int{0, 4326}[c.Choose(2)]
		pt := func(i int) orb.Point { return orb.Point{float64(i), float64(-i) / 4} }
		var g orb.Geometry
		switch dim {
		case 0:
			m := make(orb.MultiPoint, n)
			for i := range m {
				m[i] = pt(i)
			}
			g = m
		case 1:
			m := make(orb.LineString, n)
			for i := range m {
				m[i] = pt(i)
			}
			g = m
		case 2:
			m := make(orb.Polygon, n)
			for i := range m {
				m[i] = orb.Ring{pt(i), pt(i + 1), pt(i + 2), pt(i)}
			}
			g = m
		case 3:
			m := make(orb.MultiLineString, n)
			for i := range m {
				m[i] = orb.LineString{pt(i), pt(i + 1)}
			}
			g = m
		case 4:
			m := make(orb.MultiPolygon, n)
			for i := range m {
				m[i] = orb.Polygon{{pt(i), pt(i + 1), pt(i)}}
			}
			g = m
		case 5:
			m := make(orb.Collection, n)
			for i := range m {
				if i%2 == 0 {
					m[i] = pt(i)
				} else {
					m[i] = orb.LineString{pt(i), pt(i + 1)}
				}
			}
			g = m
		case 6: // many sibling sub-collections (nesting depth 2)
			m := make(orb.Collection, n)
			for i := range m {
				m[i] = orb.Collection{pt(i)}
			}
			g = m
		case 7: // a chain of nested collections, n/8 levels deep (31..125, thorough 8192)
			var inner orb.Geometry = pt(0)
			for i := 0; i < n/8; i++ {
				inner = orb.Collection{inner, pt(i + 1)}
			}
			g = inner
		case 8, 9, 10, 11, 12: // n vertices in ONE inner sequence: a ring of a polygon, of a multi-polygon member, a line of a multi-line, a bare ring, a polygon in a collection
			long := make([]orb.Point, n)
			for i := range long {
				long[i] = pt(i)
			}
			switch dim {
			case 8:
				g = orb.Polygon{orb.Ring(long), {pt(1), pt(2), pt(1)}}
			case 9:
				g = orb.MultiPolygon{{{pt(1), pt(2), pt(1)}}, {orb.Ring(long), {pt(3), pt(4), pt(3)}}}
			case 10:
				g = orb.MultiLineString{orb.LineString(long), {pt(1), pt(2)}}
			case 11:
				g = orb.Ring(long)
			case 12:
				g = orb.Collection{pt(7), orb.Polygon{{pt(1), pt(2), pt(1)}, orb.Ring(long)}, orb.LineString(long)}
			}
		}
		l.calls += int64(checkAll(c, g, srid, order, false))
		c.NonTrivial()
	})
	total(st)

	// scanner sessions: one scanner value reused for row after row (the rows.Next loop). Every Scan must leave the
	// scanner exactly as a fresh scanner would be after scanning that row alone - value, SRID, Valid and error.
	{
		pt := orb.Point{1, 2}
		lsg := orb.LineString{{3, 4}, {5, 6}}
		mustE := func(g orb.Geometry, srid int, o binary.ByteOrder) []byte { b, _ := ewkb.Marshal(g, srid, o); return b }
		pre := func(srid uint32, b []byte) []byte {
			var p4 [4]byte
			binary.LittleEndian.PutUint32(p4[:], srid)
			return append(p4[:], b...)
		}
		rows := []struct {
			name string
			v    interface{}
		}{
			{"point srid 4326 LE", mustE(pt, 4326, binary.LittleEndian)},
			{"point no srid LE", mustE(pt, 0, binary.LittleEndian)},
			{"line srid 3857 BE", mustE(lsg, 3857, binary.BigEndian)},
			{"line no srid, hex text", []byte(hex.EncodeToString(mustE(lsg, 0, binary.LittleEndian)))},
			{"NULL", nil},
			{"garbage", []byte{9, 9, 9, 9, 9, 9, 9, 9, 9}},
			{"prefix 4326 + point", pre(4326, mustE(pt, 0, binary.LittleEndian))},
			{"prefix 0 + line", pre(0, mustE(lsg, 0, binary.LittleEndian))},
		}
		type obs struct {
			g     string
			srid  int
			valid bool
			err   string
			dst   string
		}
		kinds := []string{"ewkb.Scanner(nil)", "ewkb.Scanner(*Point)", "ewkb.Scanner(*LineString)", "ewkb.ScannerPrefixSRID(nil)", "wkb.Scanner(nil)", "wkb.Scanner(*Point)"}
		type scanner struct {
			scan func(v interface{}) obs
		}
		mk := func(kind int) scanner {
			errS := func(e error) string {
				if e == nil {
					return ""
				}
				return e.Error()
			}
			cp := func(v interface{}) interface{} {
				if b, ok := v.([]byte); ok {
					return append([]byte(nil), b...)
				}
				return v
			}
			switch kind {
			case 0, 1, 2, 3:
				var dp orb.Point
				var dl orb.LineString
				var s *ewkb.GeometryScanner
				switch kind {
				case 0:
					s = ewkb.Scanner(nil)
				case 1:
					s = ewkb.Scanner(&dp)
				case 2:
					s = ewkb.Scanner(&dl)
				default:
					s = ewkb.ScannerPrefixSRID(nil)
				}
				return scanner{func(v interface{}) obs {
					err := s.Scan(cp(v))
					return obs{refgeom.Bits(s.Geometry), s.SRID, s.Valid, errS(err), fmt.Sprint(dp, dl)}
				}}
			default:
				var dp orb.Point
				var s *wkb.GeometryScanner
				if kind == 4 {
					s = wkb.Scanner(nil)
				} else {
					s = wkb.Scanner(&dp)
				}
				return scanner{func(v interface{}) obs {
					err := s.Scan(cp(v))
					return obs{refgeom.Bits(s.Geometry), 0, s.Valid, errS(err), fmt.Sprint(dp)}
				}}
			}
		}
		sdepth := ev.Pick(r, 3, 4)
		st = r.Explore("scanner-sessions", fmt.Sprintf("every history of 1..%d rows over %d row values (with / without SRID, both byte orders, hex text, NULL, garbage, SRID-prefixed) through one reused scanner of %d kinds: after every row the scanner reports what a fresh scanner reports for that row alone (typed destinations: compared after rows the fresh scanner accepts)", sdepth, len(rows), len(kinds)), mc.Opts{MaxDev: -1, Split: 2, NewLocal: newLocal}, func(c *mc.Ctx) {
			kind := c.Choose(len(kinds))
			n := 1 + c.Choose(sdepth)
			live := mk(kind)
			var hist []string
			for i := 0; i < n; i++ {
				row := rows[c.Choose(len(rows))]
				hist = append(hist, row.name)
				got := live.scan(row.v)
				want := mk(kind).scan(row.v)
				if want.err != "" || !want.valid {
					// a refused or NULL row: value, SRID and destination are whatever the scanner had; the verdict must agree
					if got.err != want.err || got.valid != want.valid {
						c.Failf("scanner-session", "%s after rows %v: err=%q valid=%v, a fresh scanner gives err=%q valid=%v", kinds[kind], hist, got.err, got.valid, want.err, want.valid)
						return
					}
					continue
				}
				if got != want {
					c.Failf("scanner-session", "%s after rows %v: %+v, a fresh scanner gives %+v", kinds[kind], hist, got, want)
					return
				}
			}
			c.NonTrivial()
		})
		total(st)
	}
	// sessions: one Encoder and one Decoder used for a whole history of calls. The reference is the history
	// replayed on fresh objects: every Encode must append exactly what a fresh Marshal with the encoder's
	// current byte order and SRID produces, and one Decoder must read the stream back member by member.
	menu := []orb.Geometry{
		orb.Point{special[4], 2},
		orb.LineString{{1, 2}, {3, special[5]}},
		orb.Polygon{{{1, 2}, {3, 4}, {5, 6}, {1, 2}}},
		orb.MultiPoint{},
		orb.Collection{orb.Point{1, 2}, orb.MultiLineString{{{3, 4}, {5, 6}}}},
		orb.LineString(nil),
		orb.Ring{{1, 2}, {3, 4}, {1, 2}},
	}
	type sop struct {
		kind  int // 0 order, 1 default srid, 2 encode, 3 encode with srid argument
		order binary.ByteOrder
		srid  int
		g     int
	}
	var sops []sop
	for gi := range menu {
		sops = append(sops, sop{kind: 2, g: gi})
	}
	sops = append(sops, sop{kind: 0, order: binary.BigEndian}, sop{kind: 0, order: binary.LittleEndian})
	sops = append(sops, sop{kind: 1, srid: 4326}, sop{kind: 1, srid: 0}, sop{kind: 1, srid: 257})
	for gi := range menu {
		sops = append(sops, sop{kind: 3, g: gi, srid: 0}, sop{kind: 3, g: gi, srid: 12336})
	}
	depth := ev.Pick(r, 4, 5)
	st = r.Explore("sessions", fmt.Sprintf("every history of <= %d calls over %d operations (Encode of %d geometries with and without an SRID argument, SetByteOrder x2, SetSRID x3) on one ewkb.Encoder and, for the histories without SRIDs, one wkb.Encoder; the stream read back by one Decoder", depth, len(sops), len(menu)), mc.Opts{MaxDev: -1, Split: 2, NewLocal: newLocal}, func(c *mc.Ctx) {
		l := c.Local().(*loc)
		n := 1 + c.Choose(depth)
		hist := make([]sop, n)
		plain := true
		for i := range hist {
			hist[i] = sops[c.Choose(len(sops))]
			if hist[i].kind == 1 || hist[i].kind == 3 {
				plain = false
			}
		}
		var ebuf, wbuf bytes.Buffer
		ee := ewkb.NewEncoder(&ebuf)
		we := wkb.NewEncoder(&wbuf)
		order, srid := ewkb.DefaultByteOrder, ewkb.DefaultSRID // documented initial state of ewkb.NewEncoder
		type rec struct {
			g    orb.Geometry
			srid int
		}
		var written []rec
		encodes := 0
		for i, op := range hist {
			switch op.kind {
			case 0:
				order = op.order
				ee.SetByteOrder(op.order)
				we.SetByteOrder(op.order)
			case 1:
				srid = op.srid
				ee.SetSRID(op.srid)
			default:
				s := srid
				before := ebuf.Len()
				var err error
				if op.kind == 3 {
					s = op.srid
					err = ee.Encode(menu[op.g], s)
				} else {
					err = ee.Encode(menu[op.g])
				}
				want, _ := ewkb.Marshal(menu[op.g], s, order)
				if err != nil || !bytes.Equal(ebuf.Bytes()[before:], want) {
					c.Failf("session-encode", "call #%d of the history on one ewkb.Encoder wrote %x err=%v, a fresh ewkb.Marshal(g, %d, %v) gives %x | history=%+v", i, ebuf.Bytes()[before:], err, s, order, want, hist)
					return
				}
				if plain {
					before := wbuf.Len()
					err := we.Encode(menu[op.g])
					want, _ := wkb.Marshal(menu[op.g], order)
					if err != nil || !bytes.Equal(wbuf.Bytes()[before:], want) {
						c.Failf("session-encode", "call #%d of the history on one wkb.Encoder wrote %x err=%v, a fresh wkb.Marshal(g, %v) gives %x | history=%+v", i, wbuf.Bytes()[before:], err, order, want, hist)
						return
					}
				}
				if !isTopNil(menu[op.g]) {
					written = append(written, rec{refgeom.Normal(menu[op.g], false), s})
				}
				encodes++
			}
		}
		ed := ewkb.NewDecoder(bytes.NewReader(ebuf.Bytes()))
		for i, w := range written {
			got, gs, err := ed.Decode()
			l.calls++
			if err != nil || refgeom.Struct(got) != refgeom.Struct(w.g) || gs != w.srid {
				c.Failf("session-decode", "member #%d read by one ewkb.Decoder from the stream = %v srid=%d err=%v, want %v srid=%d | history=%+v", i, got, gs, err, w.g, w.srid, hist)
				return
			}
		}
		if g, _, err := ed.Decode(); err == nil {
			c.Failf("session-decode", "ewkb.Decoder returned %v after the last member of the stream | history=%+v", g, hist)
		}
		if plain {
			wd := wkb.NewDecoder(bytes.NewReader(wbuf.Bytes()))
			for i, w := range written {
				got, err := wd.Decode()
				l.calls++
				if err != nil || refgeom.Struct(got) != refgeom.Struct(w.g) {
					c.Failf("session-decode", "member #%d read by one wkb.Decoder from the stream = %v err=%v, want %v | history=%+v", i, got, err, w.g, hist)
					return
				}
			}
			if g, err := wd.Decode(); err == nil {
				c.Failf("session-decode", "wkb.Decoder returned %v after the last member of the stream | history=%+v", g, hist)
			}
		}
		if encodes >= 2 {
			c.NonTrivial()
		}
	})
	total(st)
	r.Sample(map[string]interface{}{"geometry": "MultiLineString{{{NaN(0x7ff8000000000001),-0}},{}}", "srid": 12336, "order": "BE", "paths": "Unmarshal, Decoder, Scanner(nil) x {raw,hex,HEX,\\xhex}, ScannerPrefixSRID, 11 typed destinations"})
	r.Finish()
}
