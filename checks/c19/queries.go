package main

import (
	"fmt"

	"github.com/paulmach/orb"
	"github.com/paulmach/orb/quadtree"

	"verif/lib/qt"
)

// A query is one read-only call; yield is invoked inside filter callbacks.
type query struct {
	name string
	run  func(q *quadtree.Quadtree, yield func()) []orb.Pointer
}

// windowed queries (by name) are called through their entry here instead of run: the caller's result buffer is handed
// in. The driver gives every goroutine its own window of one arena, with the capacity running on to the end of the
// arena as a plain two-index slice has it - no element is shared, and every result fits its window.
var windowed = map[string]func(q *quadtree.Quadtree, yield func(), b []orb.Pointer) []orb.Pointer{}

func windowedQuery(name string, f func(q *quadtree.Quadtree, yield func(), b []orb.Pointer) []orb.Pointer) query {
	windowed[name] = f
	return query{name, func(q *quadtree.Quadtree, y func()) []orb.Pointer { return f(q, y, make([]orb.Pointer, 0, arenaWindow)) }}
}

// window is the result buffer of goroutine t: arenaWindow slots of the arena, empty, capacity to the arena's end.
const arenaWindow = 8

func window(arena []orb.Pointer, t int) []orb.Pointer { return arena[t*arenaWindow : t*arenaWindow] }

func (qu query) call(q *quadtree.Quadtree, yield func(), arena []orb.Pointer, t int) []orb.Pointer {
	if f := windowed[qu.name]; f != nil {
		return f(q, yield, window(arena, t))
	}
	return qu.run(q, yield)
}

// sharedLimit is read by every thread's queries; nobody may write to it.
var sharedLimit = []float64{1.5}

var qpoints = []orb.Point{{1.5, 1.5}, {4.5, 2}, {2, 2}}

// deep selects the second scenario: a tree more than 32 levels deep (36 coincident pointers plus three that
// leave the common path only around level 42), queried around the hot spot.
var deep = false

var hot = orb.Point{1.3, 0.7} // off every dyadic line, so that the near pointers share the path down to level ~42

const eps = 1.0 / (1 << 40)

func deepMenu() []query {
	even := func(yield func()) quadtree.FilterFunc {
		return func(p orb.Pointer) bool { yield(); return p.(*qt.P).ID%2 == 0 }
	}
	one := func(p orb.Pointer) []orb.Pointer {
		if p == nil {
			return nil
		}
		return []orb.Pointer{p}
	}
	small := orb.Bound{Min: orb.Point{0.8, 0.2}, Max: orb.Point{1.8, 1.2}}
	tiny := orb.Bound{Min: hot, Max: orb.Point{hot[0] + eps/2, hot[1] + eps/2}}
	return []query{
		{"Find(hot)", func(q *quadtree.Quadtree, y func()) []orb.Pointer { return one(q.Find(hot)) }},
		{"Find([3 3])", func(q *quadtree.Quadtree, y func()) []orb.Pointer { return one(q.Find(orb.Point{3, 3})) }},
		{"KNearest(nil,hot,3)", func(q *quadtree.Quadtree, y func()) []orb.Pointer { return q.KNearest(nil, hot, 3) }},
		{"KNearest(nil,hot+eps,38)", func(q *quadtree.Quadtree, y func()) []orb.Pointer { return q.KNearest(nil, orb.Point{hot[0] + eps, hot[1]}, 38) }},
		{"KNearestMatching(nil,hot,2,even)", func(q *quadtree.Quadtree, y func()) []orb.Pointer { return q.KNearestMatching(nil, hot, 2, even(y)) }},
		{"InBound(nil,hot+-0.5)", func(q *quadtree.Quadtree, y func()) []orb.Pointer { return q.InBound(nil, small) }},
		{"InBoundMatching(nil,tiny,even)", func(q *quadtree.Quadtree, y func()) []orb.Pointer { return q.InBoundMatching(nil, tiny, even(y)) }},
	}
}

func deepUniverse() *qt.Universe {
	var pts []orb.Point
	var mc []int
	for i := 0; i < 36; i++ {
		pts = append(pts, hot)
	}
	pts = append(pts, orb.Point{hot[0] + eps, hot[1]}, orb.Point{hot[0], hot[1] + eps}, orb.Point{hot[0] - eps, hot[1] - eps}, orb.Point{3, 3})
	for range pts {
		mc = append(mc, 1)
	}
	return qt.NewUniverse(orb.Bound{Min: orb.Point{0, 0}, Max: orb.Point{4, 4}}, pts, mc)
}

// deepTrees: everything added in index order, in reverse order, and in index order with two coincident pointers removed again.
func deepTrees() [][]qt.Op {
	n := len(deepUniverse().Ps)
	var fwd, rev []qt.Op
	for i := 0; i < n; i++ {
		fwd = append(fwd, qt.Op{Kind: 0, P: i})
		rev = append(rev, qt.Op{Kind: 0, P: n - 1 - i})
	}
	rem := append(append([]qt.Op{}, fwd...), qt.Op{Kind: 1, P: 0}, qt.Op{Kind: 1, P: 17})
	return [][]qt.Op{fwd, rev, rem}
}

func menu() []query {
	if deep {
		return deepMenu()
	}
	var m []query
	one := func(p orb.Pointer) []orb.Pointer {
		if p == nil {
			return nil
		}
		return []orb.Pointer{p}
	}
	even := func(yield func()) quadtree.FilterFunc {
		return func(p orb.Pointer) bool { yield(); return p.(*qt.P).ID%2 == 0 }
	}
	for _, pt := range qpoints {
		pt := pt
		m = append(m,
			query{fmt.Sprintf("Find(%v)", pt), func(q *quadtree.Quadtree, y func()) []orb.Pointer { return one(q.Find(pt)) }},
			query{fmt.Sprintf("Matching(%v,even)", pt), func(q *quadtree.Quadtree, y func()) []orb.Pointer { return one(q.Matching(pt, even(y))) }},
			query{fmt.Sprintf("KNearest(nil,%v,2)", pt), func(q *quadtree.Quadtree, y func()) []orb.Pointer { return q.KNearest(nil, pt, 2) }},
			query{fmt.Sprintf("KNearest(own,%v,3)", pt), func(q *quadtree.Quadtree, y func()) []orb.Pointer {
				return q.KNearest(make([]orb.Pointer, 0, 4), pt, 3)
			}},
			query{fmt.Sprintf("KNearestMatching(nil,%v,2,even,2.5)", pt), func(q *quadtree.Quadtree, y func()) []orb.Pointer {
				return q.KNearestMatching(nil, pt, 2, even(y), 2.5)
			}},
		)
	}
	// k far beyond the number of stored pointers (implementations size or clamp their scratch space by k)
	m = append(m,
		query{"KNearest(nil,[1.5 1.5],300)", func(q *quadtree.Quadtree, y func()) []orb.Pointer { return q.KNearest(nil, qpoints[0], 300) }},
		query{"KNearestMatching(nil,[4.5 2],5000,even)", func(q *quadtree.Quadtree, y func()) []orb.Pointer {
			return q.KNearestMatching(nil, qpoints[1], 5000, even(y))
		}},
	)
	// the distance limit passed as a slice all callers share (the variadic parameter then aliases it)
	m = append(m,
		query{"KNearest(nil,[1.5 1.5],2,shared limit 1.5)", func(q *quadtree.Quadtree, y func()) []orb.Pointer {
			res := q.KNearest(nil, qpoints[0], 2, sharedLimit...)
			if sharedLimit[0] != 1.5 {
				sharedLimit[0] = 1.5
				panic("a k-nearest query wrote to the caller's distance-limit slice")
			}
			return res
		}},
	)
	// a distance limit whose box covers the whole tree, with more matches than k (the search box then shrinks
	// while the heap is full)
	m = append(m,
		query{"KNearest(nil,[2 2],1,100)", func(q *quadtree.Quadtree, y func()) []orb.Pointer { return q.KNearest(nil, qpoints[2], 1, 100) }},
	)
	// results written into the goroutine's window of the shared arena
	m = append(m,
		windowedQuery("KNearest(window,[2 2],2)", func(q *quadtree.Quadtree, y func(), b []orb.Pointer) []orb.Pointer { return q.KNearest(b, qpoints[2], 2) }),
		windowedQuery("InBound(window,whole tree)", func(q *quadtree.Quadtree, y func(), b []orb.Pointer) []orb.Pointer {
			return q.InBound(b, orb.Bound{Min: orb.Point{0, 0}, Max: orb.Point{4, 4}})
		}),
		windowedQuery("InBoundMatching(window,[1,2]^2,even)", func(q *quadtree.Quadtree, y func(), b []orb.Pointer) []orb.Pointer {
			return q.InBoundMatching(b, orb.Bound{Min: orb.Point{1, 1}, Max: orb.Point{2, 2}}, even(y))
		}),
	)
	for _, b := range []orb.Bound{
		{Min: orb.Point{0, 0}, Max: orb.Point{4, 4}},
		{Min: orb.Point{1, 1}, Max: orb.Point{2, 2}},
		{Min: orb.Point{2, 2}, Max: orb.Point{4, 4}},
	} {
		b := b
		m = append(m,
			query{fmt.Sprintf("InBound(nil,%v)", b), func(q *quadtree.Quadtree, y func()) []orb.Pointer { return q.InBound(nil, b) }},
			query{fmt.Sprintf("InBound(own,%v)", b), func(q *quadtree.Quadtree, y func()) []orb.Pointer {
				return q.InBound(make([]orb.Pointer, 0, 1), b)
			}},
			query{fmt.Sprintf("InBoundMatching(nil,%v,even)", b), func(q *quadtree.Quadtree, y func()) []orb.Pointer {
				return q.InBoundMatching(nil, b, even(y))
			}},
		)
	}
	return m
}

func universe() *qt.Universe {
	if deep {
		return deepUniverse()
	}
	pts := []orb.Point{{2, 2}, {2, 2}, {1, 1}, {3, 2}}
	return qt.NewUniverse(orb.Bound{Min: orb.Point{0, 0}, Max: orb.Point{4, 4}}, pts, []int{1, 1, 1, 1})
}

func render(ps []orb.Pointer) string {
	s := "["
	for i, p := range ps {
		if i > 0 {
			s += " "
		}
		if p == nil {
			s += "nil"
		} else {
			s += p.(*qt.P).Name
		}
	}
	return s + "]"
}
