#!/bin/bash
# C19 is built against an instrumented copy of package quadtree (overlay only).
set -e
cd "$(dirname "$(readlink -f "$0")")/../.."
go build -o .work/bin/instr ./tools/instr
W=.work/c19${VERIF_TAG:-}
R=${VERIF_REPO:-/repo}
.work/bin/instr -repo "$R" -out $W -yield quadtree -globals quadtree 2>$W.instr.log || { cat $W.instr.log; exit 1; }
go build ${VERIF_MODFLAG:-} -tags verif -overlay $W/overlay.json -o "$1" ./checks/c19
CGO_ENABLED=1 go build ${VERIF_MODFLAG:-} -race -o "$1-race" ./checks/c19/racepass
