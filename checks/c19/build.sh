#!/bin/bash
# C19 is built against an instrumented copy of package quadtree (overlay only).
set -e
cd "$(dirname "$(readlink -f "$0")")/../.."
go build -o .work/bin/instr ./tools/instr
.work/bin/instr -out .work/c19 -yield quadtree -globals quadtree 2>.work/c19.instr.log || { cat .work/c19.instr.log; exit 1; }
go build -tags verif -overlay .work/c19/overlay.json -o "$1" ./checks/c19
CGO_ENABLED=1 go build -race -o "$1-race" ./checks/c19/racepass
