// C19: concurrent quadtree readers. Every schedule (up to a preemption bound) of
// 2-3 reader threads on every small reachable tree is enumerated under a
// cooperative scheduler (engine E2) driven by the E1 explorer.
package main

import (
	"fmt"
	"os"
	"os/exec"
	"reflect"
	"regexp"
	"sort"
	"strings"
	"time"

	"github.com/paulmach/orb"
	"github.com/paulmach/orb/quadtree"
	"github.com/paulmach/orb/zzverif/mcrt"

	"verif/lib/ev"
	"verif/lib/mc"
	"verif/lib/qt"
	"verif/lib/sched"
)

type local struct {
	u          *qt.Universe
	menu       []query
	cur        *sched.S
	key        string // cached scenario
	want       []string
	dump0      string
	soloWrites string
	outcomes   map[string]struct{}
	points     int64
}

var (
	gNames []string
	gVals  []reflect.Value
)

func init() {
	g := quadtree.ZZVerifGlobals()
	for n := range g {
		gNames = append(gNames, n)
	}
	sort.Strings(gNames)
	for _, n := range gNames {
		gVals = append(gVals, reflect.ValueOf(g[n]).Elem())
	}
}

// hollow matches the dump of a node without a value that still has a child.
var hollow = regexp.MustCompile(`Value:nil Children:\[(nil )*&`)

func globalsDump() string {
	var sb strings.Builder
	for i, n := range gNames {
		sb.WriteString(n + "=" + qt.DumpValue(gVals[i]) + ";")
	}
	return sb.String()
}

func main() {
	r := ev.New("C19", "model_checking")
	r.Rule = "a scenario is (reachable tree structure, one query program per thread); for each scenario every schedule with at most the stated number of preemptions is executed on the real quadtree under the cooperative scheduler; at every scheduling point the complete reflective dump of the tree and of every package-level variable of package quadtree must equal the dump taken before the threads started, and every query must return what it returned when run alone; distinct_nontrivial = executions in which at least one context switch happened while another thread was still inside a query"
	r.Assume = []string{
		"scheduling points: callback seam (Pointer.Point() and FilterFunc of the harness) in the quick tier; in addition a yield before every statement of package quadtree (instrumented overlay copy of the working tree) in the statement parts",
		"memory-model effects below statement granularity are only covered by the supplementary free-running -race pass (2, 8, 32 goroutines), which is sampling and is not the deciding step",
		"caller-supplied buffers are per goroutine, as the property says",
	}
	u0 := universe()
	trees := qt.Reach(u0, ev.Pick(r, 4, 5))
	if r.Quick() {
		// plus the trees of the next level that hold a hollow inner node (no value, but children): only a removal of
		// an inner node's value after a removal below it produces one, which takes five operations
		n4 := len(qt.Reach(u0, 4))
		for _, h := range qt.Reach(u0, 5)[n4:] {
			if hollow.MatchString(qt.Dump(u0.Build(h))) {
				trees = append(trees, h)
			}
		}
	}
	r.Count("tree_structures", int64(len(trees)))
	m0 := menu()

	driver := func(stmtSeam bool, nthreadsMax, nqMax, bound int, treeFilter func(nodes int) bool) func(c *mc.Ctx) {
		return func(c *mc.Ctx) {
			l := c.Local().(*local)
			ti := c.Choose(len(trees))
			if !r.Owned(c, ti) {
				return
			}
			nth := 2
			if nthreadsMax > 2 {
				nth = 2 + c.Choose(nthreadsMax-1)
			}
			progs := make([][]int, nth)
			key := fmt.Sprint(ti)
			for t := range progs {
				nq := 1
				if nqMax > 1 {
					nq = 1 + c.Choose(nqMax)
				}
				for j := 0; j < nq; j++ {
					lo := 0
					if nth == 2 && nqMax == 1 && t == 1 {
						lo = progs[0][0] // unordered pairs: the two threads are symmetric
					}
					progs[t] = append(progs[t], lo+c.Choose(len(l.menu)-lo))
				}
				key += fmt.Sprint(progs[t])
			}
			// the tree may have served queries before the concurrent ones - unusual ones included (an empty box, k = 0,
			// a filter that refuses everything): a built tree that has been read is still a built tree
			prelude := !stmtSeam && c.Bool()
			key += fmt.Sprint(prelude)
			warm := func(t *quadtree.Quadtree) {
				if !prelude {
					return
				}
				empty := orb.Bound{Min: orb.Point{1, 1}, Max: orb.Point{-1, -1}}
				none := func(orb.Pointer) bool { return false }
				t.InBound(nil, empty)
				t.InBoundMatching(make([]orb.Pointer, 0, 2), empty, none)
				t.KNearest(nil, orb.Point{2, 2}, 0)
				t.KNearestMatching(nil, orb.Point{9, 9}, 3, none)
				t.Matching(orb.Point{1, 1}, none)
				t.Find(orb.Point{-5, -5})
			}
			q := l.u.Build(trees[ti])
			warm(q)
			if treeFilter != nil {
				_, nodes, _ := qt.Walk(q)
				if !treeFilter(nodes) {
					c.Skip()
					return
				}
			}
			noYield := func() {}
			if l.key != key {
				// expected results: each query alone, on a separate tree built from the same history
				l.key = key
				l.want = l.want[:0]
				q2 := l.u.Build(trees[ti])
				warm(q2)
				d2 := qt.Dump(q2)
				for t := range progs {
					for _, qi := range progs[t] {
						l.want = append(l.want, render(l.menu[qi].call(q2, noYield, make([]orb.Pointer, len(progs)*arenaWindow), t)))
					}
				}
				l.soloWrites = ""
				if d := qt.Dump(q2); d != d2 {
					l.soloWrites = fmt.Sprintf("running the queries alone, one after the other, changed the tree: %s -> %s", d2, d)
				}
			}
			if l.soloWrites != "" {
				c.Failf("solo-query-writes", "%s", l.soloWrites)
			}
			l.dump0 = qt.Dump(q) + "|" + globalsDump()
			fp0 := qt.Fingerprint(q)
			g0 := globalsDump()
			s := sched.New(c, bound)
			l.cur = s
			defer func() { l.cur = nil }()
			got := make([]string, len(l.want))
			raw := make([][]orb.Pointer, len(l.want)) // the slices the queries returned, looked at again when all are done
			arena := make([]orb.Pointer, nth*arenaWindow)
			bodies := make([]func(), nth)
			idx := 0
			inQuery := make([]bool, nth)
			for t := range progs {
				t := t
				base := idx
				idx += len(progs[t])
				bodies[t] = func() {
					for j, qi := range progs[t] {
						inQuery[t] = true
						raw[base+j] = l.menu[qi].call(q, s.Yield, arena, t)
						got[base+j] = render(raw[base+j])
						inQuery[t] = false
						s.Yield()
					}
				}
			}
			overlapped := false
			last := -1
			s.AtPoint = func(s *sched.S) {
				l.points++
				if qt.Fingerprint(q) != fp0 || globalsDump() != g0 {
					if len(s.Failures) == 0 {
						s.Failures = append(s.Failures, fmt.Sprintf("shared memory written during queries (seen at scheduling point %d, trace %v): %s -> %s", s.Steps, s.Trace, l.dump0, qt.Dump(q)+"|"+globalsDump()))
					}
				}
				if n := len(s.Trace); n > 0 {
					last = s.Trace[n-1]
				}
				if last >= 0 {
					for t := range inQuery {
						if t != last && inQuery[t] {
							overlapped = true
						}
					}
				}
			}
			if stmtSeam {
				mcrt.YieldHook = func(site int) { s.Yield() }
				defer func() { mcrt.YieldHook = nil }()
			}
			s.Run(bodies)
			mcrt.YieldHook = nil
			desc := func() string {
				var ps []string
				for t := range progs {
					var qs []string
					for _, qi := range progs[t] {
						qs = append(qs, l.menu[qi].name)
					}
					ps = append(ps, fmt.Sprintf("T%d:%s", t, strings.Join(qs, ";")))
				}
				return fmt.Sprintf("tree=%v threads={%s} schedule=%v", trees[ti], strings.Join(ps, " | "), s.Trace)
			}
			for _, f := range s.Failures {
				cl := "shared-write"
				if strings.Contains(f, "panicked") {
					cl = "panic"
				} else if strings.Contains(f, "horizon") {
					cl = "horizon"
				}
				c.Failf(cl, "%s | %s", f, desc())
			}
			for i := range got {
				if got[i] != l.want[i] {
					c.Failf("result-differs", "query #%d returned %s concurrently but %s alone | %s", i, got[i], l.want[i], desc())
					break
				}
			}
			// a result belongs to its caller until the caller reuses the buffer: the last result of every goroutine
			// must still read the same when all goroutines are done
			for t, i := 0, 0; t < len(progs); t++ {
				i += len(progs[t])
				if now := render(raw[i-1]); now != got[i-1] {
					c.Failf("result-overwritten", "the last result of goroutine %d read %s when it was returned and %s after the other goroutines had finished | %s", t, got[i-1], now, desc())
					break
				}
			}
			if d := qt.Dump(q) + "|" + globalsDump(); d != l.dump0 {
				c.Failf("tree-changed", "tree after the queries differs: %s -> %s | %s", l.dump0, d, desc())
			}
			if overlapped {
				c.NonTrivial()
			}
			if c.Replay {
				fmt.Println("replay:", desc(), "results:", got, "overlapped:", overlapped)
			}
			l.outcomes[strings.Join(got, ",")] = struct{}{}
		}
	}
	newLocal := func(w int) interface{} {
		u := universe()
		l := &local{u: u, menu: menu(), outcomes: map[string]struct{}{}}
		for _, p := range u.Ps {
			p.Hook = func(*qt.P) { l.cur.Yield() }
		}
		return l
	}
	collect := func(st mc.Stats) {
		all := map[string]struct{}{}
		var pts int64
		for _, x := range st.Locals {
			if l, ok := x.(*local); ok && l != nil {
				for k := range l.outcomes {
					all[k] = struct{}{}
				}
				pts += l.points
			}
		}
		r.States += pts // scheduling points at which the state invariant was evaluated
		r.Transitions += st.Points
		r.Traces += st.Execs
		r.Count("distinct_result_vectors", int64(len(all)))
	}

	np := len(m0) * (len(m0) + 1) / 2
	// thorough parts are capped at 15 minutes each; a part that hits the cap reports exhaustive:false (exit 0)
	cap30 := 15 * time.Minute
	// Part 1: callback seam, 2 threads, 1 query each, all trees. Sharded over processes (GOMAXPROCS=1 each: hand-offs are cheap).
	b1 := ev.Pick(r, 2, 3)
	st := r.ExploreSharded("callback-2threads", fmt.Sprintf("%d trees x %d unordered query pairs, all schedules with <= %d preemptions at callback granularity", len(trees), np, b1),
		mc.Opts{MaxDev: -1, NewLocal: newLocal, Deadline: cap30}, 16, driver(false, 2, 1, b1, nil))
	collect(st)
	// Part 2: statement seam (instrumented quadtree); the yield hook is process-global, hence processes.
	b2 := ev.Pick(r, 1, 2)
	lim2 := ev.Pick(r, 2, 4)
	st = r.ExploreSharded("statement-2threads", fmt.Sprintf("trees with <= %d nodes x %d unordered query pairs, all schedules with <= %d preemptions at statement granularity", lim2, np, b2),
		mc.Opts{MaxDev: -1, NewLocal: newLocal, Deadline: cap30}, 16, driver(true, 2, 1, b2, func(n int) bool { return n <= lim2 }))
	collect(st)
	if !r.Quick() {
		st = r.ExploreSharded("callback-3threads-2queries", "2..3 threads x 1..2 queries each, <= 2 preemptions, trees with <= 3 nodes",
			mc.Opts{MaxDev: -1, NewLocal: newLocal, Deadline: cap30}, 16, driver(false, 3, 2, 2, func(n int) bool { return n <= 3 }))
		collect(st)
		st = r.ExploreSharded("statement-unbounded-small", "trees with <= 2 nodes, 2 threads, every interleaving at statement granularity (no preemption bound)",
			mc.Opts{MaxDev: -1, NewLocal: newLocal, Deadline: cap30}, 16, driver(true, 2, 1, -1, func(n int) bool { return n <= 2 }))
		collect(st)
	}
	// Part 5: a tree more than 32 levels deep (explicit stacks, depth-indexed scratch space, iteration instead of
	// recursion only come into play there); callback seam, 2 threads, one query each around the hot spot
	{
		shallow := trees
		deep = true
		trees = deepTrees()
		dm := menu()
		b5 := ev.Pick(r, 1, 2)
		st = r.ExploreSharded("callback-deep-tree", fmt.Sprintf("%d trees of 40 pointers (36 coincident, 3 within 2^-40 of them, 1 far; > 36 levels) x %d unordered pairs of %d queries around the hot spot, all schedules with <= %d preemptions at callback granularity", len(trees), len(dm)*(len(dm)+1)/2, len(dm), b5),
			mc.Opts{MaxDev: -1, NewLocal: newLocal, Deadline: cap30}, 16, driver(false, 2, 1, b5, nil))
		collect(st)
		deep = false
		trees = shallow
	}
	// Supplementary: free-running race detector pass.
	r.Custom("race-pass", "free-running -race pass with 2, 8, 32 goroutines (supplementary, sampling)", func(p *ev.Part) {
		if r.Replaying() {
			return
		}
		out, err := exec.Command(os.Args[0] + "-race").CombinedOutput()
		p.Execs = 1
		if strings.Contains(string(out), "DATA RACE") {
			p.Fail("data-race", "the Go race detector reported a race between concurrent queries:\n"+string(out[:min(len(out), 3000)]), nil)
		} else if err != nil || !strings.Contains(string(out), "RACEPASS ok") {
			r.HarnessError("race pass did not run: %v %s", err, string(out))
		}
		p.Exhaustive = true
	})
	r.Sample(map[string]interface{}{"tree_history": fmt.Sprint(trees[len(trees)-1]), "threads": []string{m0[2].name, m0[16].name}, "schedule": "thread ids chosen at each scheduling point, e.g. [0 0 1 1 0 1]"})
	_ = orb.Point{}
	r.Finish()
}
