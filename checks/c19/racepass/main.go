// racepass: the thread bodies of C19 run free (no cooperative scheduler) under
// the Go race detector. Supplementary to the exhaustive schedule enumeration: a
// cooperative scheduler's hand-offs are happens-before edges, so the detector
// is blind there. Prints "RACEPASS ok goroutines=N queries=M".
package main

import (
	"fmt"
	"os"
	"sync"

	"github.com/paulmach/orb"
	"github.com/paulmach/orb/geojson"
	"github.com/paulmach/orb/quadtree"
)

type P struct {
	ID int
	Pt orb.Point
}

func (p *P) Point() orb.Point { return p.Pt }

func main() {
	total := 0
	for _, removed := range []bool{false, true} {
		q := quadtree.New(orb.Bound{Min: orb.Point{0, 0}, Max: orb.Point{4, 4}})
		var ps []*P
		for i, pt := range []orb.Point{{2, 2}, {2, 2}, {1, 1}, {3, 2}, {0, 0}, {4, 4}, {2, 3.5}, {0.5, 3}} {
			p := &P{i, pt}
			ps = append(ps, p)
			q.Add(p)
		}
		if removed {
			q.Remove(ps[0], nil)
			q.Remove(ps[4], func(x orb.Pointer) bool { return x == orb.Pointer(ps[4]) })
		}
		even := func(p orb.Pointer) bool { return p.(*P).ID%2 == 0 }
		for _, n := range []int{2, 8, 32} {
			var wg sync.WaitGroup
			for g := 0; g < n; g++ {
				wg.Add(1)
				go func(g int) {
					defer wg.Done()
					buf := make([]orb.Pointer, 0, 8)
					for it := 0; it < 50; it++ {
						pt := orb.Point{float64((g + it) % 5), float64((g * it) % 5)}
						b := orb.Bound{Min: orb.Point{0, 0}, Max: orb.Point{float64(1 + it%4), 4}}
						q.Find(pt)
						q.Matching(pt, even)
						q.KNearest(nil, pt, 3)
						buf = q.KNearest(buf, pt, 2, 2.5)
						q.KNearestMatching(nil, pt, 2, even)
						q.InBound(nil, b)
						buf = q.InBound(buf, b)
						q.InBoundMatching(nil, b, even)
					}
				}(g)
			}
			wg.Wait()
			total += n * 50 * 8
		}
	}
	// the members the library itself offers as pointers: geojson features (their position is derived from the geometry
	// on every visit), one of them at the origin, one symmetric about it, one far from it
	{
		q := quadtree.New(orb.Bound{Min: orb.Point{-4, -4}, Max: orb.Point{4, 4}})
		for i, g := range []orb.Geometry{orb.Point{0, 0}, orb.MultiPoint{{-3, 0}, {3, 0}}, orb.Point{2, 2}, orb.LineString{{1, 1}, {3, 2}}, orb.Point{-2, 1},
			orb.Polygon{{{-1, -3}, {1, -3}, {1, -1}, {-1, -3}}}, orb.Point{0, 0}, orb.Point{3.5, -3.5}} {
			f := geojson.NewFeature(g)
			f.ID = i
			q.Add(f)
		}
		evenF := func(p orb.Pointer) bool { return p.(*geojson.Feature).ID.(int)%2 == 0 }
		for _, n := range []int{2, 8, 32} {
			var wg sync.WaitGroup
			for g := 0; g < n; g++ {
				wg.Add(1)
				go func(g int) {
					defer wg.Done()
					buf := make([]orb.Pointer, 0, 8)
					for it := 0; it < 50; it++ {
						pt := orb.Point{float64((g+it)%5) - 2, float64((g*it)%5) - 2}
						b := orb.Bound{Min: orb.Point{-4, -4}, Max: orb.Point{float64(it%4) - 1, 4}}
						q.Find(pt)
						q.Matching(pt, evenF)
						q.KNearest(nil, pt, 3)
						buf = q.KNearest(buf, pt, 2, 2.5)
						q.KNearestMatching(nil, pt, 2, evenF)
						q.InBound(nil, b)
						buf = q.InBound(buf, b)
						q.InBoundMatching(nil, b, evenF)
					}
				}(g)
			}
			wg.Wait()
			total += n * 50 * 8
		}
	}
	fmt.Printf("RACEPASS ok queries=%d\n", total)
	os.Exit(0)
}
