// C05: decoders never panic, never loop forever and never over-allocate on hostile input.
// Every part runs in child processes (one goroutine each) under an address-space
// limit with a crash journal: a Go fatal error or a hang cannot be recovered in-process.
package main

import (
	"bytes"
	"compress/gzip"
	"encoding/binary"
	"encoding/hex"
	"encoding/json"
	"fmt"
	"math"
	"runtime"
	"runtime/debug"
	"runtime/metrics"
	"sort"
	"strings"

	"github.com/paulmach/orb"
	"github.com/paulmach/orb/encoding/ewkb"
	"github.com/paulmach/orb/encoding/mvt"
	"github.com/paulmach/orb/encoding/wkb"
	"github.com/paulmach/orb/encoding/wkt"
	"github.com/paulmach/orb/geojson"
	"go.mongodb.org/mongo-driver/bson"

	"verif/lib/ev"
	"verif/lib/mc"
	"verif/lib/refgeom"
)

var allocSample = []metrics.Sample{{Name: "/gc/heap/allocs:bytes"}}

// allocated reads a process-wide counter: the difference around a call is the cost of that call only while no other
// goroutine of the process allocates, which is why every part of this check is explored with ExploreSharded (one
// worker per child process) and never with r.Explore's worker pool.
func allocated() uint64 {
	metrics.Read(allocSample)
	return allocSample[0].Value.Uint64()
}

// guard runs one decoder call: no panic, and allocation bounded by the input length.
func guard(c *mc.Ctx, entry string, n int, input func() string, fn func()) {
	before := allocated()
	defer func() {
		if r := recover(); r != nil {
			if _, rt := r.(runtime.Error); rt && (strings.HasPrefix(entry, "bson->") || strings.HasPrefix(entry, "bson-method(well-formed)->")) && panicInBSONDriver(debug.Stack()) {
				// a run-time error (index / slice bounds) raised inside go.mongodb.org/mongo-driver while it reads the
				// document; a deliberate panic of a driver accessor that orb called on the wrong element type is not this
				c.Failf("panic-inside-bson-driver", "%s: the BSON driver panicked: %v | input %s", entry, r, input())
				return
			}
			c.Failf("panic:"+entry, "%s panicked: %v | input %s", entry, r, input())
			return
		}
		if d := allocated() - before; d > uint64(256*n)+(4<<20) {
			c.Failf("over-allocation:"+entry, "%s allocated %d bytes for an input of %d bytes | input %s", entry, d, n, input())
		}
	}()
	fn()
}

// panicInBSONDriver reports whether the innermost non-runtime frame of the panicking
// goroutine belongs to the mongo driver (stack as printed by debug.Stack inside recover).
func panicInBSONDriver(stack []byte) bool {
	lines := strings.Split(string(stack), "\n")
	seenPanic, first, machinery := false, "", false
	for _, l := range lines {
		if strings.HasPrefix(l, "panic(") {
			seenPanic = true
			continue
		}
		if !seenPanic || strings.HasPrefix(l, "\t") || strings.HasPrefix(l, "runtime.") {
			continue
		}
		if first == "" {
			first = l
		}
		// frames from the panic up to the first frame of orb: the recorded finding is about the driver's document
		// reader / struct decoder, entered from orb with a document the driver itself validated; a panic in another
		// driver function that orb calls with unchecked input (Validate, Lookup, ...) is orb's to prevent
		if strings.HasPrefix(l, "github.com/paulmach/orb") {
			break
		}
		if strings.Contains(l, "mongo-driver/bson/bsonrw.") || strings.Contains(l, "mongo-driver/bson/bsoncodec.") {
			machinery = true
		}
	}
	return strings.HasPrefix(first, "go.mongodb.org/mongo-driver/") && machinery
}

func hx(b []byte) func() string {
	return func() string {
		if len(b) > 200 {
			return hex.EncodeToString(b[:200]) + "…"
		}
		return hex.EncodeToString(b)
	}
}

func cp(b []byte) []byte { return append([]byte(nil), b...) }

// ---- entry points ----

// canaries: after a decoder has been handed an input - mostly a malformed one - the next valid input must decode to
// what it always decodes to (nothing left behind in pooled buffers, reused scratch space, package-level state).
var (
	canaryWKBBytes  = wkb.MustMarshal(orb.MultiPolygon{{{{1, 2}, {3, 4}, {5, 6}, {1, 2}}, {{7, 8}, {9, 10}, {7, 8}}}, {{{11, 12}}}})
	canaryWKBWant   = refgeom.Bits(orb.MultiPolygon{{{{1, 2}, {3, 4}, {5, 6}, {1, 2}}, {{7, 8}, {9, 10}, {7, 8}}}, {{{11, 12}}}})
	canaryWKT       = "MULTIPOLYGON(((1 2,3 4,5 6,1 2),(7 8,9 10,7 8)),((11 12)))"
	canaryJSON      = []byte(`{"type":"Feature","id":7,"bbox":[1,2,3,4],"geometry":{"type":"MultiPolygon","coordinates":[[[[1,2],[3,4],[5,6],[1,2]],[[7,8],[9,10],[7,8]]],[[[11,12]]]]},"properties":{"k":"v"}}`)
	canaryTile      []byte
	canaryTileWant  string
)

func init() {
	f := geojson.NewFeature(orb.MultiPolygon{{{{0, 0}, {10, 0}, {10, 10}, {0, 10}, {0, 0}}, {{2, 2}, {2, 4}, {4, 4}, {4, 2}, {2, 2}}}, {{{20, 20}, {30, 20}, {30, 30}, {20, 20}}}})
	f.ID = 9
	f.Properties["a"], f.Properties["b"] = "x", 1.5
	l := &mvt.Layer{Name: "canary", Version: 2, Extent: 4096, Features: []*geojson.Feature{f, geojson.NewFeature(orb.LineString{{1, 1}, {5, 5}})}}
	canaryTile, _ = mvt.Marshal(mvt.Layers{l})
	ls, _ := mvt.Unmarshal(canaryTile)
	canaryTileWant = tileString(ls)
}

func tileString(ls mvt.Layers) string {
	var sb strings.Builder
	for _, l := range ls {
		fmt.Fprintf(&sb, "%s/%d/%d:", l.Name, l.Version, l.Extent)
		for _, f := range l.Features {
			fmt.Fprintf(&sb, "%v|%s|%v;", f.ID, refgeom.Bits(f.Geometry), f.Properties)
		}
	}
	return sb.String()
}

// canaryEvery runs the canary of a format after every n-th input of that format on this worker (a decoder that is
// left in a bad state stays in it until something resets it; the next canary on the worker sees it).
func canaryEvery(c *mc.Ctx, n int, format string, input func() string) {
	k := (c.Worker%64)*4 + map[string]int{"wkb": 0, "wkt": 1, "mvt": 2, "geojson": 3}[format]
	if canaryCounts[k]++; canaryCounts[k]%n == 0 {
		canary(c, format, input)
	}
}

var canaryCounts [256]int

func canary(c *mc.Ctx, format string, input func() string) {
	defer func() {
		if r := recover(); r != nil {
			c.Failf("canary:"+format, "after the input %s a valid %s document makes the decoder panic: %v", input(), format, r)
		}
	}()
	switch format {
	case "wkb":
		g, err := wkb.Unmarshal(canaryWKBBytes)
		g2, _, err2 := ewkb.NewDecoder(bytes.NewReader(canaryWKBBytes)).Decode()
		if err != nil || err2 != nil || refgeom.Bits(g) != canaryWKBWant || refgeom.Bits(g2) != canaryWKBWant {
			c.Failf("canary:wkb", "after the input %s a valid multi-polygon decodes to %v (%v) / %v (%v)", input(), g, err, g2, err2)
		}
	case "wkt":
		if g, err := wkt.Unmarshal(canaryWKT); err != nil || refgeom.Bits(g) != canaryWKBWant {
			c.Failf("canary:wkt", "after the input %s the text %s parses to %v (%v)", input(), canaryWKT, g, err)
		}
	case "mvt":
		ls, err := mvt.Unmarshal(canaryTile)
		if err != nil || tileString(ls) != canaryTileWant {
			c.Failf("canary:mvt", "after the input %s a valid tile decodes to %s (%v), want %s", input(), tileString(ls), err, canaryTileWant)
		}
	case "geojson":
		f, err := geojson.UnmarshalFeature(canaryJSON)
		if err != nil || f.ID != float64(7) || len(f.BBox) != 4 || f.Properties["k"] != "v" || refgeom.Bits(f.Geometry) != canaryWKBWant {
			c.Failf("canary:geojson", "after the input %s a valid feature decodes to %+v (%v)", input(), f, err)
		}
	}
}

func decodeMVT(c *mc.Ctx, b []byte) (ok bool) {
	defer canaryEvery(c, 256, "mvt", hx(b))
	guard(c, "mvt.Unmarshal", len(b), hx(b), func() {
		ls, err := mvt.Unmarshal(cp(b))
		ok = err == nil && len(ls) > 0
		if err != nil && ls != nil {
			c.Failf("value-and-error:mvt.Unmarshal", "returned both layers and %v | input %s", err, hx(b)())
		}
	})
	guard(c, "mvt.UnmarshalGzipped", len(b), hx(b), func() { mvt.UnmarshalGzipped(cp(b)) })
	return
}

var wkbDsts = []func() interface{}{
	func() interface{} { return nil }, func() interface{} { return &orb.Point{} }, func() interface{} { return &orb.MultiPoint{} },
	func() interface{} { return &orb.LineString{} }, func() interface{} { return &orb.MultiLineString{} }, func() interface{} { return &orb.Ring{} },
	func() interface{} { return &orb.Polygon{} }, func() interface{} { return &orb.MultiPolygon{} }, func() interface{} { return &orb.Collection{} },
	func() interface{} { return &orb.Bound{} },
}

func decodeWKB(c *mc.Ctx, b []byte, level int) (ok bool) {
	defer canaryEvery(c, 128, "wkb", hx(b))
	guard(c, "wkb.Unmarshal", len(b), hx(b), func() {
		g, err := wkb.Unmarshal(cp(b))
		ok = err == nil
		if err == nil && g != nil {
			// stability: re-encoding and decoding again gives the same value
			enc, e1 := wkb.Marshal(g)
			g2, e2 := wkb.Unmarshal(enc)
			if e1 != nil || e2 != nil || refgeom.Struct(g2) != refgeom.Struct(refgeom.Normal(g, false)) {
				c.Failf("wkb-unstable", "decode(encode(v)) != v: %v (%v) vs %v (%v) | input %s", g, e1, g2, e2, hx(b)())
			}
		}
	})
	guard(c, "ewkb.Unmarshal", len(b), hx(b), func() { ewkb.Unmarshal(cp(b)) })
	guard(c, "wkb.Decoder", len(b), hx(b), func() { wkb.NewDecoder(bytes.NewReader(b)).Decode() })
	guard(c, "ewkb.Decoder", len(b), hx(b), func() { ewkb.NewDecoder(bytes.NewReader(b)).Decode() })
	if level == 0 {
		return
	}
	for di, mk := range wkbDsts {
		if level == 1 && di != 0 && di != 9 {
			continue
		}
		entry := fmt.Sprintf("Scanner(dst#%d)", di)
		guard(c, "wkb."+entry, len(b), hx(b), func() { wkb.Scanner(mk()).Scan(cp(b)) })
		guard(c, "ewkb."+entry, len(b), hx(b), func() { ewkb.Scanner(mk()).Scan(cp(b)) })
		guard(c, "ewkb.PrefixSRID"+entry, len(b), hx(b), func() { ewkb.ScannerPrefixSRID(mk()).Scan(cp(b)) })
		if di == 0 || di == 4 {
			h := []byte(hex.EncodeToString(b))
			guard(c, "wkb."+entry+"/hex", len(h), hx(b), func() { wkb.Scanner(mk()).Scan(cp(h)) })
			x := append([]byte("\\x"), h...)
			guard(c, "ewkb."+entry+"/xhex", len(x), hx(b), func() { ewkb.Scanner(mk()).Scan(cp(x)) })
			guard(c, "ewkb.PrefixSRID"+entry+"/hex", len(h), hx(b), func() { ewkb.ScannerPrefixSRID(mk()).Scan(cp(h)) })
			guard(c, "ewkb.PrefixSRID"+entry+"/xhex", len(x), hx(b), func() { ewkb.ScannerPrefixSRID(mk()).Scan(cp(x)) })
			guard(c, "wkb."+entry+"/xhex", len(x), hx(b), func() { wkb.Scanner(mk()).Scan(cp(x)) })
		}
	}
	return
}

func decodeWKT(c *mc.Ctx, s string) (ok bool) {
	in := func() string { return fmt.Sprintf("%q", s) }
	defer canaryEvery(c, 16, "wkt", in)
	guard(c, "wkt.Unmarshal", len(s), in, func() {
		g, err := wkt.Unmarshal(s)
		ok = err == nil
		if err != nil && g != nil {
			c.Failf("value-and-error:wkt.Unmarshal", "returned both %v and %v | input %q", g, err, s)
		}
	})
	guard(c, "wkt.UnmarshalPoint", len(s), in, func() { wkt.UnmarshalPoint(s) })
	guard(c, "wkt.UnmarshalMultiPoint", len(s), in, func() { wkt.UnmarshalMultiPoint(s) })
	guard(c, "wkt.UnmarshalLineString", len(s), in, func() { wkt.UnmarshalLineString(s) })
	guard(c, "wkt.UnmarshalMultiLineString", len(s), in, func() { wkt.UnmarshalMultiLineString(s) })
	guard(c, "wkt.UnmarshalPolygon", len(s), in, func() { wkt.UnmarshalPolygon(s) })
	guard(c, "wkt.UnmarshalMultiPolygon", len(s), in, func() { wkt.UnmarshalMultiPolygon(s) })
	guard(c, "wkt.UnmarshalCollection", len(s), in, func() { wkt.UnmarshalCollection(s) })
	return
}

func decodeJSON(c *mc.Ctx, doc []byte) (ok bool) {
	in := func() string {
		if len(doc) > 300 {
			return string(doc[:300]) + "…"
		}
		return string(doc)
	}
	defer canary(c, "geojson", in)
	guard(c, "geojson.UnmarshalGeometry", len(doc), in, func() {
		g, err := geojson.UnmarshalGeometry(doc)
		if err == nil && g != nil {
			ok = true
			g.Geometry()
		}
	})
	guard(c, "geojson.UnmarshalFeature", len(doc), in, func() {
		if _, err := geojson.UnmarshalFeature(doc); err == nil {
			ok = true
		}
	})
	guard(c, "geojson.UnmarshalFeatureCollection", len(doc), in, func() { geojson.UnmarshalFeatureCollection(doc) })
	guard(c, "json->geojson.Point", len(doc), in, func() { var v geojson.Point; json.Unmarshal(doc, &v) })
	guard(c, "json->geojson.MultiPoint", len(doc), in, func() { var v geojson.MultiPoint; json.Unmarshal(doc, &v) })
	guard(c, "json->geojson.LineString", len(doc), in, func() { var v geojson.LineString; json.Unmarshal(doc, &v) })
	guard(c, "json->geojson.MultiLineString", len(doc), in, func() { var v geojson.MultiLineString; json.Unmarshal(doc, &v) })
	guard(c, "json->geojson.Polygon", len(doc), in, func() { var v geojson.Polygon; json.Unmarshal(doc, &v) })
	guard(c, "json->geojson.MultiPolygon", len(doc), in, func() { var v geojson.MultiPolygon; json.Unmarshal(doc, &v) })
	guard(c, "json->geojson.BBox", len(doc), in, func() { var v geojson.BBox; json.Unmarshal(doc, &v) })
	// the same document as BSON, when it is a JSON object
	var generic map[string]interface{}
	if json.Unmarshal(doc, &generic) == nil && generic != nil {
		if bd, err := bson.Marshal(generic); err == nil {
			decodeBSON(c, bd, in)
		}
	}
	return
}

func decodeBSON(c *mc.Ctx, bd []byte, in func() string) (ok bool) {
	guard(c, "bson->Geometry", len(bd), in, func() {
		g := &geojson.Geometry{}
		if bson.Unmarshal(bd, g) == nil {
			g.Geometry()
		}
	})
	guard(c, "bson->Feature", len(bd), in, func() { ok = bson.Unmarshal(bd, &geojson.Feature{}) == nil })
	guard(c, "bson->FeatureCollection", len(bd), in, func() { bson.Unmarshal(bd, &geojson.FeatureCollection{}) })
	guard(c, "bson->geojson.Polygon", len(bd), in, func() { var v geojson.Polygon; bson.Unmarshal(bd, &v) })
	guard(c, "bson->geojson.Point", len(bd), in, func() { var v geojson.Point; bson.Unmarshal(bd, &v) })
	// the unmarshalling methods called directly (the driver's own entry point rejects some inputs before it calls
	// them). The recorded driver finding can excuse a panic here only for a document the driver's own validator
	// accepts: handing the driver anything else is the caller's - orb's - doing.
	m := "bson-method->"
	if wellFormedBSON(bd) {
		m = "bson-method(well-formed)->"
	}
	guard(c, m+"Geometry", len(bd), in, func() { (&geojson.Geometry{}).UnmarshalBSON(cp(bd)) })
	guard(c, m+"Feature", len(bd), in, func() { (&geojson.Feature{}).UnmarshalBSON(cp(bd)) })
	guard(c, m+"FeatureCollection", len(bd), in, func() { (&geojson.FeatureCollection{}).UnmarshalBSON(cp(bd)) })
	guard(c, m+"geojson.Point", len(bd), in, func() { var v geojson.Point; v.UnmarshalBSON(cp(bd)) })
	guard(c, m+"geojson.MultiPoint", len(bd), in, func() { var v geojson.MultiPoint; v.UnmarshalBSON(cp(bd)) })
	guard(c, m+"geojson.LineString", len(bd), in, func() { var v geojson.LineString; v.UnmarshalBSON(cp(bd)) })
	guard(c, m+"geojson.MultiLineString", len(bd), in, func() { var v geojson.MultiLineString; v.UnmarshalBSON(cp(bd)) })
	guard(c, m+"geojson.Polygon", len(bd), in, func() { var v geojson.Polygon; v.UnmarshalBSON(cp(bd)) })
	guard(c, m+"geojson.MultiPolygon", len(bd), in, func() { var v geojson.MultiPolygon; v.UnmarshalBSON(cp(bd)) })
	return
}

// wellFormedBSON: the declared length is the length of the data and the driver's validator accepts the document.
func wellFormedBSON(b []byte) (ok bool) {
	if len(b) < 5 || int64(binary.LittleEndian.Uint32(b)) != int64(len(b)) {
		return false
	}
	defer func() {
		if recover() != nil {
			ok = false
		}
	}()
	return bson.Raw(b).Validate() == nil
}

// ---- seeds: valid encodings whose mutations are explored ----

// sortedBSON re-encodes a document with its top-level elements in key order: a feature collection is marshalled
// from a map, and the seeds must be the same bytes in every process (shards, replays).
func sortedBSON(doc []byte) []byte {
	elems, err := bson.Raw(doc).Elements()
	if err != nil {
		panic(err)
	}
	sort.Slice(elems, func(i, j int) bool { return elems[i].Key() < elems[j].Key() })
	var body []byte
	for _, e := range elems {
		body = append(body, e...)
	}
	out := make([]byte, 4, len(body)+5)
	binary.LittleEndian.PutUint32(out, uint32(len(body)+5))
	out = append(out, body...)
	return append(out, 0)
}

var seedGeoms = []orb.Geometry{
	orb.Point{1, 2},
	orb.MultiPoint{{1, 2}, {3, 4}},
	orb.LineString{{1, 2}, {3, 4}, {5, 6}},
	orb.MultiLineString{{{1, 2}, {3, 4}}, {{5, 6}, {7, 8}}},
	orb.Polygon{{{0, 0}, {4, 0}, {4, 4}, {0, 0}}, {{1, 1}, {2, 1}, {2, 2}, {1, 1}}},
	orb.MultiPolygon{{{{0, 0}, {4, 0}, {4, 4}, {0, 0}}}, {{{5, 5}, {6, 5}, {6, 6}, {5, 5}}}},
	orb.Collection{orb.Point{1, 2}, orb.LineString{{3, 4}, {5, 6}}, orb.Collection{orb.MultiPoint{{7, 8}}}},
	orb.MultiPoint{},
}

func mvtSeeds() [][]byte {
	var out [][]byte
	for i, g := range seedGeoms[:6] {
		fc := geojson.NewFeatureCollection()
		f := geojson.NewFeature(g)
		f.ID = i + 1
		f.Properties = geojson.Properties{"a": "x", "b": 1.5, "c": true, "d": int64(-7), "e": uint64(7), "f": float32(2), "g": nil}
		fc.Append(f)
		fc.Append(geojson.NewFeature(orb.Point{float64(i), 3}))
		b, err := mvt.Marshal(mvt.NewLayers(map[string]*geojson.FeatureCollection{"layer": fc}))
		if err != nil {
			panic(err)
		}
		out = append(out, b)
	}
	return out
}

// minimal protobuf writer for the hand-built tile grammar
type pb struct{ b []byte }

func (p *pb) varint(v uint64) {
	for v >= 0x80 {
		p.b = append(p.b, byte(v)|0x80)
		v >>= 7
	}
	p.b = append(p.b, byte(v))
}
func (p *pb) tag(field, wire int) { p.varint(uint64(field<<3 | wire)) }
func (p *pb) bytes(field int, b []byte) {
	p.tag(field, 2)
	p.varint(uint64(len(b)))
	p.b = append(p.b, b...)
}
func (p *pb) uv(field int, v uint64) { p.tag(field, 0); p.varint(v) }

func main() {
	r := ev.New("C05", "exploration")
	r.Isolate = true
	r.Rule = "exhaustive short inputs (every byte string up to the stated length for the vector-tile decoders; every WKB header combination of byte-order byte x type word x SRID flag x boundary element counts at two nesting levels x every truncation; every WKT sentence up to the stated number of tokens over a 16-token alphabet; a GeoJSON/BSON document menu) and the single-mutation closure of valid encodings (truncate at every length, flip every bit, overwrite every 4-byte word with every boundary count, splice every prefix with every suffix of another encoding); every input goes through every decode entry point of its format; non-trivial = at least one entry point accepts the input (returns a value)"
	r.Assume = []string{
		"every part runs in single-goroutine child processes with a 12 GiB address-space limit, a per-execution 60 s watchdog (a hang is a violation) and a crash journal (a process death is a violation naming the input)",
		"allocation per decoder call is measured with runtime/metrics /gc/heap/allocs:bytes and must stay below 256 x len(input) + 4 MiB (an order of magnitude above the legitimate worst case of MaxPointsAlloc x 16 B)",
		"coverage-guided fuzzing and asymptotic (large-input) behaviour are outside this family of technique",
	}
	counts := []uint32{0, 1, 2, 1 << 28, 1<<28 + 1, 1 << 31, 1<<32 - 1, 1 << 27}
	accepted := func(c *mc.Ctx, ok bool) {
		if ok {
			c.NonTrivial()
		}
	}

	// 1. MVT: every short byte string
	nb := ev.Pick(r, 3, 4)
	r.ExploreSharded("mvt-short", fmt.Sprintf("every byte string of length 0..%d through mvt.Unmarshal and mvt.UnmarshalGzipped", nb), mc.Opts{MaxDev: -1}, 16, func(c *mc.Ctx) {
		b0 := c.Choose(257) // 256 = empty
		if !r.Owned(c, b0) {
			return
		}
		var b []byte
		if b0 < 256 {
			b = append(b, byte(b0))
			for len(b) < nb {
				v := c.Choose(257)
				if v == 0 {
					break // 0 = end of string; byte values are v-1 ... except that byte 0xFF is also needed:
				}
				b = append(b, byte(v-1))
			}
		}
		accepted(c, decodeMVT(c, b))
	})
	// 1b. MVT hand-built grammar: features with / without each field, inflated geometry counts, truncation
	geoms := [][]uint32{
		nil,                           // no geometry field at all
		{},                            // empty packed field
		{9, 2, 2},                     // moveTo(1) 1 1
		{9, 2, 2, 18, 2, 2, 2, 2},     // moveTo + lineTo(2)
		{9, 2, 2, 18, 2, 2, 2, 2, 15}, // + closePath
		{9, 2, 2, uint32(1<<29-1)<<3 | 2, 2, 2},
		{9, 2, 2, 15, 15},
		{9, 2},
		{17, 2, 2, 4, 4}, // moveTo(2): multipoint
	}
	// first command word = every command id x boundary count, with several tails
	for _, cmd := range []uint32{1, 2, 7, 0, 3} {
		for _, cnt := range []uint32{0, 1, 2, 1 << 20, 1 << 24, 1 << 28, 1<<29 - 1} {
			w := cnt<<3 | cmd
			geoms = append(geoms, []uint32{w}, []uint32{w, 2}, []uint32{w, 2, 2}, []uint32{w, 2, 2, 2}, []uint32{w, 2, 2, 18, 2, 2}, []uint32{9, 2, 2, w, 2, 2}, []uint32{9, 2, 2, w, 2}, []uint32{9, 2, 2, 10, 2, 2, w})
		}
	}
	baseGeoms := 9
	r.ExploreSharded("mvt-grammar", "hand-built tiles: layer fields present/absent/repeated, feature with id/tags/type/geometry each present or absent, 9 geometry command streams, value messages of every kind, unknown fields; every truncation", mc.Opts{MaxDev: -1}, 16, func(c *mc.Ctx) {
		gi := c.Choose(baseGeoms)
		if !r.Owned(c, gi) {
			return
		}
		var f pb
		if c.Bool() {
			f.uv(1, uint64(c.Choose(3))*1e9)
		}
		switch c.Choose(4) {
		case 1:
			f.bytes(2, []byte{0, 0})
		case 2:
			f.bytes(2, []byte{0, 0, 1}) // odd number of tags
		case 3:
			f.bytes(2, []byte{9, 9}) // indexes beyond the tables
		}
		if t := c.Choose(5); t > 0 {
			f.uv(3, uint64(t-1)) // geometry type 0..3
		}
		if g := geoms[gi]; g != nil {
			var pk pb
			for _, v := range g {
				pk.varint(uint64(v))
			}
			f.bytes(4, pk.b)
		}
		if c.Bool() {
			f.uv(9, 1) // unknown field
		}
		var l pb
		if c.Bool() {
			l.bytes(1, []byte("n"))
		}
		l.bytes(2, f.b)
		if c.Bool() {
			l.bytes(2, f.b) // the same feature twice (iterator reuse)
		}
		if c.Bool() {
			l.bytes(3, []byte("k"))
		}
		switch c.Choose(4) {
		case 1:
			var v pb
			v.bytes(1, []byte("s"))
			l.bytes(4, v.b)
		case 2:
			var v pb
			v.uv(7, 1)
			l.bytes(4, v.b)
		case 3:
			l.bytes(4, []byte{0x11}) // double, truncated
		}
		if c.Bool() {
			l.uv(5, 4096)
			l.uv(15, 2)
		}
		var t pb
		t.bytes(3, l.b)
		n := c.Choose(len(t.b) + 1)
		b := t.b[:len(t.b)-n]
		accepted(c, decodeMVT(c, b))
	})

	r.ExploreSharded("mvt-geometry-commands", fmt.Sprintf("%d geometry command streams (every command id 0,1,2,3,7 x counts {0,1,2,2^20,2^24,2^28,2^29-1} as the first, second or last command word, followed by 0, 1, 2 or 3 parameter words) x geometry type 0..4 x every truncation of the tile", len(geoms)-baseGeoms), mc.Opts{MaxDev: -1}, 16, func(c *mc.Ctx) {
		gi := baseGeoms + c.Choose(len(geoms)-baseGeoms)
		if !r.Owned(c, gi) {
			return
		}
		var f pb
		if t := c.Choose(6); t > 0 {
			f.uv(3, uint64(t-1))
		}
		var pk pb
		for _, v := range geoms[gi] {
			pk.varint(uint64(v))
		}
		f.bytes(4, pk.b)
		var l pb
		l.bytes(1, []byte("n"))
		l.bytes(2, f.b)
		if c.Bool() {
			l.bytes(2, f.b)
		}
		var t pb
		t.bytes(3, l.b)
		n := c.Choose(len(t.b) + 1)
		accepted(c, decodeMVT(c, t.b[:len(t.b)-n]))
	})

	// 2. WKB header combinations
	orderBytes := []byte{1, 0, 2, 255}
	types := []uint32{1, 2, 3, 4, 5, 6, 7, 0, 8, 0x20000001, 0x20000002, 0x20000003, 0x20000004, 0x20000005, 0x20000006, 0x20000007, 0x80000001, 0x40000002, 0xFFFFFFFF, 0x11, 0x103}
	r.ExploreSharded("wkb-headers", fmt.Sprintf("%d byte-order bytes x %d type words x SRID x boundary counts %v at the outer and the member level x member headers x every truncation; all byte, stream and scanner decoders (10 destinations, raw / hex / \\x / SRID-prefix framing)", len(orderBytes), len(types), counts), mc.Opts{MaxDev: -1}, 16, func(c *mc.Ctx) {
		ti := c.Choose(len(types))
		if !r.Owned(c, ti) {
			return
		}
		ob := orderBytes[c.Choose(len(orderBytes))]
		var bo binary.ByteOrder = binary.LittleEndian
		if ob == 0 {
			bo = binary.BigEndian
		}
		put := func(b []byte, v uint32) []byte { var t [4]byte; bo.PutUint32(t[:], v); return append(b, t[:]...) }
		b := []byte{ob}
		b = put(b, types[ti])
		if types[ti]&0x20000000 != 0 {
			b = put(b, 4326)
		}
		b = put(b, counts[c.Choose(len(counts))])
		// payload: 0..2 members; a member optionally has its own header, a count and 0..2 points; the second member repeats the first
		if m := c.Choose(3); m > 0 {
			var mem []byte
			if c.Bool() {
				mem = append(mem, ob)
				mem = put(mem, types[c.Choose(8)])
			}
			mem = put(mem, counts[c.Choose(len(counts))])
			mem = append(mem, make([]byte, 16*c.Choose(3))...)
			for ; m > 0; m-- {
				b = append(b, mem...)
			}
		}
		n := c.Choose(len(b) + 1)
		b = b[:len(b)-n]
		lvl := 1
		if n <= 1 {
			lvl = 2
		}
		accepted(c, decodeWKB(c, b, lvl))
	})

	// 3. WKT sentences
	tokens := []string{"POINT", "LINESTRING", "POLYGON", "MULTIPOINT", "MULTILINESTRING", "MULTIPOLYGON", "GEOMETRYCOLLECTION", "EMPTY", "(", ")", ",", " ", "1", "-1e5", "1 2", "x"}
	nt := ev.Pick(r, 5, 6)
	// long payloads with an inflated count: the allocation caps of the stream decoder must keep holding after
	// the first 10000 genuine points (proportional to the input, not to the claimed count)
	r.ExploreSharded("wkb-long-payload", "line string / polygon ring / collection member with 9999..10002 genuine points and a count field claiming {genuine, 4e6, 2^28, 2^32-1} x {LE, BE}: byte, stream and scanner decoders", mc.Opts{MaxDev: -1}, 8, func(c *mc.Ctx) {
		genuine := 9999 + c.Choose(4)
		claim := []uint32{uint32(genuine), 4000000, 1 << 28, 1<<32 - 1}[c.Choose(4)]
		form := c.Choose(3)
		be := c.Bool()
		if !r.Owned(c, genuine*4+form) {
			return
		}
		var order binary.ByteOrder = binary.LittleEndian
		ob := byte(1)
		if be {
			order, ob = binary.BigEndian, 0
		}
		u32 := func(v uint32) []byte { b := make([]byte, 4); order.PutUint32(b, v); return b }
		pts := make([]byte, 16*genuine)
		for i := 0; i < genuine; i++ {
			order.PutUint64(pts[16*i:], math.Float64bits(float64(i)))
			order.PutUint64(pts[16*i+8:], math.Float64bits(float64(-i)))
		}
		var b []byte
		switch form {
		case 0: // line string
			b = append(append(append([]byte{ob}, u32(2)...), u32(claim)...), pts...)
		case 1: // polygon with one ring
			b = append(append(append(append([]byte{ob}, u32(3)...), u32(1)...), u32(claim)...), pts...)
		case 2: // collection holding the line string
			b = append(append(append([]byte{ob}, u32(7)...), u32(1)...), append(append(append([]byte{ob}, u32(2)...), u32(claim)...), pts...)...)
		}
		accepted(c, decodeWKB(c, b, 1))
	})
	// members in their own byte order: every member of a multi geometry or collection carries its own order byte,
	// which may differ from the container's; its type word may carry flag bits (or stray bits that look like flags
	// when read in the wrong order)
	memberWords := []uint32{1, 2, 3, 4, 5, 6, 7, 0x21, 0x22, 0x23, 0x20000001, 0x20000002, 0x20000003, 0x01000000, 0x21000000, 0x80000001}
	r.ExploreSharded("wkb-mixed-order-members", fmt.Sprintf("containers {multi-point, multi-line, multi-polygon, collection} x container order x 1..2 members x member order x %d member type words (valid kinds, SRID-flagged kinds, words with stray 0x20 / 0x21 bytes) with the payload of the kind in the low bits x every truncation: all decoders", len(memberWords)), mc.Opts{MaxDev: -1}, 16, func(c *mc.Ctx) {
		ct := uint32(4 + c.Choose(4))
		if !r.Owned(c, int(ct)) {
			return
		}
		orders := []binary.ByteOrder{binary.LittleEndian, binary.BigEndian}
		co := c.Choose(2)
		u32 := func(o int, v uint32) []byte { b := make([]byte, 4); orders[o].PutUint32(b, v); return b }
		obyte := func(o int) byte { return byte(1 - o) }
		nm := 1 + c.Choose(2)
		b := append(append([]byte{obyte(co)}, u32(co, ct)...), u32(co, uint32(nm))...)
		for m := 0; m < nm; m++ {
			mo := c.Choose(2)
			w := memberWords[c.Choose(len(memberWords))]
			b = append(append(b, obyte(mo)), u32(mo, w)...)
			if w&0x20000000 != 0 {
				b = append(b, u32(mo, 4326)...)
			}
			pt := make([]byte, 16)
			switch w & 7 {
			case 1:
				b = append(b, pt...)
			case 2:
				b = append(append(b, u32(mo, 1)...), pt...)
			case 3:
				b = append(append(append(b, u32(mo, 1)...), u32(mo, 1)...), pt...)
			case 4:
				b = append(append(append(append(b, u32(mo, 1)...), obyte(mo)), u32(mo, 1)...), pt...)
			default:
				b = append(b, u32(mo, 0)...)
			}
		}
		n := c.Choose(len(b) + 1)
		accepted(c, decodeWKB(c, b[:len(b)-n], 1))
	})
	// counts whose product with a small element size wraps around 2^32 to (almost) nothing: a length guard computed
	// in 32 bits lets exactly these through. For every multiplier m in 2..48 the counts ceil(t 2^32 / m) (+1) satisfy
	// count*m mod 2^32 < 2m.
	var wrapping []uint32
	{
		seen := map[uint32]bool{}
		for m := uint64(2); m <= 48; m++ {
			for t := uint64(1); t < m; t++ {
				cnt := (t<<32 + m - 1) / m
				for e := uint64(0); e < 2; e++ {
					if v := uint32(cnt + e); !seen[v] {
						seen[v] = true
						wrapping = append(wrapping, v)
					}
				}
			}
		}
	}
	r.ExploreSharded("wkb-wrapping-counts", fmt.Sprintf("%d counts c with c*m mod 2^32 < 2m for an element size m in 2..48, as the outer count and as the ring / member count of the 7 geometry types x {LE, BE} x {64 zero bytes, three 21-byte point members} behind the count: byte, stream and scanner decoders stay within the allocation budget", len(wrapping)), mc.Opts{MaxDev: -1}, 16, func(c *mc.Ctx) {
		ci := c.Choose(len(wrapping))
		if !r.Owned(c, ci) {
			return
		}
		for typ := uint32(1); typ <= 7; typ++ {
			for _, be := range []bool{false, true} {
				var order binary.ByteOrder = binary.LittleEndian
				ob := byte(1)
				if be {
					order, ob = binary.BigEndian, 0
				}
				u32 := func(v uint32) []byte { b := make([]byte, 4); order.PutUint32(b, v); return b }
				member := append(append([]byte{ob}, u32(1)...), make([]byte, 16)...)
				for form := 0; form < 3; form++ {
					b := append([]byte{ob}, u32(typ)...)
					switch form {
					case 0: // outer count wraps, zero bytes behind it
						b = append(append(b, u32(wrapping[ci])...), make([]byte, 64)...)
					case 1: // outer count wraps, genuine point members behind it
						b = append(b, u32(wrapping[ci])...)
						b = append(append(append(b, member...), member...), member...)
					case 2: // one genuine outer element whose own count wraps (rings of a polygon, members of a multi)
						b = append(b, u32(1)...)
						if typ >= 4 {
							b = append(append(b, ob), u32(typ-3)...)
						}
						b = append(append(b, u32(wrapping[ci])...), make([]byte, 64)...)
					}
					accepted(c, decodeWKB(c, b, 1))
				}
			}
		}
	})
	// scanner texts: the SQL scanners sniff their input (binary, hex, \x-hex, trailing line ends); every short
	// string over the bytes those sniffers look at
	scanAlphabet := []byte{'\\', 'x', '0', '1', '3', 'a', 'F', 'g', ' ', '\n', '\t', '\r', 0x00, 0x01, 0xff}
	scanLen := ev.Pick(r, 5, 6)
	r.ExploreSharded("scanner-texts", fmt.Sprintf("every string of 0..%d bytes over %q through the wkb / ewkb scanners (nil, Point, LineString, Collection destinations) and, behind a 4-byte prefix, ScannerPrefixSRID", scanLen, scanAlphabet), mc.Opts{MaxDev: -1}, 16, func(c *mc.Ctx) {
		n := c.Choose(scanLen + 1)
		b := make([]byte, n)
		for i := range b {
			k := c.Choose(len(scanAlphabet))
			if i == 0 && !r.Owned(c, k) {
				return
			}
			b[i] = scanAlphabet[k]
		}
		if n == 0 && !r.Owned(c, 0) {
			return
		}
		for di, mk := range wkbDsts {
			if di != 0 && di != 1 && di != 3 && di != 9 {
				continue
			}
			entry := fmt.Sprintf("Scanner(dst#%d)/text", di)
			guard(c, "wkb."+entry, len(b), hx(b), func() { wkb.Scanner(mk()).Scan(cp(b)) })
			guard(c, "ewkb."+entry, len(b), hx(b), func() { ewkb.Scanner(mk()).Scan(cp(b)) })
			pb := append([]byte{0xe6, 0x10, 0, 0}, b...)
			guard(c, "ewkb.PrefixSRID"+entry, len(pb), hx(pb), func() { ewkb.ScannerPrefixSRID(mk()).Scan(cp(pb)) })
			// and the bare text (a value that is hex text where a binary prefix is expected)
			guard(c, "ewkb.PrefixSRID"+entry+"/bare", len(b), hx(b), func() { ewkb.ScannerPrefixSRID(mk()).Scan(cp(b)) })
		}
	})
	r.ExploreSharded("wkt-sentences", fmt.Sprintf("every sentence of 0..%d tokens over %v through Unmarshal and the 7 typed parsers", nt, tokens), mc.Opts{MaxDev: -1}, 16, func(c *mc.Ctx) {
		first := c.Choose(len(tokens) + 1)
		if !r.Owned(c, first) {
			return
		}
		var sb strings.Builder
		if first < len(tokens) {
			sb.WriteString(tokens[first])
			for i := 1; i < nt; i++ {
				k := c.Choose(len(tokens) + 1)
				if k == 0 {
					break
				}
				sb.WriteString(tokens[k-1])
			}
		}
		s := sb.String()
		accepted(c, decodeWKT(c, s))
	})

	// 4. GeoJSON / BSON document menu
	typs := []string{`"Point"`, `"MultiPoint"`, `"LineString"`, `"MultiLineString"`, `"Polygon"`, `"MultiPolygon"`, `"GeometryCollection"`, `"Feature"`, `"FeatureCollection"`, `""`, ``, `7`, `null`}
	coords := []string{``, `null`, `1`, `[]`, `[1]`, `[1,2]`, `[1,2,3]`, `[[1,2]]`, `[[1,2],[3,4]]`, `[[[1,2],[3,4],[1,2]]]`, `[[[[1,2]]]]`, `[[[[[1,2]]]]]`, `[null]`, `[[null]]`, `"x"`, `{}`, `["a","b"]`, `[1e999,2]`}
	geometries := []string{``, `null`, `[]`, `[null]`, `[{"type":"Point","coordinates":[1,2]}]`, `{}`, `[{"type":"GeometryCollection","geometries":[null]}]`, `[7]`}
	others := []string{``, `"id":1`, `"id":"a","bbox":[1,2,3,4]`, `"bbox":[1]`, `"bbox":"x"`, `"properties":null`, `"properties":{"a":[1,{"b":null}]}`, `"properties":7`,
		`"geometry":null`, `"geometry":{"type":"Point","coordinates":[1,2]}`, `"geometry":{"type":"GeometryCollection","geometries":[null]}`, `"geometry":7`, `"geometry":{"type":"Point"}`,
		`"features":null`, `"features":[]`, `"features":[null]`, `"features":[{"type":"Feature","geometry":null,"properties":null}]`, `"features":7`, `"features":[{"type":"Feature","geometry":{"type":"Polygon","coordinates":[null]}}]`, `"x":{"y":[1,2]}`}
	r.ExploreSharded("geojson-menu", fmt.Sprintf("full product of %d type values x %d coordinates values x %d geometries values x %d other members through every JSON entry point and, for JSON objects, the same document as BSON", len(typs), len(coords), len(geometries), len(others)), mc.Opts{MaxDev: -1}, 16, func(c *mc.Ctx) {
		ti := c.Choose(len(typs))
		if !r.Owned(c, ti) {
			return
		}
		var parts []string
		if typs[ti] != `` {
			parts = append(parts, `"type":`+typs[ti])
		}
		if v := coords[c.Choose(len(coords))]; v != `` {
			parts = append(parts, `"coordinates":`+v)
		}
		if v := geometries[c.Choose(len(geometries))]; v != `` {
			parts = append(parts, `"geometries":`+v)
		}
		if v := others[c.Choose(len(others))]; v != `` {
			parts = append(parts, v)
		}
		doc := []byte("{" + strings.Join(parts, ",") + "}")
		accepted(c, decodeJSON(c, doc))
	})

	// JSON documents that are not objects, and whitespace around everything: the literals json.Unmarshal treats
	// specially (null is never handed to an UnmarshalJSON method by the standard library, but the package's own
	// Unmarshal* functions call it directly)
	jsonTokens := []string{"null", "true", "0", "1.5", `""`, `"Feature"`, "[]", "[null]", "{}", `{"type":"Feature"}`, `{"type":"Feature","geometry":null}`, `{"type":"FeatureCollection","features":[null]}`, `{"type":"FeatureCollection","features":[ null , {"type":"Feature","geometry":null} ]}`, `{"type":"Point","coordinates":null}`}
	pads := []string{"", " ", "\n", "\t \r\n"}
	r.ExploreSharded("geojson-literals", fmt.Sprintf("%d JSON literals and skeleton documents x %d^2 whitespace paddings before and after, through every JSON entry point", len(jsonTokens), len(pads)), mc.Opts{MaxDev: -1}, 4, func(c *mc.Ctx) {
		ti := c.Choose(len(jsonTokens))
		if !r.Owned(c, ti) {
			return
		}
		doc := []byte(pads[c.Choose(len(pads))] + jsonTokens[ti] + pads[c.Choose(len(pads))])
		accepted(c, decodeJSON(c, doc))
	})

	// 5. mutation closure of valid encodings
	var wkbSeeds [][]byte
	for i, g := range seedGeoms {
		b, _ := ewkb.Marshal(g, []int{0, 4326}[i%2], []binary.ByteOrder{binary.LittleEndian, binary.BigEndian}[(i/2)%2])
		wkbSeeds = append(wkbSeeds, b)
	}
	mSeeds := mvtSeeds()
	var gz bytes.Buffer
	zw := gzip.NewWriter(&gz)
	zw.Write(mSeeds[2])
	zw.Close()
	mSeeds = append(mSeeds, gz.Bytes())
	var wktSeeds, jsonSeeds [][]byte
	for _, g := range seedGeoms {
		wktSeeds = append(wktSeeds, wkt.Marshal(g))
		f := geojson.NewFeature(g)
		f.ID = "id"
		f.Properties = geojson.Properties{"a": []interface{}{1.5, nil}, "b": map[string]interface{}{"c": "d"}}
		jb, _ := json.Marshal(f)
		jsonSeeds = append(jsonSeeds, jb)
		fc := geojson.NewFeatureCollection().Append(f)
		fc.ExtraMembers = map[string]interface{}{"x": 1.0}
		jb, _ = json.Marshal(fc)
		jsonSeeds = append(jsonSeeds, jb)
		jb, _ = json.Marshal(geojson.NewGeometry(g))
		jsonSeeds = append(jsonSeeds, jb)
	}
	var bsonSeeds [][]byte
	for _, g := range seedGeoms[:7] {
		f := geojson.NewFeature(g)
		f.Properties = geojson.Properties{"a": 1.5}
		if bb, err := bson.Marshal(f); err == nil {
			bsonSeeds = append(bsonSeeds, bb)
		}
		if bb, err := bson.Marshal(geojson.NewGeometry(g)); err == nil {
			bsonSeeds = append(bsonSeeds, bb)
		}
	}
	for _, g := range seedGeoms[:3] {
		fc := geojson.NewFeatureCollection().Append(geojson.NewFeature(g))
		fc.BBox = geojson.BBox{1, 2, 3, 4}
		fc.ExtraMembers = map[string]interface{}{"x": 1.0}
		if bb, err := bson.Marshal(fc); err == nil {
			bsonSeeds = append(bsonSeeds, sortedBSON(bb))
		}
	}
	// byte substitution menu: every BSON element type code, the protobuf wire types / WKB order bytes, extremes
	subst := []byte{0x00, 0x01, 0x02, 0x03, 0x04, 0x05, 0x06, 0x07, 0x08, 0x09, 0x0a, 0x0b, 0x0c, 0x0d, 0x0e, 0x0f, 0x10, 0x11, 0x12, 0x13, 0x20, 0x22, 0x28, 0x29, 0x2c, 0x5b, 0x5d, 0x6e, 0x7b, 0x7d, 0x7f, 0x80, 0xff}
	type format struct {
		name  string
		seeds [][]byte
		run   func(c *mc.Ctx, b []byte) bool
	}
	formats := []format{
		{"wkb", wkbSeeds, func(c *mc.Ctx, b []byte) bool { return decodeWKB(c, b, 1) }},
		{"mvt", mSeeds, func(c *mc.Ctx, b []byte) bool { return decodeMVT(c, b) }},
		{"wkt", wktSeeds, func(c *mc.Ctx, b []byte) bool { return decodeWKT(c, string(b)) }},
		{"geojson", jsonSeeds, func(c *mc.Ctx, b []byte) bool { return decodeJSON(c, b) }},
		{"bson", bsonSeeds, func(c *mc.Ctx, b []byte) bool { return decodeBSON(c, b, hx(b)) }},
	}
	for _, f := range formats {
		f := f
		r.ExploreSharded("mutate-"+f.name, fmt.Sprintf("%d valid %s encodings: truncation at every length, every single bit flip, every byte replaced by each of 33 structural values (thorough: all 256), every aligned and unaligned 4-byte window overwritten with each boundary count in both byte orders, every prefix spliced with every suffix of the next encoding", len(f.seeds), f.name), mc.Opts{MaxDev: -1}, 16, func(c *mc.Ctx) {
			si := c.Choose(len(f.seeds))
			op := c.Choose(5)
			if !r.Owned(c, si*5+op) {
				return
			}
			seed := f.seeds[si]
			var b []byte
			switch op {
			case 0: // truncate
				b = seed[:c.Choose(len(seed)+1)]
			case 1: // bit flip
				b = cp(seed)
				if len(b) == 0 {
					return
				}
				i := c.Choose(len(b) * 8)
				b[i/8] ^= 1 << (i % 8)
			case 2: // count inflation
				b = cp(seed)
				if len(b) < 4 {
					return
				}
				i := c.Choose(len(b) - 3)
				v := counts[c.Choose(len(counts))]
				if c.Bool() {
					binary.BigEndian.PutUint32(b[i:], v)
				} else {
					binary.LittleEndian.PutUint32(b[i:], v)
				}
			case 4: // byte substitution: every position x every byte of the menu (thorough: every byte value)
				b = cp(seed)
				if len(b) == 0 {
					return
				}
				i := c.Choose(len(b))
				if r.Quick() {
					b[i] = subst[c.Choose(len(subst))]
				} else {
					b[i] = byte(c.Choose(256))
				}
				if b[i] == seed[i] {
					c.Skip()
					return
				}
			case 3: // splice
				other := f.seeds[(si+1)%len(f.seeds)]
				b = append(cp(seed[:c.Choose(len(seed)+1)]), other[c.Choose(len(other)+1):]...)
			}
			accepted(c, f.run(c, b))
		})
	}
	// every short byte string handed to the BSON entry points, directly and through the driver
	shortAlphabet := []byte{0x00, 0x01, 0x04, 0x05, 0x06, 0x10, 0x80, 0xff}
	// (sharded into single-goroutine children like every other part: guard's allocation counter is process-wide, and
	// with several workers in one process a call is charged with what the other workers allocate meanwhile)
	r.ExploreSharded("bson-short-inputs", "every byte string of at most 5 bytes over {00,01,04,05,06,10,80,ff} (every declared document length below, at and above the minimum, negative ones included) handed to the BSON unmarshalling methods directly and through bson.Unmarshal", mc.Opts{MaxDev: -1, Workers: 1}, 16, func(c *mc.Ctx) {
		n := c.Choose(6)
		b := make([]byte, n)
		for i := range b {
			k := c.Choose(len(shortAlphabet))
			if i == 0 && !r.Owned(c, n*len(shortAlphabet)+k) {
				return
			}
			b[i] = shortAlphabet[k]
		}
		if n == 0 && !r.Owned(c, 0) {
			return
		}
		accepted(c, decodeBSON(c, b, hx(b)))
	})
	r.Sample(map[string]interface{}{"mvt": "1f", "wkb": "01 02000000 00000010 (line string claiming 2^28 points, no payload)", "wkt": "POLYGON((", "geojson": `{"type":"GeometryCollection","geometries":[null]}`})
	r.Finish()
}
