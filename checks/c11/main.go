// C11: the quadtree answers every query as a plain list of its contents would.
// Explicit-state search (engine E3): breadth-first over operation histories on the
// real quadtree, deduplicated by a complete reflective dump, to closure; in every
// state every observation is compared with a list model.
package main

import (
	"encoding/json"
	"fmt"
	"math"
	"runtime"
	"sort"
	"strings"
	"sync"

	"github.com/paulmach/orb"
	"github.com/paulmach/orb/quadtree"

	"verif/lib/ev"
	"verif/lib/qt"
)

var stateCap int64 = 600000

type replayCase struct {
	History []qt.Op `json:"history"`
}

var (
	qcoords    = []float64{-1, 0, 1.5, 2, 4.5, -80} // -80: far outside the bound (clamping the query point changes the order of the candidates)
	qcX, qcY   = qcoords, qcoords
	bxsX, bxsY [][2]float64
	skew       = false // scenario: false = dyadic bound [0,4]^2, true = the non-dyadic bound [0.2,2.2]x[0.1,0.7]
	ks         = []int{0, 1, 2, 3, 8}
	maxds      = []float64{-1, 0, 0.6, 1, 2.5, 100} // -1 = not given
	bxs        = [][2]float64{}
)

func init() {
	c := []float64{-1, 0, 2, 4}
	for i := range c {
		for j := i; j < len(c); j++ {
			bxs = append(bxs, [2]float64{c[i], c[j]})
		}
	}
	bxs = append(bxs, [2]float64{1, -1}) // inverted / empty sentinel
	bxs = append(bxs, [2]float64{0.5, 3.5})
	bxsX, bxsY = bxs, bxs
}

// the non-dyadic scenario: the two ways of writing a midline differ in the last bit on such bounds, so
// pointers sit on the midline by either formula and one ulp to either side, and the query boxes have their
// edges through exactly those values.
var (
	skewBound = orb.Bound{Min: orb.Point{0.2, 0.1}, Max: orb.Point{2.2, 0.7}}
	skewMX    = (skewBound.Min[0] + skewBound.Max[0]) / 2
	skewMY    = (skewBound.Min[1] + skewBound.Max[1]) / 2
	skewMX2   = skewBound.Min[0] + (skewBound.Max[0]-skewBound.Min[0])/2
	skewMY2   = skewBound.Min[1] + (skewBound.Max[1]-skewBound.Min[1])/2
)

func up(v float64) float64   { return math.Nextafter(v, math.Inf(1)) }
func down(v float64) float64 { return math.Nextafter(v, math.Inf(-1)) }

func setSkew() {
	skew = true
	qcX = []float64{0, skewMX, 1.7, 3}
	qcY = []float64{0, skewMY, 0.55}
	pairs := func(c []float64) (out [][2]float64) {
		sort.Float64s(c)
		for i := range c {
			for j := i; j < len(c); j++ {
				if j > i && c[i] == c[j] {
					continue
				}
				out = append(out, [2]float64{c[i], c[j]})
			}
		}
		return
	}
	bxsX = pairs([]float64{skewBound.Min[0], down(skewMX), skewMX, up(skewMX), skewMX2, skewBound.Max[0], 5})
	bxsY = pairs([]float64{skewBound.Min[1], down(skewMY), skewMY, up(skewMY), skewMY2, skewBound.Max[1]})
}

func skewUniverse(n int) *qt.Universe {
	ox, oy := skewMX2, skewMY2
	if ox == skewMX {
		ox = up(skewMX)
	}
	if oy == skewMY {
		oy = down(skewMY)
	}
	pts := []orb.Point{
		skewBound.Min,    // takes the root when added first
		{skewMX, skewMY}, // on both root midlines as the tree computes them
		{ox, oy},         // on the midlines by the other formula (or one ulp off)
		{down(skewMX), up(skewMY)},
		{(skewBound.Min[0] + skewMX) / 2, (skewMY + skewBound.Max[1]) / 2}, // second-level midlines
		skewBound.Max,
	}
	mc := []int{1, 1, 1, 1, 1, 1}
	return qt.NewUniverse(skewBound, pts[:n], mc[:n])
}

// bigUniverse: the 5x5 lattice of the bound [0,4]^2 (corners, midlines, quarter lines), a chain of points closing in
// on the centre along the diagonal (2+2^-k: one more level of the tree each), and a second pointer at (1,1).
func bigUniverse() *qt.Universe {
	var pts []orb.Point
	for x := 0; x <= 4; x++ {
		for y := 0; y <= 4; y++ {
			pts = append(pts, orb.Point{float64(x), float64(y)})
		}
	}
	for k := 1; k <= 8; k++ {
		pts = append(pts, orb.Point{2 + math.Ldexp(1, -k), 2 + math.Ldexp(1, -k)})
	}
	pts = append(pts, orb.Point{1, 1}, orb.Point{2.5, 2.5})
	mc := make([]int, len(pts))
	for i := range mc {
		mc[i] = 1
	}
	return qt.NewUniverse(orb.Bound{Min: orb.Point{0, 0}, Max: orb.Point{4, 4}}, pts, mc)
}

// bigHistory: add every pointer in one of three orders, then remove every pointer in one of three orders,
// alternating removal by identity and by point.
func bigHistory(n, addOrder, remOrder int) []qt.Op {
	order := func(o int) []int {
		out := make([]int, n)
		for i := range out {
			switch o {
			case 0:
				out[i] = i
			case 1:
				out[i] = n - 1 - i
			default:
				out[i] = (i*11 + 3) % n // 11 is coprime to the 35 and to the 160 pointers
			}
		}
		return out
	}
	var h []qt.Op
	for _, i := range order(addOrder) {
		h = append(h, qt.Op{Kind: 0, P: i})
	}
	for k, i := range order(remOrder) {
		h = append(h, qt.Op{Kind: 1 + k%2, P: i})
	}
	return h
}

// deepUniverse: a cluster closing in on the corner (0,0) of the bound, 40 levels deep, with two pointers at the same
// place and two siblings on every level (so that a walk towards the corner leaves subtrees pending on each level)
func deepUniverse() *qt.Universe {
	var pts []orb.Point
	for j := 0; j < 40; j++ {
		s := math.Ldexp(1, -j)
		pts = append(pts, orb.Point{3 * s, 3 * s}, orb.Point{3 * s, 3 * s}, orb.Point{s, 3 * s}, orb.Point{3 * s, s})
	}
	mc := make([]int, len(pts))
	for i := range mc {
		mc[i] = 1
	}
	return qt.NewUniverse(orb.Bound{Min: orb.Point{0, 0}, Max: orb.Point{4, 4}}, pts, mc)
}

func bigTrees(r *ev.Run, p *ev.Part) {
	var steps, queries int64
	for ao := 0; ao < 4; ao++ {
		for ro := 0; ro < 3; ro++ {
			u := bigUniverse()
			if ao == 3 {
				// the deep cluster, added from the outside in
				if ro > 0 {
					continue
				}
				u = deepUniverse()
			}
			hist := bigHistory(len(u.Ps), ao%3, ro)
			q := quadtree.New(u.Bound)
			for i, op := range hist {
				h := hist[:i+1]
				after, ok := step(u, q, op, func(c, d string) { p.Fail(c, d+" | history: "+histString(h), replayCase{h}) })
				steps++
				if !ok {
					break
				}
				fails, nq := observe(u, q, after, nil)
				queries += nq
				for _, f := range fails {
					p.Fail(f[0], f[1]+" | history: "+histString(h), replayCase{h})
				}
				if len(fails) > 0 {
					break
				}
			}
		}
	}
	p.Execs, p.NonTrivial, p.Exhaustive = steps, steps, true
	r.Transitions += steps
	r.Count("queries_checked", queries)
}

func replayBig(r *ev.Run, p *ev.Part) {
	var rc replayCase
	if err := json.Unmarshal(p.ReplayCustom, &rc); err != nil {
		r.HarnessError("bad replay: %v", err)
		return
	}
	u := bigUniverse()
	for _, op := range rc.History {
		if op.P >= len(u.Ps) {
			u = deepUniverse()
			break
		}
	}
	q := quadtree.New(u.Bound)
	for i, op := range rc.History {
		after, ok := step(u, q, op, func(c, d string) { p.Fail(c, fmt.Sprintf("step %d: %s", i, d), nil) })
		if !ok {
			return
		}
		fails, _ := observe(u, q, after, nil)
		for _, f := range fails {
			p.Fail(f[0], fmt.Sprintf("after step %d: %s", i, f[1]), nil)
		}
	}
}

func universe(n int) *qt.Universe {
	if skew {
		return skewUniverse(n)
	}
	pts := []orb.Point{
		{2, 2}, // centre: on both root midlines
		{2, 2}, // distinct pointer, equal coordinates
		{0, 0}, // corner of the tree bound
		{5, 5}, // outside the bound: add must be rejected
		{1, 1}, // centre of a quadrant: on both second-level midlines
		{4, 4}, // opposite corner
		{3, 2}, // on the horizontal root midline, quarter line
		{2, 3.5},
	}
	mc := []int{2, 1, 1, 1, 1, 1, 1, 1} // p0 may be stored twice (same pointer, a multiset)
	return qt.NewUniverse(orb.Bound{Min: orb.Point{0, 0}, Max: orb.Point{4, 4}}, pts[:n], mc[:n])
}

func d2(a, b orb.Point) float64 { dx, dy := a[0]-b[0], a[1]-b[1]; return dx*dx + dy*dy }

type filt struct {
	name string
	f    quadtree.FilterFunc
	acc  func(p *qt.P) bool
}

func filters(u *qt.Universe) []filt {
	mk := func(name string, acc func(p *qt.P) bool) filt {
		return filt{name, func(x orb.Pointer) bool { return acc(x.(*qt.P)) }, acc}
	}
	return []filt{
		{"nil", nil, func(*qt.P) bool { return true }},
		mk("even", func(p *qt.P) bool { return p.ID%2 == 0 }),
		mk("none", func(p *qt.P) bool { return false }),
		mk("not-p0", func(p *qt.P) bool { return p.ID != 0 }),
	}
}

// observe runs every query on the tree and compares with the list `contents`.
// It returns failure descriptions (class, detail) and the number of queries.
func observe(u *qt.Universe, q *quadtree.Quadtree, contents []*qt.P, outcomes map[string]struct{}) (fails [][2]string, n int64) {
	fail := func(class, f string, a ...interface{}) { fails = append(fails, [2]string{class, fmt.Sprintf(f, a...)}) }
	guard := func(what string, fn func()) {
		defer func() {
			if r := recover(); r != nil {
				fail("panic:"+strings.SplitN(what, "(", 2)[0], "%s panicked: %v", what, r)
			}
		}()
		fn()
	}
	if q.Bound() != u.Bound {
		fail("bound", "Bound() = %v", q.Bound())
	}
	fs := filters(u)
	// results returned into a slice the tree allocated (buf == nil) belong to the caller: they must still hold
	// what they held after any number of later queries
	var keptRes, keptSnap []orb.Pointer
	keptWhat := ""
	retainRes := func(what string, res []orb.Pointer) {
		if keptRes != nil {
			for i := range keptRes {
				if keptRes[i] != keptSnap[i] {
					fail("result-overwritten", "the slice returned by %s was rewritten by the later query %s", keptWhat, what)
					break
				}
			}
		}
		keptRes, keptSnap, keptWhat = res, append([]orb.Pointer(nil), res...), what
	}
	for _, x := range qcX {
		for _, y := range qcY {
			pt := orb.Point{x, y}
			for _, f := range fs {
				// nearest
				var best float64 = -1
				for _, p := range contents {
					if f.acc(p) {
						if d := d2(p.Pt, pt); best < 0 || d < best {
							best = d
						}
					}
				}
				what := fmt.Sprintf("Matching(%v,%s)", pt, f.name)
				guard(what, func() {
					var got orb.Pointer
					if f.f == nil {
						got = q.Find(pt)
					} else {
						got = q.Matching(pt, f.f)
					}
					n++
					if best < 0 {
						if got != nil {
							fail("find", "%s = %v, want nil", what, got.(*qt.P).Name)
						}
						return
					}
					if got == nil {
						fail("find", "%s = nil, want a pointer at distance² %v", what, best)
						return
					}
					gp := got.(*qt.P)
					if !has(contents, gp) || !f.acc(gp) || d2(gp.Pt, pt) != best {
						fail("find", "%s = %s at distance² %v, want distance² %v among accepted contents", what, gp.Name, d2(gp.Pt, pt), best)
					}
					if outcomes != nil {
						outcomes[what+"="+gp.Name] = struct{}{}
					}
				})
				// k-nearest
				for _, k := range ks {
					for _, md := range maxds {
						var cand []float64
						for _, p := range contents {
							if f.acc(p) {
								d := d2(p.Pt, pt)
								if md < 0 || d < md*md {
									cand = append(cand, d)
								}
							}
						}
						sort.Float64s(cand)
						if len(cand) > k {
							cand = cand[:k]
						}
						for bi := 0; bi < 3; bi++ {
							if bi > 0 && (f.name == "none" || k == 8) {
								continue
							}
							var buf []orb.Pointer
							switch bi {
							case 1:
								buf = make([]orb.Pointer, 0, 8)
							case 2:
								buf = make([]orb.Pointer, 1, 1) // too small for k >= 2, has a stale nil entry
							}
							what := fmt.Sprintf("KNearestMatching(buf%d,%v,k=%d,%s,maxDist=%v)", bi, pt, k, f.name, md)
							guard(what, func() {
								var got []orb.Pointer
								lim := []float64{md} // the caller's own slice, spread into the variadic parameter
								switch {
								case f.f == nil && md < 0:
									got = q.KNearest(buf, pt, k)
								case f.f == nil:
									got = q.KNearest(buf, pt, k, lim...)
								case md < 0:
									got = q.KNearestMatching(buf, pt, k, f.f)
								default:
									got = q.KNearestMatching(buf, pt, k, f.f, lim...)
								}
								if lim[0] != md {
									fail("argument-modified", "%s changed the caller's distance-limit slice from %v to %v", what, md, lim[0])
								}
								n++
								if bi == 0 && len(got) > 0 {
									retainRes(what, got)
								}
								if len(got) != len(cand) {
									fail("knearest", "%s returned %d pointers, want %d (contents %s)", what, len(got), len(cand), names(contents))
									return
								}
								used := map[*qt.P]int{}
								for i, g := range got {
									gp, _ := g.(*qt.P)
									if gp == nil || !f.acc(gp) || d2(gp.Pt, pt) != cand[i] {
										fail("knearest", "%s element %d = %v, want distance² %v (contents %s)", what, i, g, cand[i], names(contents))
										return
									}
									used[gp]++
									if used[gp] > count(contents, gp) {
										fail("knearest", "%s returned %s more often than it is stored", what, gp.Name)
										return
									}
								}
							})
						}
					}
				}
			}
		}
	}
	for _, bx := range bxsX {
		for _, by := range bxsY {
			b := orb.Bound{Min: orb.Point{bx[0], by[0]}, Max: orb.Point{bx[1], by[1]}}
			for fi, f := range fs {
				if fi > 1 {
					continue
				}
				want := map[*qt.P]int{}
				wn := 0
				for _, p := range contents {
					if f.acc(p) && p.Pt[0] >= b.Min[0] && p.Pt[0] <= b.Max[0] && p.Pt[1] >= b.Min[1] && p.Pt[1] <= b.Max[1] {
						want[p]++
						wn++
					}
				}
				for bi := 0; bi < 2; bi++ {
					var buf []orb.Pointer
					if bi == 1 {
						buf = make([]orb.Pointer, 2, 2)
					}
					what := fmt.Sprintf("InBoundMatching(buf%d,%v,%s)", bi, b, f.name)
					guard(what, func() {
						var got []orb.Pointer
						if f.f == nil {
							got = q.InBound(buf, b)
						} else {
							got = q.InBoundMatching(buf, b, f.f)
						}
						n++
						if bi == 0 && len(got) > 0 {
							retainRes(what, got)
						}
						if len(got) != wn {
							fail("inbound", "%s returned %d pointers, want %d (contents %s)", what, len(got), wn, names(contents))
							return
						}
						seen := map[*qt.P]int{}
						for _, g := range got {
							gp, _ := g.(*qt.P)
							seen[gp]++
							if gp == nil || seen[gp] > want[gp] {
								fail("inbound", "%s returned %v which is not (that often) in the box (contents %s)", what, g, names(contents))
								return
							}
						}
					})
				}
			}
		}
	}
	return
}

func has(c []*qt.P, p *qt.P) bool { return count(c, p) > 0 }
func count(c []*qt.P, p *qt.P) int {
	n := 0
	for _, x := range c {
		if x == p {
			n++
		}
	}
	return n
}
func names(c []*qt.P) string {
	var s []string
	for _, p := range c {
		s = append(s, p.Name)
	}
	sort.Strings(s)
	return "{" + strings.Join(s, ",") + "}"
}

// step applies op to tree q (whose contents are `before`) and checks the
// transition against the list model. It returns the contents afterwards.
func step(u *qt.Universe, q *quadtree.Quadtree, op qt.Op, fail func(class, detail string)) (after []*qt.P, okStep bool) {
	st, _, err := qt.Walk(q)
	if err != nil {
		fail("harness", err.Error())
		return nil, false
	}
	before := u.Counts(st)
	dumpBefore := qt.Dump(q)
	var ok bool
	var aerr error
	panicked := false
	func() {
		defer func() {
			if r := recover(); r != nil {
				panicked = true
				empty := "populated"
				if strings.Contains(dumpBefore, "root:nil") {
					empty = "never-populated"
				}
				fail("panic:"+op.String()[:strings.Index(op.String(), "(")]+":"+empty, fmt.Sprintf("%v on a %s tree panicked: %v", op, empty, r))
			}
		}()
		ok, aerr = u.Apply(q, op)
	}()
	if panicked {
		return nil, false
	}
	st2, _, err := qt.Walk(q)
	if err != nil {
		fail("harness", err.Error())
		return nil, false
	}
	now := u.Counts(st2)
	if now == nil {
		fail("contents", fmt.Sprintf("after %v a pointer that was never added is stored", op))
		return nil, false
	}
	// structural invariant: every value lies in its node's cell
	for _, s := range st2 {
		pt := s.P.(*qt.P).Pt
		if pt[0] < s.Left || pt[0] > s.Right || pt[1] < s.Bottom || pt[1] > s.Top {
			fail("cell-invariant", fmt.Sprintf("after %v: %s at %v is stored in the node with cell [%v,%v]x[%v,%v]", op, s.P.(*qt.P).Name, pt, s.Left, s.Right, s.Bottom, s.Top))
		}
	}
	p := u.Ps[op.P]
	want := append([]int(nil), before...)
	inside := u.Bound.Min[0] <= p.Pt[0] && p.Pt[0] <= u.Bound.Max[0] && u.Bound.Min[1] <= p.Pt[1] && p.Pt[1] <= u.Bound.Max[1]
	diff := func() string { return fmt.Sprintf("contents before %v, after %v", before, now) }
	switch op.Kind {
	case 0:
		if inside {
			want[op.P]++
			if !ok {
				fail("add", fmt.Sprintf("%v inside the bound returned error %v", op, aerr))
			}
		} else {
			if ok || aerr != quadtree.ErrPointOutsideOfBounds {
				fail("add", fmt.Sprintf("%v outside the bound returned %v, want ErrPointOutsideOfBounds", op, aerr))
			}
			if d := qt.Dump(q); d != dumpBefore {
				fail("add", fmt.Sprintf("rejected %v changed the tree: %s -> %s", op, dumpBefore, d))
			}
		}
		if !eqInts(want, now) {
			fail("add", fmt.Sprintf("%v: %s", op, diff()))
		}
	case 1, 2:
		match := func(i int) bool {
			if op.Kind == 1 {
				return i == op.P
			}
			return u.Ps[i].Pt == p.Pt
		}
		exists := false
		for i, c := range before {
			if c > 0 && match(i) {
				exists = true
			}
		}
		if ok != exists {
			fail("remove", fmt.Sprintf("%v returned %v but a match exists=%v; %s", op, ok, exists, diff()))
		}
		if !exists {
			if !eqInts(before, now) {
				fail("remove", fmt.Sprintf("failed %v changed the contents: %s", op, diff()))
			}
			if d := qt.Dump(q); d != dumpBefore {
				fail("remove", fmt.Sprintf("failed %v changed the tree: %s -> %s", op, dumpBefore, d))
			}
		} else {
			removed, bad := -1, false
			for i := range before {
				switch before[i] - now[i] {
				case 0:
				case 1:
					if removed >= 0 {
						bad = true
					}
					removed = i
				default:
					bad = true
				}
			}
			if bad || removed < 0 || !match(removed) {
				fail("remove", fmt.Sprintf("%v must remove exactly one matching entry: %s", op, diff()))
			}
		}
	}
	for i, c := range now {
		for j := 0; j < c; j++ {
			after = append(after, u.Ps[i])
		}
	}
	return after, true
}

func eqInts(a, b []int) bool {
	if len(a) != len(b) {
		return false
	}
	for i := range a {
		if a[i] != b[i] {
			return false
		}
	}
	return true
}

func enabled(u *qt.Universe, counts []int) []qt.Op {
	var ops []qt.Op
	for i := range u.Ps {
		if counts[i] < u.MaxCount[i] {
			ops = append(ops, qt.Op{Kind: 0, P: i})
		}
	}
	for i := range u.Ps {
		ops = append(ops, qt.Op{Kind: 1, P: i})
	}
	for i := range u.Ps {
		ops = append(ops, qt.Op{Kind: 2, P: i})
	}
	return ops
}

type state struct {
	hist   []qt.Op
	counts []int
}

func histString(h []qt.Op) string {
	var s []string
	for _, o := range h {
		s = append(s, o.String())
	}
	return strings.Join(s, " ")
}

func bfs(r *ev.Run, p *ev.Part, n int, maxDepth int) {
	var mu sync.Mutex
	seen := map[string]bool{}
	outcomes := map[string]struct{}{}
	var states, transitions, queries int64
	report := func(class, detail string, hist []qt.Op) {
		mu.Lock()
		defer mu.Unlock()
		p.Fail(class, detail+" | history: "+histString(hist), replayCase{hist})
	}
	u0 := universe(n)
	q0 := quadtree.New(u0.Bound)
	seen[qt.Dump(q0)] = true
	states = 1
	if fails, nq := observe(u0, q0, nil, outcomes); true {
		queries += nq
		for _, f := range fails {
			report(f[0], f[1], nil)
		}
	}
	level := []state{{nil, make([]int, n)}}
	depth := 0
	workers := runtime.GOMAXPROCS(0)
	for len(level) > 0 && (maxDepth < 0 || depth < maxDepth) {
		var next []state
		var wg sync.WaitGroup
		ch := make(chan state, len(level))
		for _, s := range level {
			ch <- s
		}
		close(ch)
		for w := 0; w < workers; w++ {
			wg.Add(1)
			go func() {
				defer wg.Done()
				u := universe(n) // own pointer identities per worker
				localOut := map[string]struct{}{}
				var ltrans, lq int64
				var lnext []state
				for s := range ch {
					for _, op := range enabled(u, s.counts) {
						q := u.Build(s.hist)
						h2 := append(append([]qt.Op(nil), s.hist...), op)
						ltrans++
						after, ok := step(u, q, op, func(c, d string) { report(c, d, h2) })
						if !ok {
							continue
						}
						key := qt.Dump(q)
						mu.Lock()
						isNew := !seen[key]
						if isNew {
							seen[key] = true
							states++
						}
						mu.Unlock()
						if !isNew {
							continue
						}
						st, _, _ := qt.Walk(q)
						fails, nq := observe(u, q, after, localOut)
						lq += nq
						for _, f := range fails {
							report(f[0], f[1], h2)
						}
						if d := qt.Dump(q); d != key {
							report("query-mutates", fmt.Sprintf("queries changed the tree: %s -> %s", key, d), h2)
						}
						lnext = append(lnext, state{h2, u.Counts(st)})
					}
				}
				mu.Lock()
				transitions += ltrans
				queries += lq
				next = append(next, lnext...)
				for k := range localOut {
					outcomes[k] = struct{}{}
				}
				mu.Unlock()
			}()
		}
		wg.Wait()
		sort.Slice(next, func(i, j int) bool { return histString(next[i].hist) < histString(next[j].hist) })
		if len(next) > 0 {
			r.Extra["deepest_history_sample"] = histString(next[len(next)-1].hist)
		}
		level = next
		depth++
		// A tree whose code keeps a drifting field (a counter that is not restored, say) has no finite closure:
		// stop once the verdict is settled, or at 40x the number of states the unchanged tree has.
		if p.Settled() || states > stateCap {
			break
		}
		if len(next) > 0 {
			p.MaxDepth = int64(depth)
		}
	}
	if len(level) > 0 {
		p.Exhaustive = false // depth bound hit before closure
	}
	p.Execs = transitions
	p.NonTrivial = states
	r.States += states
	r.Transitions += transitions
	r.Traces += transitions
	r.Count("queries_checked", queries)
	r.Count("distinct_find_outcomes", int64(len(outcomes)))
	if len(level) > 0 {
		r.Sample(map[string]interface{}{"history": histString(level[0].hist)})
	}
}

func replay(r *ev.Run, p *ev.Part, n int) {
	var rc replayCase
	if err := json.Unmarshal(p.ReplayCustom, &rc); err != nil {
		r.HarnessError("bad replay: %v", err)
		return
	}
	u := universe(n)
	q := quadtree.New(u.Bound)
	var contents []*qt.P
	for i, op := range rc.History {
		after, ok := step(u, q, op, func(c, d string) { p.Fail(c, fmt.Sprintf("step %d: %s", i, d), nil) })
		if !ok {
			return
		}
		contents = after
		fails, _ := observe(u, q, contents, nil)
		for _, f := range fails {
			p.Fail(f[0], fmt.Sprintf("after step %d: %s", i, f[1]), nil)
		}
	}
	if len(rc.History) == 0 {
		fails, _ := observe(u, q, nil, nil)
		for _, f := range fails {
			p.Fail(f[0], f[1], nil)
		}
	}
}

func main() {
	r := ev.New("C11", "model_checking")
	r.Rule = "explicit-state BFS over histories of {add p, remove-by-identity p, remove-by-point p} on the real quadtree; a state is a distinct complete reflective dump of the tree (bound, every node, value identities, children); every transition is checked against the multiset model and in every new state every Find/Matching/KNearest*/InBound* query of the menu is compared with a plain list; distinct_nontrivial = distinct tree structures reached"
	r.Assume = []string{
		"pointer alphabet: (2,2) twice as distinct pointers (first one storable twice), (0,0), (5,5) outside, (1,1), (4,4), (3,2), (2,3.5) over bound [0,4]^2; multiplicity bounded so the state space is finite",
		"k-nearest ties may resolve either way: distance sequences are compared, elements must be distinct stored accepted entries",
		"negative k is not exercised",
	}
	nq, nt := 7, 8
	stateCap = 600000
	n := ev.Pick(r, nq, nt)
	part := fmt.Sprintf("bfs-closure-%dp", n)
	if r.Replaying() {
		r.Custom("bfs-closure-6p", "", func(p *ev.Part) { replay(r, p, 6) })
		r.Custom("bfs-closure-8p", "", func(p *ev.Part) { replay(r, p, 8) })
		r.Custom("bfs-closure-7p", "", func(p *ev.Part) { replay(r, p, 7) })
		r.Custom("bfs-skew-5p", "", func(p *ev.Part) { setSkew(); replay(r, p, 5) })
		r.Custom("bfs-skew-6p", "", func(p *ev.Part) { setSkew(); replay(r, p, 6) })
		r.Custom("big-trees", "", func(p *ev.Part) { replayBig(r, p) })
		r.Finish()
	}
	r.Custom(part, fmt.Sprintf("%d pointers, all three mutations, search to closure (fixpoint)", n), func(p *ev.Part) { bfs(r, p, n, -1) })
	r.Sample(map[string]interface{}{"deepest_history": r.Extra["deepest_history_sample"]})
	// size: trees far larger and deeper than the closures above, along 9 fixed histories
	r.Custom("big-trees", "35 pointers (the 5x5 lattice of the bound, 8 points closing in on the centre along the diagonal - one tree level each -, a second pointer at (1,1), (2.5,2.5)) added in 3 orders and then removed in 3 orders (by identity and by point in turn), and 160 pointers closing in on the corner (0,0) over 40 levels (two at the same place and two siblings per level) added from the outside in and removed again: after every one of the 9 x 70 + 320 steps the structural invariants and every query of the query menu against the brute-force reference", func(p *ev.Part) { bigTrees(r, p) })
	ns := ev.Pick(r, 5, 6)
	r.Custom(fmt.Sprintf("bfs-skew-%dp", ns), fmt.Sprintf("non-dyadic tree bound [0.2,2.2]x[0.1,0.7]: %d pointers on the root midlines (by either formula, and one ulp off), corners and a second-level midline; boxes with edges through exactly those values; search to closure", ns), func(p *ev.Part) {
		setSkew()
		bfs(r, p, ns, -1)
	})
	r.Sample(map[string]interface{}{"query_points": len(qcoords) * len(qcoords), "k": ks, "maxDist(-1=absent)": maxds, "boxes": len(bxs) * len(bxs)})
	r.Finish()
}
