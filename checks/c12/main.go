// C12: simplifiers only drop vertices, keep endpoints and honour their bound.
package main

import (
	"sync"
	"fmt"
	"math"
	"sort"

	"github.com/paulmach/orb"
	"github.com/paulmach/orb/encoding/mvt"
	"github.com/paulmach/orb/geojson"
	"github.com/paulmach/orb/simplify"

	"verif/lib/ev"
	"verif/lib/mc"
	"verif/lib/refgeom"
)

const G = 4

func gp(k int) orb.Point { return orb.Point{float64(k % G), float64(k / G)} }

// subseq: is a an order-preserving subsequence of b (by value)?
func subseq(a, b orb.LineString) bool {
	j := 0
	for _, p := range a {
		for j < len(b) && b[j] != p {
			j++
		}
		if j == len(b) {
			return false
		}
		j++
	}
	return true
}

func distToLine(ls orb.LineString, p orb.Point) float64 {
	if len(ls) == 1 {
		return dist(ls[0], p)
	}
	best := math.Inf(1)
	for i := 1; i < len(ls); i++ {
		a, b := ls[i-1], ls[i]
		dx, dy := b[0]-a[0], b[1]-a[1]
		t := 0.0
		if l2 := dx*dx + dy*dy; l2 > 0 {
			t = math.Max(0, math.Min(1, ((p[0]-a[0])*dx+(p[1]-a[1])*dy)/l2))
		}
		if d := math.Hypot(a[0]+t*dx-p[0], a[1]+t*dy-p[1]); d < best {
			best = d
		}
	}
	return best
}

// thresholds: every critical value, the midpoints between consecutive ones, 0 and one above the largest
func thresholdSet(crit []float64) []float64 {
	sort.Float64s(crit)
	var u []float64
	for _, c := range crit {
		if len(u) == 0 || c-u[len(u)-1] > 1e-12 {
			u = append(u, c)
		}
	}
	var out []float64
	if u[0] != 0 {
		out = append(out, 0)
	}
	for i, c := range u {
		out = append(out, c)
		if i+1 < len(u) {
			out = append(out, (c+u[i+1])/2)
		}
	}
	return append(out, u[len(u)-1]+1)
}

func halfDistance(a, b orb.Point) float64 { return dist(a, b) / 2 }

func same(a, b orb.LineString) bool {
	if len(a) != len(b) {
		return false
	}
	for i := range a {
		if a[i] != b[i] {
			return false
		}
	}
	return true
}

// dist is the check's own euclidean distance (the one the checks pass to the library as DistanceFunc and use in their oracles).
func dist(a, b orb.Point) float64 {
	dx, dy := a[0]-b[0], a[1]-b[1]
	return math.Sqrt(dx*dx + dy*dy)
}

// distSeg is the check's own distance from p to the segment ab.
func distSeg(a, b, p orb.Point) float64 {
	dx, dy := b[0]-a[0], b[1]-a[1]
	if dx == 0 && dy == 0 {
		return dist(a, p)
	}
	t := ((p[0]-a[0])*dx + (p[1]-a[1])*dy) / (dx*dx + dy*dy)
	t = math.Max(0, math.Min(1, t))
	return dist(orb.Point{a[0] + t*dx, a[1] + t*dy}, p)
}

var scales = []float64{1024, 1.0 / (1 << 40), 1.0 / 64} // large magnitudes, far below any absolute epsilon, small

func main() {
	r := ev.New("C12", "exploration")
	scales = scales[:ev.Pick(r, 2, 3)]
	r.Rule = "every vertex list of 0..N points on the 4x4 integer grid (repeated, collinear, coincident endpoints; the closed ones double as rings) x every threshold of a set that contains 0, every realisable critical value on the grid (point-segment distances for Douglas-Peucker, point-point distances for radial, half-integer areas for Visvalingam), the midpoints between consecutive critical values and one value above the largest - i.e. all thresholds up to order-equivalence; an execution is one vertex list (all simplifiers and thresholds inside); non-trivial = at least one simplifier dropped a vertex and at least one kept an interior vertex"
	r.Assume = []string{
		"simplifiers work in place (documented), inputs are cloned for every run",
		"'larger threshold never keeps a vertex a smaller one dropped' is checked by value: the output for t2 must be a subsequence of the output for t1 < t2 (index identity is not observable through the API)",
		"Douglas-Peucker distance bound is checked against the simplified polyline with +1e-9 slack",
		"minimum counts below 2 are not exercised",
	}
	// critical values
	var dcrit, rcrit []float64
	for a := 0; a < 16; a++ {
		for b := 0; b < 16; b++ {
			rcrit = append(rcrit, dist(gp(a), gp(b)))
			for p := 0; p < 16; p++ {
				dcrit = append(dcrit, distSeg(gp(a), gp(b), gp(p)))
			}
		}
	}
	dT, rT := thresholdSet(dcrit), thresholdSet(rcrit)
	var vT []float64
	for k := 0; k <= 38; k++ {
		vT = append(vT, float64(k)/4)
	}
	vT = append(vT, 100, math.MaxFloat64)
	r.Count("dp_thresholds", int64(len(dT)))
	r.Count("radial_thresholds", int64(len(rT)))
	r.Count("visvalingam_thresholds", int64(len(vT)))
	runs := make([]int64, 64)

	checkLine := func(c *mc.Ctx, in orb.LineString) {
		n := len(in)
		dropped, keptInterior := false, false
		basic := func(class string, out orb.LineString, what string) bool {
			if n == 0 {
				if len(out) != 0 {
					c.Failf(class, "%s of an empty line = %v", what, out)
					return false
				}
				return true
			}
			if len(out) == 0 || out[0] != in[0] || out[len(out)-1] != in[n-1] || !subseq(out, in) || (n >= 2 && len(out) < 2) {
				c.Failf(class, "%s(%v) = %v is not an order-preserving subsequence keeping first and last", what, in, out)
				return false
			}
			if len(out) < n {
				dropped = true
			}
			if len(out) > 2 {
				keptInterior = true
			}
			return true
		}
		closed := n >= 2 && in[0] == in[n-1]
		// Douglas-Peucker
		var prev orb.LineString
		for ti, t := range dT {
			runs[c.Worker]++
			out := simplify.DouglasPeucker(t).LineString(in.Clone())
			what := fmt.Sprintf("DouglasPeucker(%v).LineString", t)
			if o2 := simplify.DouglasPeucker(t).LineString(orb.LineString(refgeom.Spare(in))); !same(o2, out) {
				c.Failf("layout-dependent", "%s gives %v for the line with spare capacity behind it and %v otherwise | %v", what, o2, out, in)
				return
			}
			// the simplifier's exported fields are its configuration: set after construction they count like a value
			// given to the constructor
			if re := simplify.DouglasPeucker(t + 7.25); true {
				re.Threshold = t
				if o2 := re.LineString(in.Clone()); !same(o2, out) {
					c.Failf("field-ignored", "DouglasPeucker(%v) with Threshold then set to %v gives %v, DouglasPeucker(%v) gives %v | %v", t+7.25, t, o2, t, out, in)
					return
				}
			}
			if !basic("dp-subsequence", out, what) {
				return
			}
			for _, p := range in {
				if d := distToLine(out, p); d > t+1e-9 {
					c.Failf("dp-distance", "%s(%v) = %v leaves vertex %v at distance %v", what, in, out, p, d)
					return
				}
			}
			if again := simplify.DouglasPeucker(t).LineString(out.Clone()); !same(again, out) {
				c.Failf("dp-idempotent", "%s(%v) = %v, simplifying again gives %v", what, in, out, again)
				return
			}
			// the line and the threshold scaled by a power of two (exact): the bit-for-bit scaled result
			for _, k := range scales {
				if o2 := simplify.DouglasPeucker(t * k).LineString(refgeom.Scale(in, k).(orb.LineString)); !refgeom.Equal(o2, refgeom.Scale(out, k)) {
					c.Failf("scaling", "%s: line and threshold scaled by %v give %v, unscaled %v | %v", what, k, o2, out, in)
					return
				}
			}
			if ti > 0 && !subseq(out, prev) {
				c.Failf("dp-nested", "DouglasPeucker on %v: threshold %v keeps %v, the smaller threshold %v kept %v", in, t, out, dT[ti-1], prev)
				return
			}
			prev = out
			// as a ring - closed or not, a ring is simplified as the vertex list it is
			if n >= 1 {
				if rg := simplify.DouglasPeucker(t).Ring(orb.Ring(in.Clone())); !same(orb.LineString(rg), out) || (closed && rg[0] != rg[len(rg)-1]) {
					c.Failf("dp-ring", "DouglasPeucker(%v).Ring(%v) = %v, LineString gives %v", t, in, rg, out)
					return
				}
			}
		}
		// Radial
		for _, t := range rT {
			runs[c.Worker]++
			out := simplify.Radial(dist, t).LineString(in.Clone())
			what := fmt.Sprintf("Radial(%v).LineString", t)
			// the distance function is the caller's: the same metric in other units (halved, with the halved
			// threshold - both exact in floating point) must make the same decisions
			if o2 := simplify.Radial(halfDistance, t/2).LineString(in.Clone()); !same(o2, out) {
				c.Failf("radial-metric", "Radial(distance/2, %v) gives %v, Radial(distance, %v) gives %v | %v", t/2, o2, t, out, in)
				return
			}
			for _, k := range scales {
				if o2 := simplify.Radial(dist, t*k).LineString(refgeom.Scale(in, k).(orb.LineString)); !refgeom.Equal(o2, refgeom.Scale(out, k)) {
					c.Failf("scaling", "%s: line and threshold scaled by %v give %v, unscaled %v | %v", what, k, o2, out, in)
					return
				}
			}
			if rr := simplify.Radial(halfDistance, t+7.25); true {
				rr.Threshold, rr.DistanceFunc = t, dist
				if o2 := rr.LineString(in.Clone()); !same(o2, out) {
					c.Failf("field-ignored", "Radial(distance/2, %v) with DistanceFunc and Threshold then set to (distance, %v) gives %v, Radial(distance, %v) gives %v | %v", t+7.25, t, o2, t, out, in)
					return
				}
			}
			if !basic("radial-subsequence", out, what) {
				return
			}
			if n > 2 {
				for i := 1; i < len(out)-1; i++ {
					if dist(out[i-1], out[i]) <= t {
						c.Failf("radial-spacing", "%s(%v) = %v keeps consecutive vertices %v,%v not farther apart than the threshold", what, in, out, out[i-1], out[i])
						return
					}
				}
			}
			if n >= 1 {
				if rg := simplify.Radial(dist, t).Ring(orb.Ring(in.Clone())); !same(orb.LineString(rg), out) {
					c.Failf("radial-ring", "Radial(%v).Ring(%v) = %v, LineString gives %v", t, in, rg, out)
					return
				}
			}
		}
		// Visvalingam: thresholds, default minimum counts, nesting
		prev = nil
		var prevRing orb.LineString
		for ti, t := range vT {
			runs[c.Worker]++
			out := simplify.VisvalingamThreshold(t).LineString(in.Clone())
			what := fmt.Sprintf("VisvalingamThreshold(%v).LineString", t)
			if o2 := simplify.VisvalingamThreshold(t).LineString(orb.LineString(refgeom.Spare(in))); !same(o2, out) {
				c.Failf("layout-dependent", "%s gives %v for the line with spare capacity behind it and %v otherwise | %v", what, o2, out, in)
				return
			}
			for _, k := range scales {
				if o2 := simplify.VisvalingamThreshold(t * k * k).LineString(refgeom.Scale(in, k).(orb.LineString)); !refgeom.Equal(o2, refgeom.Scale(out, k)) {
					c.Failf("scaling", "%s: line scaled by %v and threshold by its square give %v, unscaled %v | %v", what, k, o2, out, in)
					return
				}
			}
			if vv := simplify.Visvalingam(t+7.25, 5); true {
				vv.Threshold, vv.ToKeep = t, 0
				if o2 := vv.LineString(in.Clone()); !same(o2, out) {
					c.Failf("field-ignored", "Visvalingam(%v, 5) with Threshold and ToKeep then set to (%v, 0) gives %v, VisvalingamThreshold(%v) gives %v | %v", t+7.25, t, o2, t, out, in)
					return
				}
			}
			if !basic("vis-subsequence", out, what) {
				return
			}
			if n >= 2 && len(out) < 2 {
				c.Failf("vis-min", "%s(%v) = %v is below the default minimum of 2", what, in, out)
				return
			}
			if ti > 0 && !subseq(out, prev) {
				c.Failf("vis-nested", "Visvalingam on %v: threshold %v keeps %v, the smaller threshold %v kept %v", in, t, out, vT[ti-1], prev)
				return
			}
			prev = out
			// as a ring: minimum 4 when closed, 3 when open
			rg := orb.LineString(simplify.VisvalingamThreshold(t).Ring(orb.Ring(in.Clone())))
			min := 3
			if closed {
				min = 4
			}
			if !basic("vis-ring-subsequence", rg, "VisvalingamThreshold.Ring") {
				return
			}
			if (n >= min && len(rg) < min) || (n < min && len(rg) != n) {
				c.Failf("vis-ring-min", "VisvalingamThreshold(%v).Ring(%v) = %v goes below the default minimum %d", t, in, rg, min)
				return
			}
			if closed && n > 2 && rg[0] != rg[len(rg)-1] {
				c.Failf("vis-ring-closed", "VisvalingamThreshold(%v).Ring(%v) = %v is not closed", t, in, rg)
				return
			}
			if ti > 0 && !subseq(rg, prevRing) {
				c.Failf("vis-nested", "Visvalingam ring on %v: threshold %v keeps %v, the smaller %v kept %v", in, t, rg, vT[ti-1], prevRing)
				return
			}
			prevRing = rg
		}
		for keep := 2; keep <= 7; keep++ {
			runs[c.Worker]++
			out := simplify.VisvalingamKeep(keep).LineString(in.Clone())
			if !basic("vis-keep-subsequence", out, fmt.Sprintf("VisvalingamKeep(%d).LineString", keep)) {
				return
			}
			want := n
			if n > keep {
				want = keep
			}
			if n > 2 && len(out) != want {
				c.Failf("vis-keep", "VisvalingamKeep(%d).LineString(%v) = %v has %d vertices, want exactly %d", keep, in, out, len(out), want)
				return
			}
			// with a threshold and a minimum: never below the minimum
			out2 := simplify.Visvalingam(1.25, keep).LineString(in.Clone())
			if n > 2 && len(out2) < want {
				c.Failf("vis-min", "Visvalingam(1.25,%d).LineString(%v) = %v is below the requested minimum", keep, in, out2)
				return
			}
		}
		if dropped && keptInterior {
			c.NonTrivial()
		}
	}
	maxN := ev.Pick(r, 4, 5)
	r.Explore("lines", fmt.Sprintf("every vertex list of 0..%d grid points x all thresholds x {Douglas-Peucker, Radial, Visvalingam threshold / keep-N}, as line string and as ring", maxN),
		mc.Opts{MaxDev: -1, Split: 3}, func(c *mc.Ctx) {
			n := c.Choose(maxN + 1)
			var in orb.LineString
			if n == 0 && c.Bool() {
				in = orb.LineString{}
			}
			for i := 0; i < n; i++ {
				in = append(in, gp(c.Choose(G*G)))
			}
			checkLine(c, in)
		})
	// longer lines on a 3x3 grid (DP recursion depth, heap order in Visvalingam)
	n2 := ev.Pick(r, 6, 7)
	r.Explore("lines-3x3", fmt.Sprintf("every vertex list of exactly %d points on the 3x3 sub-grid", n2), mc.Opts{MaxDev: -1, Split: 3}, func(c *mc.Ctx) {
		var in orb.LineString
		for i := 0; i < n2; i++ {
			k := c.Choose(9)
			in = append(in, orb.Point{float64(k % 3), float64(k / 3)})
		}
		checkLine(c, in)
	})

	// families: long lines (the explicit stack of Douglas-Peucker, the heap of Visvalingam and the scratch
	// arrays grow with the input), and one simplifier object used for two different lines in a row
	lens := []int{8, 16, 33, 64, 100}
	if !r.Quick() {
		lens = append(lens, 257, 1025)
	}
	family := func(f, n int) orb.LineString {
		ls := make(orb.LineString, n)
		for i := range ls {
			x, y := float64(i), 0.0
			switch f {
			case 0: // sawtooth of constant height
				y = float64(i % 2 * 3)
			case 1: // sawtooth of growing height
				y = float64(i%2) * float64(i%7)
			case 2: // arc
				y = float64(i*(n-1-i)) / float64(n)
			case 3: // staircase with repeated vertices
				x, y = float64(i/3), float64(i/3%4)
			case 4: // collinear
				y = 2 * x
			case 5: // closed zig-zag loop (also valid as a ring)
				if i < n/2 {
					y = float64(i % 3)
				} else {
					x, y = float64(n-1-i), 5+float64(i%3)
				}
				if i == n-1 {
					x, y = 0, 0
				}
			}
			ls[i] = orb.Point{x, y}
		}
		return ls
	}
	// long chords, small thresholds: projected-metre magnitudes (chords of 2^20..2^24) with vertices a few centimetres
	// to decimetres off the chord and a centimetre threshold. The point-to-chord distance must not be lost to
	// cancellation: every dropped vertex stays within the threshold (judged with a projection-based distance that is
	// exact to ~1e-9 here), vertices farther off than the threshold are never all dropped.
	r.Explore("long-chords", "chords of length ~L in {2^20, 2^22, 2^24} (2 directions x 2 start points, one far from the origin) x 5 interior vertices (even / uneven fractions) displaced perpendicular to the chord by one of {0.05, 0.1, 0.2, 1, 3} (alternating sides / one side) x thresholds {0.01, 0.03, 0.5}: Douglas-Peucker error bound, idempotence, end points", mc.Opts{MaxDev: -1}, func(c *mc.Ctx) {
		L := []float64{1 << 20, 1 << 22, 1 << 24}[c.Choose(3)]
		off := []float64{0.05, 0.1, 0.2, 1, 3}[c.Choose(5)]
		t := []float64{0.01, 0.03, 0.5}[c.Choose(3)]
		// the chord: along (3,1) or a general direction, from the origin or from a point far from it; the vertices
		// at even or uneven fractions, on alternating sides or all on one side
		dir := []orb.Point{{L, L / 3}, {L * 0.9123456, L * 0.7345678}}[c.Choose(2)]
		a := []orb.Point{{0, 0}, {-8231234.37, 4971456.91}}[c.Choose(2)]
		fr := [][]float64{{1. / 6, 2. / 6, 3. / 6, 4. / 6, 5. / 6}, {0.45, 0.65, 0.8, 0.85, 0.9}}[c.Choose(2)]
		oneSide := c.Bool()
		dl := math.Hypot(dir[0], dir[1])
		nx, ny := -dir[1]/dl, dir[0]/dl
		in := orb.LineString{a}
		for k, f := range fr {
			sgn := float64(1 - 2*(k%2))
			if oneSide {
				sgn = 1
			}
			in = append(in, orb.Point{a[0] + dir[0]*f + sgn*off*nx, a[1] + dir[1]*f + sgn*off*ny})
		}
		in = append(in, orb.Point{a[0] + dir[0], a[1] + dir[1]})
		out := simplify.DouglasPeucker(t).LineString(in.Clone())
		desc := fmt.Sprintf("DouglasPeucker(%v) L=%v offset=%v line=%v result=%v", t, L, off, in, out)
		if len(out) < 2 || out[0] != in[0] || out[len(out)-1] != in[len(in)-1] || !subseq(out, in) {
			c.Failf("dp-subsequence", "not a subsequence keeping the end points | %s", desc)
			return
		}
		for _, p := range in {
			if d := distToLine(out, p); d > t*(1+1e-6)+1e-6 {
				c.Failf("dp-distance", "vertex %v is left %v from the simplified line | %s", p, d, desc)
				return
			}
		}
		if again := simplify.DouglasPeucker(t).LineString(out.Clone()); !same(again, out) {
			c.Failf("dp-idempotent", "simplifying again gives %v | %s", again, desc)
		}
		c.NonTrivial()
	})
	r.Explore("families", fmt.Sprintf("6 families (sawtooth, growing sawtooth, arc, staircase with repeats, collinear, closed loop) x lengths %v: the same oracle as `lines`; then 7 simplifier objects each used for two different lines in a row against fresh objects", lens), mc.Opts{MaxDev: -1, Split: 2}, func(c *mc.Ctx) {
		f := c.Choose(6)
		n := lens[c.Choose(len(lens))]
		in := family(f, n)
		checkLine(c, in)
		other := family((f+1)%6, n/2+1)
		for _, sp := range []struct {
			name        string
			used, fresh orb.Simplifier
		}{
			{"DouglasPeucker(0.6)", simplify.DouglasPeucker(0.6), simplify.DouglasPeucker(0.6)},
			{"DouglasPeucker(5)", simplify.DouglasPeucker(5), simplify.DouglasPeucker(5)},
			{"Radial(1.2)", simplify.Radial(dist, 1.2), simplify.Radial(dist, 1.2)},
			{"VisvalingamThreshold(0.6)", simplify.VisvalingamThreshold(0.6), simplify.VisvalingamThreshold(0.6)},
			{"VisvalingamKeep(5)", simplify.VisvalingamKeep(5), simplify.VisvalingamKeep(5)},
			{"Visvalingam(2,4)", simplify.Visvalingam(2, 4), simplify.Visvalingam(2, 4)},
			{"VisvalingamThreshold(50)", simplify.VisvalingamThreshold(50), simplify.VisvalingamThreshold(50)},
		} {
			first := sp.used.LineString(in.Clone())
			second := sp.used.LineString(other.Clone())
			if want := sp.fresh.LineString(other.Clone()); !same(second, want) {
				c.Failf("simplifier-reuse", "%s used for a %d-vertex line and then for %v gives %v, a fresh simplifier gives %v", sp.name, n, other, second, want)
				return
			}
			if again := sp.used.LineString(in.Clone()); !same(again, first) {
				c.Failf("simplifier-reuse", "%s gives %v for the family-%d line of %d vertices the first time and %v the third time", sp.name, first, f, n, again)
				return
			}
		}
	})

	// wrappers and the generic entry point
	// a simplifier value may be kept and reused for any number of geometries of any kind, in any order. The calls
	// under test go through one long-lived instance per worker (s), whose history grows with every execution; every
	// expected value comes from a fresh instance (mk) that has seen nothing before.
	type simpSpec struct {
		name string
		mk   func() orb.Simplifier
	}
	type simp struct {
		name string
		s    orb.Simplifier
		mk   func() orb.Simplifier
	}
	specs := []simpSpec{
		{"DouglasPeucker(0.6)", func() orb.Simplifier { return simplify.DouglasPeucker(0.6) }}, {"DouglasPeucker(5)", func() orb.Simplifier { return simplify.DouglasPeucker(5) }},
		{"Radial(1.2)", func() orb.Simplifier { return simplify.Radial(dist, 1.2) }}, {"Radial(9)", func() orb.Simplifier { return simplify.Radial(dist, 9) }},
		{"VisvalingamThreshold(0.6)", func() orb.Simplifier { return simplify.VisvalingamThreshold(0.6) }}, {"VisvalingamKeep(3)", func() orb.Simplifier { return simplify.VisvalingamKeep(3) }}, {"VisvalingamThreshold(50)", func() orb.Simplifier { return simplify.VisvalingamThreshold(50) }},
	}
	var liveMu sync.Mutex
	live := map[[2]int]orb.Simplifier{}
	simpOf := func(worker, i int) simp {
		liveMu.Lock()
		defer liveMu.Unlock()
		k := [2]int{worker, i}
		if live[k] == nil {
			live[k] = specs[i].mk()
		}
		return simp{specs[i].name, live[k], specs[i].mk}
	}
	simps := specs
	outerCat := []orb.Ring{
		{{0, 0}, {3, 0}, {3, 3}, {0, 3}, {0, 0}},
		{{0, 0}, {1, 0}, {2, 0}, {3, 0}, {3, 3}, {0, 0}},
		{{0, 0}, {1, 0}, {0, 0}},
		{{0, 0}, {0.1, 0}, {0.1, 0.1}, {0, 0.1}, {0, 0}},
	}
	// magnitudes at which squared distances and triangle areas overflow to +Inf (|v| > 1.3e154): nothing metric can be
	// asked of a simplifier there, but the clauses that only count and order vertices still stand - no panic, a
	// subsequence with both ends, the minimum count, keep-N exactly
	r.Explore("overflow-scale", "every list of 3..5 points of the 3x3 grid scaled by {1e150, 1e155, 1e200, 1e300} x 7 simplifiers (Visvalingam keep 2..4, Visvalingam threshold 1 / MaxFloat64, Douglas-Peucker 1, radial 1): an order-preserving subsequence with both ends, never below 2, keep-N returns exactly N", mc.Opts{MaxDev: -1, Split: 2}, func(c *mc.Ctx) {
		k := []float64{1e150, 1e155, 1e200, 1e300}[c.Choose(4)]
		n := 3 + c.Choose(3)
		in := make(orb.LineString, n)
		for i := range in {
			g := c.Choose(9)
			in[i] = orb.Point{float64(g%3) * k, float64(g/3) * k}
		}
		type sm struct {
			name string
			run  func(orb.LineString) orb.LineString
			keep int
		}
		sims := []sm{
			{"VisvalingamKeep(2)", func(l orb.LineString) orb.LineString { return simplify.VisvalingamKeep(2).LineString(l) }, 2},
			{"VisvalingamKeep(3)", func(l orb.LineString) orb.LineString { return simplify.VisvalingamKeep(3).LineString(l) }, 3},
			{"VisvalingamKeep(4)", func(l orb.LineString) orb.LineString { return simplify.VisvalingamKeep(4).LineString(l) }, 4},
			{"VisvalingamThreshold(1)", func(l orb.LineString) orb.LineString { return simplify.VisvalingamThreshold(1).LineString(l) }, 0},
			{"VisvalingamThreshold(MaxFloat64)", func(l orb.LineString) orb.LineString { return simplify.VisvalingamThreshold(math.MaxFloat64).LineString(l) }, 0},
			{"DouglasPeucker(1)", func(l orb.LineString) orb.LineString { return simplify.DouglasPeucker(1).LineString(l) }, 0},
			{"Radial(1)", func(l orb.LineString) orb.LineString { return simplify.Radial(dist, 1).LineString(l) }, 0},
		}
		for _, s := range sims {
			var out orb.LineString
			var pan interface{}
			func() {
				defer func() { pan = recover() }()
				out = s.run(in.Clone())
			}()
			if pan != nil {
				c.Failf("overflow-panic", "%s(%v) panics: %v", s.name, in, pan)
				continue
			}
			if len(out) < 2 || out[0] != in[0] || out[len(out)-1] != in[n-1] || !subseq(out, in) {
				c.Failf("overflow-subsequence", "%s(%v) = %v is not an order-preserving subsequence keeping first and last", s.name, in, out)
				continue
			}
			if s.keep > 0 {
				want := n
				if n > s.keep {
					want = s.keep
				}
				if len(out) != want {
					c.Failf("overflow-keep", "%s(%v) = %v has %d vertices, want exactly %d", s.name, in, out, len(out), want)
				}
			}
		}
		c.NonTrivial()
	})
	r.Explore("wrappers", "7 simplifiers x outer catalogue x every 3-vertex closed hole: Polygon / MultiPolygon / Collection / MultiLineString / Simplify / mvt Layers.Simplify compose the ring results and drop only rings (polygons) reduced to <= 2 points",
		mc.Opts{MaxDev: -1, Split: 2}, func(c *mc.Ctx) {
			sp := simpOf(c.Worker, c.Choose(len(simps)))
			outer := outerCat[c.Choose(len(outerCat))]
			var hole orb.Ring
			for i := 0; i < 3; i++ {
				hole = append(hole, gp(c.Choose(G*G)))
			}
			hole = append(hole, hole[0])
			so, sh := sp.mk().Ring(outer.Clone()), sp.mk().Ring(hole.Clone())
			poly := orb.Polygon{outer, hole}
			want := orb.Polygon{so}
			if len(sh) > 2 {
				want = append(want, sh)
			}
			got := sp.s.Polygon(poly.Clone())
			if !refgeom.Equal(got, want) {
				c.Failf("polygon", "%s.Polygon(%v) = %v, want %v", sp.name, poly, got, want)
			}
			// several holes, among them ones that collapse and are dropped: every ring is simplified on its own,
			// wherever it stands in the list (in particular right after a dropped one)
			{
				tiny := orb.Ring{{1, 1}, {1.001, 1}, {1.001, 1.001}, {1, 1}}
				wide := orb.Ring{{0, 3}, {3, 3}, {3, 0}, {0, 3}}
				pool := []orb.Ring{hole, tiny, wide, tiny}
				for _, ord := range [][]int{{0, 1, 2}, {1, 0, 2}, {1, 2, 0}, {1, 3, 0}, {0, 1, 3, 2}, {2, 1, 0}} {
					p3 := orb.Polygon{outer.Clone()}
					w3 := orb.Polygon{so}
					for _, k := range ord {
						p3 = append(p3, pool[k].Clone())
						if sr := sp.mk().Ring(pool[k].Clone()); len(sr) > 2 {
							w3 = append(w3, sr)
						}
					}
					if g3 := sp.s.Polygon(p3.Clone()); !refgeom.Equal(g3, w3) {
						c.Failf("polygon", "%s.Polygon(%v) = %v, want every ring simplified on its own: %v", sp.name, p3, g3, w3)
					}
				}
			}
			other := orb.Polygon{outerCat[0].Clone()}
			mp := orb.MultiPolygon{poly.Clone(), other}
			var wm orb.MultiPolygon
			if len(so) > 2 {
				wm = append(wm, want)
			}
			if so2 := sp.mk().Polygon(other.Clone()); len(so2[0]) > 2 {
				wm = append(wm, so2)
			}
			gm := sp.s.MultiPolygon(mp.Clone())
			if !refgeom.Equal(gm, wm) {
				c.Failf("multipolygon", "%s.MultiPolygon(%v) = %v, want %v", sp.name, mp, gm, wm)
			}
			ls := orb.LineString(hole.Clone())
			mls := orb.MultiLineString{ls.Clone(), orb.LineString(outer.Clone())}
			gl := sp.s.MultiLineString(mls.Clone())
			wl := orb.MultiLineString{sp.mk().LineString(ls.Clone()), sp.mk().LineString(orb.LineString(outer.Clone()))}
			if !refgeom.Equal(gl, wl) {
				c.Failf("multilinestring", "%s.MultiLineString(%v) = %v, want %v", sp.name, mls, gl, wl)
			}
			// generic entry point equals the typed function for every kind
			type pair struct {
				g    orb.Geometry
				want orb.Geometry
			}
			nilIfEmpty := func(g orb.Geometry, n int) orb.Geometry {
				if n == 0 {
					return nil
				}
				return g
			}
			pairs := []pair{
				{orb.Point{1, 2}, orb.Point{1, 2}},
				{orb.MultiPoint{{1, 2}, {1, 2}}, orb.MultiPoint{{1, 2}, {1, 2}}},
				{ls.Clone(), sp.mk().LineString(ls.Clone())},
				{mls.Clone(), nilIfEmpty(wl, len(wl))},
				{hole.Clone(), sh},
				{poly.Clone(), nilIfEmpty(want, len(want))},
				{mp.Clone(), nilIfEmpty(wm, len(wm))},
				{orb.Bound{Min: orb.Point{0, 0}, Max: orb.Point{1, 1}}, orb.Bound{Min: orb.Point{0, 0}, Max: orb.Point{1, 1}}},
			}
			var col, wcol orb.Collection
			for _, p := range pairs {
				g := sp.s.Simplify(orb.Clone(p.g))
				if !refgeom.Equal(g, p.want) {
					c.Failf("generic", "%s.Simplify(%v) = %v, the typed function gives %v", sp.name, p.g, g, p.want)
				}
				col = append(col, orb.Clone(p.g))
				wcol = append(wcol, p.want)
			}
			gc := sp.s.Simplify(col)
			if !refgeom.Equal(gc, wcol) {
				c.Failf("collection", "%s.Simplify(collection) = %v, want member-wise %v", sp.name, gc, wcol)
			}
			layer := &mvt.Layer{Features: []*geojson.Feature{geojson.NewFeature(poly.Clone()), geojson.NewFeature(orb.LineString{}), geojson.NewFeature(ls.Clone())}}
			mvt.Layers{layer}.Simplify(sp.s)
			// singular and plural forms agree, layer by layer
			mkL := func() *mvt.Layer {
				return &mvt.Layer{Features: []*geojson.Feature{geojson.NewFeature(poly.Clone()), geojson.NewFeature(orb.LineString{}), geojson.NewFeature(ls.Clone())}}
			}
			single := mkL()
			single.Simplify(sp.s)
			// the features of the plural run carry an id, properties and a bbox member: none of that has any say
			deco := func(l *mvt.Layer) *mvt.Layer {
				for i, f := range l.Features {
					f.ID = i
					f.Properties["k"] = i
					f.BBox = geojson.BBox{0, 0, 0.5, 0.5}
				}
				return l
			}
			many := mvt.Layers{deco(mkL()), {Name: "empty"}, deco(mkL())}
			many.Simplify(sp.s)
			for li, l := range many {
				wl := single.Features
				if li == 1 {
					wl = nil
				}
				same := len(l.Features) == len(wl)
				for fi := 0; same && fi < len(wl); fi++ {
					same = refgeom.Equal(l.Features[fi].Geometry, wl[fi].Geometry)
				}
				if !same || len(single.Features) != len(layer.Features) {
					c.Failf("mvt-layers-simplify", "%s: Layers.Simplify and Layer.Simplify disagree on layer %d (%d vs %d features)", sp.name, li, len(l.Features), len(wl))
					break
				}
			}
			if len(layer.Features) == 2 {
				// the feature behind a dropped one is simplified like any other
				if wl := sp.mk().Simplify(ls.Clone()); !refgeom.Equal(layer.Features[1].Geometry, wl) {
					c.Failf("mvt-layers-simplify", "%s: the feature following a dropped feature comes back as %v, simplified alone it is %v", sp.name, layer.Features[1].Geometry, wl)
				}
			}
			if len(layer.Features) != 2 || !refgeom.Equal(layer.Features[0].Geometry, want) {
				c.Failf("mvt-layers-simplify", "%s: Layers.Simplify kept %d features, first = %v, want 2 and %v", sp.name, len(layer.Features), layer.Features[0].Geometry, want)
			}
			if len(sh) != len(hole) || len(so) != len(outer) {
				c.NonTrivial()
			}
		})
	var total int64
	for _, x := range runs {
		total += x
	}
	r.Count("simplifier_runs", total)
	r.Sample(map[string]interface{}{"line": "[[0,0],[1,1],[2,0],[3,3]]", "simplifier": "DouglasPeucker", "thresholds": fmt.Sprintf("%d values, e.g. %v", len(dT), dT[:6])})
	r.Finish()
}
