// C04: WKT text round-trips every geometry with full float precision.
package main

import (
	"reflect"
	"fmt"
	"math"
	"strings"
	"unicode"

	"github.com/paulmach/orb"
	"github.com/paulmach/orb/encoding/wkt"

	"verif/lib/ev"
	"verif/lib/gg"
	"verif/lib/mc"
	"verif/lib/refgeom"
	"verif/lib/retain"
)

// Ffin: finite values at the magnitudes where %g switches to exponent form, plus precision edge cases
var ffin = []float64{
	1, -2.5, 0.1, 1.0 / 3, 1e21, 1e-7, 9007199254740993, 5e-324, math.MaxFloat64, math.Copysign(0, -1),
	123456789.12345678, -180, 90, 1e20, 0.0001, 0.00001, -1e-5, 4.9e-324, 1.7976931348623157e308, 1e22, 100000, 123456,
}

// plain: values that never print with an exponent
var plain = []float64{1, -2.5, 0.5, 3, 100, -7, 0.25, 42, 8, -0.75, 1000, 6, 12.125, -64}

type typedParser struct {
	kind string
	f    func(string) (orb.Geometry, error)
}

var typed = []typedParser{
	{"Point", func(s string) (orb.Geometry, error) { g, e := wkt.UnmarshalPoint(s); return g, e }},
	{"MultiPoint", func(s string) (orb.Geometry, error) { g, e := wkt.UnmarshalMultiPoint(s); return g, e }},
	{"LineString", func(s string) (orb.Geometry, error) { g, e := wkt.UnmarshalLineString(s); return g, e }},
	{"MultiLineString", func(s string) (orb.Geometry, error) { g, e := wkt.UnmarshalMultiLineString(s); return g, e }},
	{"Polygon", func(s string) (orb.Geometry, error) { g, e := wkt.UnmarshalPolygon(s); return g, e }},
	{"MultiPolygon", func(s string) (orb.Geometry, error) { g, e := wkt.UnmarshalMultiPolygon(s); return g, e }},
	{"Collection", func(s string) (orb.Geometry, error) { g, e := wkt.UnmarshalCollection(s); return g, e }},
}

func kindName(g orb.Geometry) string {
	switch g.(type) {
	case orb.Point:
		return "Point"
	case orb.MultiPoint:
		return "MultiPoint"
	case orb.LineString:
		return "LineString"
	case orb.MultiLineString:
		return "MultiLineString"
	case orb.Polygon:
		return "Polygon"
	case orb.MultiPolygon:
		return "MultiPolygon"
	case orb.Collection:
		return "Collection"
	}
	return "?"
}

// input predicates of the known findings (decided on the value, not on the failure)
func hasEmptyPart(g orb.Geometry) bool {
	switch v := g.(type) {
	case orb.MultiLineString:
		for _, l := range v {
			if len(l) == 0 {
				return true
			}
		}
	case orb.Polygon:
		for _, l := range v {
			if len(l) == 0 {
				return true
			}
		}
	case orb.MultiPolygon:
		for _, p := range v {
			if len(p) == 0 || hasEmptyPart(p) {
				return true
			}
		}
	case orb.Collection:
		for _, m := range v {
			if hasEmptyPart(m) {
				return true
			}
		}
	}
	return false
}

func collectionPredicate(c orb.Collection) string {
	nested, emptyMember, exp := false, false, false
	for _, m := range c {
		if _, ok := m.(orb.Collection); ok {
			nested = true
		}
		n := 0
		refgeom.Vertices(m, true, func(*orb.Point) { n++ })
		if _, isCol := m.(orb.Collection); !isCol && n == 0 {
			emptyMember = true
		}
		if strings.ContainsAny(wkt.MarshalString(m), "e") {
			exp = true
		}
	}
	switch {
	case nested:
		return "collection-nested"
	case emptyMember:
		return "collection-empty-member"
	case exp:
		return "collection-exponent-coordinate"
	}
	return ""
}

// recordedBehaviour: the known WKT findings are "the text is refused" (ErrNotWKT / ErrUnsupportedGeometry and no
// value) and, for collections with nested or EMPTY members, "members are silently dropped" (the result is a collection
// whose leaves are a subsequence of the expected leaves: members dropped, nesting lost). Any other outcome on such an input - a value with other coordinates,
// another kind, another error - is not the recorded finding.
func recordedBehaviour(norm, got orb.Geometry, err error) bool {
	isNil := got == nil || reflect.ValueOf(got).Kind() == reflect.Slice && reflect.ValueOf(got).Len() == 0
	if err == wkt.ErrNotWKT || err == wkt.ErrUnsupportedGeometry {
		return isNil
	}
	if err != nil {
		return false
	}
	want, ok1 := norm.(orb.Collection)
	have, ok2 := got.(orb.Collection)
	if !ok1 || !ok2 {
		return false
	}
	// members dropped and nesting lost: the leaves of the result are a subsequence of the expected leaves
	var flatten func(c orb.Collection, out []orb.Geometry) []orb.Geometry
	flatten = func(c orb.Collection, out []orb.Geometry) []orb.Geometry {
		for _, m := range c {
			if mc, ok := m.(orb.Collection); ok && len(mc) > 0 {
				out = flatten(mc, out)
			} else {
				out = append(out, m)
			}
		}
		return out
	}
	wl, hl := flatten(want, nil), flatten(have, nil)
	i := 0
	for _, m := range hl {
		for i < len(wl) && refgeom.Struct(wl[i]) != refgeom.Struct(m) {
			i++
		}
		if i == len(wl) {
			return false
		}
		i++
	}
	return true
}

func classify(norm orb.Geometry, base string, err error, got orb.Geometry) string {
	if !recordedBehaviour(norm, got, err) {
		return base
	}
	pred := ""
	if hasEmptyPart(norm) {
		pred = "empty-part"
	} else if c, ok := norm.(orb.Collection); ok {
		pred = collectionPredicate(c)
	}
	if pred == "" {
		return base
	}
	_ = err
	return "wkt:" + pred
}

var kept retain.Keeper

func roundTrip(c *mc.Ctx, g orb.Geometry) {
	norm := refgeom.Normal(g, false)
	text := wkt.MarshalString(g)
	b := wkt.Marshal(g)
	if string(b) != text {
		c.Failf("marshal-differs", "Marshal and MarshalString differ for %v", g)
	}
	// the bytes an earlier Marshal returned must still be what it returned
	if d := kept.Bytes(c.Worker, "text from wkt.Marshal", b, text); d != "" {
		c.Failf("result-overwritten", "%s | now marshalling %q", d, text)
	}
	desc := fmt.Sprintf("geometry=%T %v text=%q", g, g, text)
	got, err := wkt.Unmarshal(text)
	if err != nil || refgeom.Struct(got) != refgeom.Struct(norm) {
		c.Failf(classify(norm, "roundtrip", err, got), "Unmarshal returned %T %v, %v; want %T %v | %s", got, got, err, norm, norm, desc)
	}
	own := kindName(norm)
	for _, tp := range typed {
		tg, terr := tp.f(text)
		if tp.kind == own {
			if terr != nil || refgeom.Struct(tg) != refgeom.Struct(norm) {
				c.Failf(classify(norm, "typed-roundtrip", terr, tg), "Unmarshal%s returned %v, %v; want %v | %s", tp.kind, tg, terr, norm, desc)
			}
		} else if terr != wkt.ErrIncorrectGeometry {
			c.Failf("typed-wrong-kind", "Unmarshal%s on %s text returned %v, %v; want ErrIncorrectGeometry | %s", tp.kind, own, tg, terr, desc)
		}
	}
}

// edit positions: before/after every comma and parenthesis, and both ends
func editSlots(text string) []int {
	var slots []int
	slots = append(slots, 0)
	for i, ch := range text {
		if ch == ',' || ch == '(' || ch == ')' {
			slots = append(slots, i, i+1)
		}
	}
	slots = append(slots, len(text))
	// dedupe
	var out []int
	for i, s := range slots {
		if i == 0 || s != slots[i-1] {
			out = append(out, s)
		}
	}
	return out
}

func recase(text string, mode int) string {
	switch mode {
	case 1:
		return strings.ToLower(text)
	case 2:
		var sb strings.Builder
		for i, ch := range text {
			if i%2 == 0 {
				sb.WriteRune(unicode.ToLower(ch))
			} else {
				sb.WriteRune(ch)
			}
		}
		return sb.String()
	}
	return text
}

func main() {
	r := ev.New("C04", "exploration")
	r.Rule = "round trip: geometry grammar (full product of the non-collection kinds, collections within a deviation bound) with coordinates assigned positionally from 22 finite values that include every magnitude at which %g switches to exponent form, 5e-324, MaxFloat64, -0 and 17-digit values, plus a value sweep of all 22 values through one slot of one shape per kind; every value is printed and parsed through Unmarshal and all 7 typed parsers; re-spelling: for a base set of texts of every kind, every combination of a keyword-case mode with at most 2 (thorough 3) whitespace insertions (space, tab, newline) at any position next to a comma, a parenthesis or either end; non-trivial = the geometry has a vertex / the re-spelling changes the text"
	r.Assume = []string{
		"coordinates are finite (the quantifier says so); ring and bound print as POLYGON; nil and empty slices both print as the EMPTY form",
		"whitespace is never inserted between the two numbers of a coordinate",
		"known findings are matched on predicates of the input value combined with the observed outcome",
	}
	type loc struct {
		g     *gg.Gen
		reset func(int)
		n     int
	}
	mk := func(vals []float64, k, m int) func(int) interface{} {
		return func(int) interface{} {
			next, reset := gg.CyclicAt(vals)
			return &loc{n: len(vals) / 2, g: &gg.Gen{K: k, M: m, Depth: 3, NilSlice: true, Next: next}, reset: reset}
		}
	}
	nt := func(c *mc.Ctx, g orb.Geometry) {
		n := 0
		refgeom.Vertices(g, true, func(*orb.Point) { n++ })
		if n > 0 {
			c.NonTrivial()
		}
	}
	r.Explore("roundtrip-noncollection", "full product of the 8 non-collection kinds (k=3,m=2), coordinates from the finite alphabet", mc.Opts{MaxDev: -1, Split: 3, NewLocal: mk(ffin, 3, 2)}, func(c *mc.Ctx) {
		l := c.Local().(*loc)
		l.reset(c.Choose(l.n))
		g := l.g.Kind(c, c.Choose(gg.KCollection), 0, true)
		roundTrip(c, g)
		nt(c, g)
	})
	dev := ev.Pick(r, 7, 9)
	r.Explore("roundtrip-collections", fmt.Sprintf("collections nested to depth 3 within %d deviations, coordinates from the finite alphabet (exponent forms included)", dev), mc.Opts{MaxDev: dev, Split: 3, NewLocal: mk(ffin, 2, 2)}, func(c *mc.Ctx) {
		l := c.Local().(*loc)
		l.reset(c.Choose(l.n))
		g := l.g.Kind(c, gg.KCollection, 0, true)
		roundTrip(c, g)
		nt(c, g)
	})
	r.Explore("roundtrip-collections-plain", fmt.Sprintf("the same collections with coordinates that never print in exponent form (so that flat collections of non-empty members must round-trip)"), mc.Opts{MaxDev: dev, Split: 3, NewLocal: mk(plain, 2, 2)}, func(c *mc.Ctx) {
		l := c.Local().(*loc)
		l.reset(c.Choose(l.n))
		g := l.g.Kind(c, gg.KCollection, 0, true)
		roundTrip(c, g)
		nt(c, g)
	})
	shapes := []func(p orb.Point) orb.Geometry{
		func(p orb.Point) orb.Geometry { return p },
		func(p orb.Point) orb.Geometry { return orb.MultiPoint{{1, 2}, p} },
		func(p orb.Point) orb.Geometry { return orb.LineString{p, {1, 2}} },
		func(p orb.Point) orb.Geometry { return orb.Ring{{1, 2}, p, {3, 4}, {1, 2}} },
		func(p orb.Point) orb.Geometry { return orb.MultiLineString{{{1, 2}, {3, 4}}, {p, {5, 6}}} },
		func(p orb.Point) orb.Geometry { return orb.Polygon{{{1, 2}, {3, 4}, {5, 6}}, {{7, 8}, p, {9, 10}}} },
		func(p orb.Point) orb.Geometry { return orb.MultiPolygon{{{{1, 2}, {3, 4}}}, {{{5, 6}}, {p, {7, 8}}}} },
		func(p orb.Point) orb.Geometry { return orb.Bound{Min: orb.Point{-3, -4}, Max: p} },
	}
	// sizes: long texts (the parsers split with regular expressions and index into the split parts)
	wsizes := []int{17, 100, 257, 1000}
	if !r.Quick() {
		wsizes = append(wsizes, 10000)
	}
	// zero values: geometries whose coordinates are all zero (the Go zero value of the point and bound types)
	// are geometries like any other, not "absent"
	nz := math.Copysign(0, -1)
	zeros := []orb.Geometry{
		orb.Point{}, orb.Point{nz, nz}, orb.Point{0, nz},
		orb.MultiPoint{{}}, orb.MultiPoint{{}, {}}, orb.LineString{{}, {}}, orb.Ring{{}, {}, {}, {}}, orb.Polygon{{{}, {}, {}, {}}}, orb.MultiLineString{{{}, {}}}, orb.MultiPolygon{{{{}, {}, {}, {}}}},
		orb.Collection{orb.Point{}}, orb.Collection{orb.Point{1, 2}, orb.Point{}, orb.LineString{{}, {}}}, orb.Collection{orb.Collection{orb.Point{}}, orb.Point{3, 4}},
		orb.Bound{}, orb.Collection{orb.Bound{}},
	}
	r.Explore("zero-values", fmt.Sprintf("%d geometries whose coordinates are all zero (points, bounds, lines, rings, polygons; alone, as collection members, nested; negative zeros)", len(zeros)), mc.Opts{MaxDev: -1}, func(c *mc.Ctx) {
		g := zeros[c.Choose(len(zeros))]
		roundTrip(c, g)
		c.NonTrivial()
	})
	// points whose printed text is a suffix, a prefix or a digit-wise extension of another point's text in the same
	// vertex list (a parser that compares or searches text instead of coordinates confuses them): first / last vertex
	// pairs of unclosed lists and of closed ones, through every kind that holds a vertex list
	textPairs := [][2]orb.Point{{{1, 2}, {-1, 2}}, {{5, 0}, {15, 0}}, {{0.5, 1e-07}, {-0.5, 1e-07}}, {{5e+30, 1}, {2.5e+30, 1}}, {{1, 2}, {1, 25}}, {{1, 2}, {11, 2}}, {{-1, 2}, {1, 2}}, {{1, 2}, {1, 2}}}
	r.Explore("text-alike-vertices", fmt.Sprintf("%d pairs of vertices whose texts contain each other x position {first/last, last/first, neighbours} x 7 kinds: the round trip returns every coordinate", len(textPairs)), mc.Opts{MaxDev: -1}, func(c *mc.Ctx) {
		pr := textPairs[c.Choose(len(textPairs))]
		a, b := pr[0], pr[1]
		var list []orb.Point
		switch c.Choose(3) {
		case 0:
			list = []orb.Point{a, {3, 4}, {5, 6}, b}
		case 1:
			list = []orb.Point{b, {3, 4}, {5, 6}, a}
		default:
			list = []orb.Point{{3, 4}, a, b, {5, 6}}
		}
		cp := func() []orb.Point { return append([]orb.Point(nil), list...) }
		for _, g := range []orb.Geometry{
			orb.MultiPoint(cp()), orb.LineString(cp()), orb.Ring(cp()),
			orb.Polygon{{{0, 0}, {9, 0}, {9, 9}, {0, 0}}, orb.Ring(cp())},
			orb.Polygon{orb.Ring(cp()), {{0, 0}, {9, 0}, {9, 9}, {0, 0}}},
			orb.MultiLineString{{{7, 7}, {8, 8}}, orb.LineString(cp())},
			orb.MultiPolygon{{{{0, 0}, {9, 0}, {9, 9}, {0, 0}}}, {orb.Ring(cp()), orb.Ring(cp())}},
			orb.Collection{orb.Point{1, 1}, orb.Polygon{orb.Ring(cp())}},
		} {
			roundTrip(c, g)
		}
		c.NonTrivial()
	})
	r.Explore("sizes", fmt.Sprintf("6 count dimensions (points of a multi-point, vertices of a line, rings of a polygon, lines of a multi-line, polygons of a multi-polygon, members of a flat collection) x counts %v: round trip through the generic and the typed parsers", wsizes), mc.Opts{MaxDev: -1, Split: 2}, func(c *mc.Ctx) {
		dim := c.Choose(6)
		n := wsizes[c.Choose(len(wsizes))]
		pt := func(i int) orb.Point { return orb.Point{float64(i) / 4, float64(-i)} }
		var g orb.Geometry
		switch dim {
		case 0:
			m := make(orb.MultiPoint, n)
			for i := range m {
				m[i] = pt(i)
			}
			g = m
		case 1:
			m := make(orb.LineString, n)
			for i := range m {
				m[i] = pt(i)
			}
			g = m
		case 2:
			m := make(orb.Polygon, n)
			for i := range m {
				m[i] = orb.Ring{pt(i), pt(i + 1), pt(i + 2), pt(i)}
			}
			g = m
		case 3:
			m := make(orb.MultiLineString, n)
			for i := range m {
				m[i] = orb.LineString{pt(i), pt(i + 1)}
			}
			g = m
		case 4:
			m := make(orb.MultiPolygon, n)
			for i := range m {
				m[i] = orb.Polygon{{pt(i), pt(i + 1), pt(i + 2), pt(i)}}
			}
			g = m
		case 5:
			m := make(orb.Collection, n)
			for i := range m {
				switch i % 3 {
				case 0:
					m[i] = pt(i)
				case 1:
					m[i] = orb.LineString{pt(i), pt(i + 1)}
				default:
					m[i] = orb.Polygon{{pt(i), pt(i + 1), pt(i + 2), pt(i)}}
				}
			}
			g = m
		}
		roundTrip(c, g)
		c.NonTrivial()
	})
	r.Explore("value-sweep", "8 non-collection shapes x every ordered pair of the 22 finite values in one coordinate slot", mc.Opts{MaxDev: -1, Split: 2}, func(c *mc.Ctx) {
		sh := shapes[c.Choose(len(shapes))]
		x, y := ffin[c.Choose(len(ffin))], ffin[c.Choose(len(ffin))]
		roundTrip(c, sh(orb.Point{x, y}))
		roundTrip(c, sh(orb.Point{-x, -y}))
		c.NonTrivial()
	})

	// re-spellings
	bases := []orb.Geometry{
		orb.Point{1, -2.5},
		orb.MultiPoint{{1, 2}, {3, 4}},
		orb.MultiPoint{},
		orb.LineString{{1, 2}, {3, 4}, {5, 6}},
		orb.LineString{},
		orb.MultiLineString{{{1, 2}, {3, 4}}, {{5, 6}, {7, 8}}},
		orb.Polygon{{{0, 0}, {4, 0}, {4, 4}, {0, 0}}, {{1, 1}, {2, 1}, {2, 2}, {1, 1}}},
		orb.Polygon{},
		orb.MultiPolygon{{{{0, 0}, {4, 0}, {4, 4}, {0, 0}}}, {{{5, 5}, {6, 5}, {6, 6}, {5, 5}}, {{5.25, 5.25}, {5.5, 5.25}, {5.5, 5.5}, {5.25, 5.25}}}},
		orb.MultiLineString{},
		orb.MultiPolygon{},
		orb.Collection{orb.Point{7, 8}},
		orb.Collection{orb.Point{1, 2}, orb.LineString{{3, 4}, {5, 6}}, orb.Polygon{{{0, 0}, {1, 0}, {1, 1}, {0, 0}}}},
		orb.Collection{},
		// three parts on one level: one separator can be re-spelled while its neighbour stays as printed
		orb.MultiLineString{{{1, 2}, {3, 4}}, {{5, 6}, {7, 8}}, {{9, 1}, {2, 3}}},
		orb.Polygon{{{0, 0}, {9, 0}, {9, 9}, {0, 0}}, {{1, 1}, {2, 1}, {2, 2}, {1, 1}}, {{4, 1}, {5, 1}, {5, 2}, {4, 1}}},
		orb.MultiPolygon{{{{0, 0}, {4, 0}, {4, 4}, {0, 0}}}, {{{5, 5}, {6, 5}, {6, 6}, {5, 5}}}, {{{7, 7}, {8, 7}, {8, 8}, {7, 7}}, {{7.25, 7.1}, {7.5, 7.1}, {7.5, 7.3}, {7.25, 7.1}}, {{7.6, 7.1}, {7.9, 7.1}, {7.9, 7.8}, {7.6, 7.1}}}},
	}
	ws := []string{" ", "\t", "\n"}
	edits := ev.Pick(r, 2, 3)
	r.Explore("respell", fmt.Sprintf("%d base texts x keyword case {as printed, lower, mixed} x every set of <= %d whitespace insertions (space, tab, newline) next to commas, parentheses and at either end", len(bases), edits), mc.Opts{MaxDev: -1, Split: 3}, func(c *mc.Ctx) {
		g := bases[c.Choose(len(bases))]
		norm := refgeom.Normal(g, false)
		text := wkt.MarshalString(g)
		mode := c.Choose(3)
		slots := editSlots(text)
		// choose up to `edits` insertions at non-decreasing slot indices (positions refer to the base text)
		type ins struct {
			pos int
			s   string
		}
		var chosen []ins
		from := 0
		for e := 0; e < edits; e++ {
			k := c.Choose(len(slots) - from + 1)
			if k == 0 {
				break
			}
			si := from + k - 1
			chosen = append(chosen, ins{slots[si], ws[c.Choose(len(ws))]})
			from = si
		}
		var sb strings.Builder
		ci := 0
		for i := 0; i <= len(text); i++ {
			for ci < len(chosen) && chosen[ci].pos == i {
				sb.WriteString(chosen[ci].s)
				ci++
			}
			if i < len(text) {
				sb.WriteByte(text[i])
			}
		}
		spelled := recase(sb.String(), mode)
		if spelled == text {
			return
		}
		c.NonTrivial()
		got, err := wkt.Unmarshal(spelled)
		if err != nil || refgeom.Struct(got) != refgeom.Struct(norm) {
			cl := "respell"
			if _, isCol := norm.(orb.Collection); isCol && len(chosen) > 0 {
				// the recorded finding is about three places only: between the GEOMETRYCOLLECTION keyword and its
				// parenthesis, right after that parenthesis, and right after a comma that separates two members (white
				// space anywhere else inside a collection - before a member comma, inside a member - parses)
				inner := false
				for _, in := range chosen {
					if in.pos <= 0 || in.pos >= len(text) {
						continue
					}
					depth := 0
					for _, ch := range text[:in.pos] {
						if ch == '(' {
							depth++
						} else if ch == ')' {
							depth--
						}
					}
					pv, nx := text[in.pos-1], text[in.pos]
					letter := func(b byte) bool { return b >= 'A' && b <= 'Z' }
					if (depth == 1 && (pv == '(' || pv == ',') && letter(nx)) || (depth == 0 && letter(pv) && nx == '(') {
						inner = true
					}
				}
				if inner && recordedBehaviour(norm, got, err) {
					cl = "wkt:collection-inner-whitespace"
				}
			}
			c.Failf(cl, "re-spelling %q of %q parses to %v, %v; want %v", spelled, text, got, err, norm)
			return
		}
		for _, tp := range typed {
			if tp.kind == kindName(norm) {
				if tg, terr := tp.f(spelled); terr != nil || refgeom.Struct(tg) != refgeom.Struct(norm) {
					c.Failf("respell-typed", "Unmarshal%s(%q) = %v, %v; want %v", tp.kind, spelled, tg, terr, norm)
				}
			}
		}
	})
	r.Sample(map[string]interface{}{"geometry": "MultiLineString{{{1e21,1e-07}},{{5e-324,-0}}}", "text": wkt.MarshalString(orb.MultiLineString{{{1e21, 1e-07}}, {{5e-324, math.Copysign(0, -1)}}})})
	r.Sample(map[string]interface{}{"respelling": "polygon ( (0 0 ,4 0,4 4,0 0),\t(1 1,2 1,2 2,1 1))"})
	r.Finish()
}
