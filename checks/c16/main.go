// C16: smart clipping closes cut rings around the box with the asked winding.
package main

import (
	"fmt"
	"math"
	"os"
	"sort"
	"strings"

	"github.com/paulmach/orb"
	"github.com/paulmach/orb/clip"
	"github.com/paulmach/orb/clip/smartclip"

	"verif/lib/ev"
	"verif/lib/exact"
	"verif/lib/mc"
	"verif/lib/refgeom"
)

const (
	G   = 5
	S   = 154
	pad = 1e-9
)

type ip = exact.IP

func gpt(k int) (orb.Point, ip) {
	return orb.Point{float64(k % G), float64(k / G)}, ip{int64(k % G), int64(k / G)}
}

func cross(a, b, c ip) int64 { return (b[0]-a[0])*(c[1]-a[1]) - (b[1]-a[1])*(c[0]-a[0]) }
func dot(a, b, c ip) int64   { return (b[0]-a[0])*(c[0]-a[0]) + (b[1]-a[1])*(c[1]-a[1]) }

func segsTouch(a, b, c, d ip) bool {
	d1, d2, d3, d4 := cross(c, d, a), cross(c, d, b), cross(a, b, c), cross(a, b, d)
	if ((d1 > 0 && d2 < 0) || (d1 < 0 && d2 > 0)) && ((d3 > 0 && d4 < 0) || (d3 < 0 && d4 > 0)) {
		return true
	}
	return (d1 == 0 && exact.OnSegmentI(c, d, a)) || (d2 == 0 && exact.OnSegmentI(c, d, b)) || (d3 == 0 && exact.OnSegmentI(a, b, c)) || (d4 == 0 && exact.OnSegmentI(a, b, d))
}

// simple: exact test on the unclosed vertex list
func simple(r []ip) bool {
	n := len(r)
	if exact.Area2I(r) == 0 {
		return false
	}
	for i := 0; i < n; i++ {
		for j := i + 1; j < n; j++ {
			if r[i] == r[j] {
				return false
			}
		}
		p, v, q := r[(i+n-1)%n], r[i], r[(i+1)%n]
		if cross(p, v, q) == 0 && dot(v, p, q) > 0 {
			return false // spike: the two edges at v overlap
		}
		for j := i + 2; j < n; j++ {
			if i == 0 && j == n-1 {
				continue
			}
			if segsTouch(r[i], r[(i+1)%n], r[j], r[(j+1)%n]) {
				return false
			}
		}
	}
	return true
}

type boxI struct{ x0, y0, x1, y1 int64 } // scaled by 2 so that midpoints are integers? no: integer box in grid units

// entersOpen: does the open segment a-b contain a point strictly inside the integer box (exact)?
func entersOpen(b boxI, p, q ip) bool {
	bx := exact.Box{MinX: exact.I(b.x0), MinY: exact.I(b.y0), MaxX: exact.I(b.x1), MaxY: exact.I(b.y1)}
	a, c := exact.P{X: exact.I(p[0]), Y: exact.I(p[1])}, exact.P{X: exact.I(q[0]), Y: exact.I(q[1])}
	t0, t1, ok := exact.ClipSegment(bx, a, c)
	if !ok || !t0.Less(t1) {
		return false
	}
	m := exact.Lerp(a, c, t0.Add(t1).Mul(exact.New(1, 2)))
	return bx.StrictlyInside(m)
}

func touchesClosed(b boxI, p, q ip) bool {
	bx := exact.Box{MinX: exact.I(b.x0), MinY: exact.I(b.y0), MaxX: exact.I(b.x1), MaxY: exact.I(b.y1)}
	_, _, ok := exact.ClipSegment(bx, exact.P{X: exact.I(p[0]), Y: exact.I(p[1])}, exact.P{X: exact.I(q[0]), Y: exact.I(q[1])})
	return ok
}

func onBoundary(b boxI, v ip) bool {
	return v[0] >= b.x0 && v[0] <= b.x1 && v[1] >= b.y0 && v[1] <= b.y1 && (v[0] == b.x0 || v[0] == b.x1 || v[1] == b.y0 || v[1] == b.y1)
}

// pointsInside: direction d from boundary point v points into the open box
func pointsInside(b boxI, v, w ip) bool {
	dx, dy := w[0]-v[0], w[1]-v[1]
	okx := (v[0] > b.x0 && v[0] < b.x1) || (v[0] == b.x0 && dx > 0) || (v[0] == b.x1 && dx < 0)
	oky := (v[1] > b.y0 && v[1] < b.y1) || (v[1] == b.y0 && dy > 0) || (v[1] == b.y1 && dy < 0)
	return okx && oky
}

// predicates of the two known findings (exact, on the input)
func tangency(b boxI, r []ip) bool { // (T) a vertex on the boundary whose two edges both go into the open box
	n := len(r)
	for i := range r {
		if onBoundary(b, r[i]) && pointsInside(b, r[i], r[(i+n-1)%n]) && pointsInside(b, r[i], r[(i+1)%n]) {
			return true
		}
	}
	return false
}

func cornerPass(b boxI, r []ip) bool { // (C) an edge passes through a box corner without entering the open box
	n := len(r)
	corners := []ip{{b.x0, b.y0}, {b.x1, b.y0}, {b.x1, b.y1}, {b.x0, b.y1}}
	for i := range r {
		p, q := r[i], r[(i+1)%n]
		for _, c := range corners {
			if c != p && c != q && exact.OnSegmentI(p, q, c) && !entersOpen(b, p, q) {
				dx, dy := q[0]-p[0], q[1]-p[1]
				if dx != 0 && dy != 0 {
					return true
				}
			}
		}
	}
	return false
}

type qpt struct {
	f orb.Point
	e ip // scaled by S
}

var qpts []qpt

func init() {
	for i := 0; i < 9; i++ {
		for j := 0; j < 9; j++ {
			x, y := int64(77*i+22), int64(77*j+14)
			qpts = append(qpts, qpt{orb.Point{float64(x) / S, float64(y) / S}, ip{x, y}})
		}
	}
}

func inFloat(r orb.Ring, p orb.Point) bool {
	in := false
	n := len(r)
	for i := 0; i < n; i++ {
		a, b := r[i], r[(i+1)%n]
		if (a[1] > p[1]) != (b[1] > p[1]) {
			if p[0] < a[0]+(p[1]-a[1])*(b[0]-a[0])/(b[1]-a[1]) {
				in = !in
			}
		}
	}
	return in
}

func inMulti(mp orb.MultiPolygon, p orb.Point) bool {
	for _, poly := range mp {
		if len(poly) == 0 || !inFloat(poly[0], p) {
			continue
		}
		hole := false
		for _, h := range poly[1:] {
			if inFloat(h, p) {
				hole = true
			}
		}
		if !hole {
			return true
		}
	}
	return false
}

func shoelace(r orb.Ring) float64 {
	s := 0.0
	for i := 0; i+1 < len(r); i++ {
		s += r[i][0]*r[i+1][1] - r[i+1][0]*r[i][1]
	}
	return s
}

// gpt2 is the half-step grid: k in 0..80 names the point (x/2, y/2), x, y in 0..8; the exact coordinate is in half units.
func gpt2(k int) (orb.Point, ip) {
	return orb.Point{float64(k%9) / 2, float64(k/9) / 2}, ip{int64(k % 9), int64(k / 9)}
}

// family: how ringCaseOf reads its vertices and names the known-finding class of a failure. half: vertices are
// indexes into the 9x9 half-step grid. keyed: the inputs of the part are a fixed list in both tiers, so a failure of a
// known class is known only if its key is in the committed list (class suffix ":families").
var family struct{ half, keyed bool }

func ringKey(r orb.Ring, o orb.Orientation) string {
	var sb strings.Builder
	fmt.Fprintf(&sb, "o%d", int(o))
	for _, p := range r {
		fmt.Fprintf(&sb, "_%g,%g", p[0], p[1])
	}
	return sb.String()
}

// validate a smartclip result against the region given by inOrig
func validate(c *mc.Ctx, class func(base string) string, box orb.Bound, got orb.MultiPolygon, o orb.Orientation, inOrig func(q qpt) bool, desc string) {
	for pi, poly := range got {
		if len(poly) == 0 {
			c.Failf(class("empty-polygon"), "result polygon %d has no rings | %s", pi, desc)
			return
		}
		for ri, ring := range poly {
			if len(ring) < 4 || ring[0] != ring[len(ring)-1] {
				c.Failf(class("ring-shape"), "result ring %d/%d %v is not a closed ring of >= 4 points | %s", pi, ri, ring, desc)
				return
			}
			for _, p := range ring {
				if p[0] < box.Min[0]-pad || p[0] > box.Max[0]+pad || p[1] < box.Min[1]-pad || p[1] > box.Max[1]+pad {
					c.Failf(class("outside-box"), "result vertex %v lies outside the box | %s", p, desc)
					return
				}
			}
		}
		if s := shoelace(poly[0]); (s > 1e-12 && o != orb.CCW) || (s < -1e-12 && o != orb.CW) {
			c.Failf(class("winding"), "outer ring %v winds against the requested orientation %d | %s", poly[0], o, desc)
			return
		}
	}
	for _, q := range qpts {
		if !(q.f[0] > box.Min[0]+1e-6 && q.f[0] < box.Max[0]-1e-6 && q.f[1] > box.Min[1]+1e-6 && q.f[1] < box.Max[1]-1e-6) {
			continue
		}
		if want, have := inOrig(q), inMulti(got, q.f); want != have {
			c.Failf(class("region"), "point %v: in the smart-clipped result = %v, in the original region = %v | %s", q.f, have, want, desc)
			return
		}
	}
}

func main() {
	r := ev.New("C16", "exploration")
	r.Rule = "every simple closed ring (exact simplicity test) of 3..N vertices on the 5x5 integer grid whose boundary meets the open box, in the winding it is given with the matching orientation argument (both windings occur as different vertex lists), against the integer box [1,3]^2 (vertices and edges on the box boundary and corners) and against three general-position boxes (one roughly square, one taller than wide, one wider than tall); polygons with one or two interior holes and multi-polygons from a catalogue; every contiguous sub-path of each ring that contains all of the ring's contact with the box, fed as an open ring; non-trivial = the ring has vertices both inside and outside the closed box"
	r.Assume = []string{
		"region equality is decided on the 81-point lattice ((77i+22)/154,(77j+14)/154) restricted to the open box (never on a line through two grid points), with exact integer even-odd for the original ring and against plain clip.Ring",
		"hole winding in the result is not constrained, only outer rings",
		"the two known findings are identified by exact predicates on the input (interior tangency at a boundary vertex; an edge through a box corner that does not enter the box) and, in the quick tier, additionally by the committed list of failing input keys: a failure outside that list is a violation even if the predicate holds",
	}
	ib := boxI{1, 1, 3, 3}
	ibox := orb.Bound{Min: orb.Point{1, 1}, Max: orb.Point{3, 3}}
	gbox := orb.Bound{Min: orb.Point{1.3127, 1.1533}, Max: orb.Point{2.9181, 2.5419}}
	tallBox := orb.Bound{Min: orb.Point{1.6127, 0.6533}, Max: orb.Point{2.4181, 3.4419}} // taller than wide
	wideBox := orb.Bound{Min: orb.Point{0.6213, 1.6127}, Max: orb.Point{3.4719, 2.4181}} // wider than tall
	dumpKeys := os.Getenv("C16_DUMP_KEYS") != ""
	var keyLog []string
	var ringCaseOf func(c *mc.Ctx, n int, gb *orb.Bound, vertex func(i int) int)
	ringCase := func(c *mc.Ctx, n int, gb *orb.Bound) {
		ringCaseOf(c, n, gb, func(int) int { return c.Choose(G * G) })
	}
	ringCaseOf = func(c *mc.Ctx, n int, gb *orb.Bound, vertex func(i int) int) {
		general := gb != nil
		ring := make(orb.Ring, 0, n+1)
		ir := make([]ip, n)
		ib, scale := ib, int64(S)
		if family.half {
			ib, scale = boxI{2, 2, 6, 6}, S/2
		}
		for i := 0; i < n; i++ {
			p, e := gpt(vertex(i))
			if family.half {
				p, e = gpt2(vertex(i))
			}
			ring = append(ring, p)
			ir[i] = e
		}
		if !simple(ir) {
			c.Skip()
			return
		}
		box := ibox
		if general {
			box = *gb
		}
		// boundary must meet the open box
		meets := false
		for i := range ir {
			if general {
				if out := clip.LineString(box, orb.LineString{ring[i], ring[(i+1)%n]}, clip.OpenBound(true)); len(out) > 0 {
					meets = true
				}
			} else if entersOpen(ib, ir[i], ir[(i+1)%n]) {
				meets = true
			}
		}
		if !meets {
			c.Skip()
			return
		}
		ring = append(ring, ring[0])
		o := orb.CCW
		if exact.Area2I(ir) < 0 {
			o = orb.CW
		}
		key := ringKey(ring, o)
		class := func(base string) string {
			if general {
				return base
			}
			suffix := ""
			if family.keyed {
				suffix = ":families" // a fixed input list with its own committed key list
			} else if n > 4 {
				suffix = ":5-vertex" // outside the committed key list: matched by the predicate alone
			}
			switch {
			case tangency(ib, ir):
				return "smartclip:interior-tangency" + suffix
			case cornerPass(ib, ir):
				return "smartclip:corner-pass-through" + suffix
			}
			return base
		}
		desc := fmt.Sprintf("key=%s box=%v orientation=%d ring=%v", key, box, o, ring)
		got := smartclip.Ring(box, ring.Clone(), o)
		desc += fmt.Sprintf(" result=%v", got)
		if g2 := smartclip.Ring(box, orb.Ring(refgeom.Spare(ring)), o); !g2.Equal(got) {
			c.Failf(class("layout-dependent"), "the ring with spare capacity behind it clips to %v | %s", g2, desc)
		}
		// the same problem scaled by a power of two (exact in float64): the bit-for-bit scaled result
		for _, k := range []float64{1024, 1.0 / (1 << 40)} {
			if gs := smartclip.Ring(refgeom.ScaleBound(box, k), refgeom.Scale(ring, k).(orb.Ring), o); !refgeom.Equal(gs, refgeom.Scale(got, k)) {
				c.Failf(class("scaling"), "scaled by %v the ring clips to %v | %s", k, gs, desc)
			}
		}
		ex := make([]ip, n)
		for i := range ir {
			ex[i] = ip{ir[i][0] * scale, ir[i][1] * scale}
		}
		plain := clip.Ring(box, ring.Clone())
		nf := len(c.Trail())
		_ = nf
		before := c
		_ = before
		validate(c, class, box, got, o, func(q qpt) bool { in, _ := exact.InRingI(ex, q.e); return in }, desc)
		// the same region plain clipping gives
		for _, q := range qpts {
			if q.f[0] > box.Min[0]+1e-6 && q.f[0] < box.Max[0]-1e-6 && q.f[1] > box.Min[1]+1e-6 && q.f[1] < box.Max[1]-1e-6 {
				if inFloat(plain, q.f) != inMulti(got, q.f) {
					c.Failf(class("vs-plain-clip"), "point %v: smart clip and plain clip disagree | %s", q.f, desc)
					break
				}
			}
		}
		inside, outside := 0, 0
		for _, p := range ring[:n] {
			if box.Contains(p) {
				inside++
			} else {
				outside++
			}
		}
		strict := true
		for _, p := range ring[:n] {
			if !(p[0] > box.Min[0] && p[0] < box.Max[0] && p[1] > box.Min[1] && p[1] < box.Max[1]) {
				strict = false
			}
		}
		if strict {
			if len(got) != 1 || len(got[0]) != 1 || !got[0][0].Equal(ring) {
				c.Failf(class("inside-unchanged"), "a ring wholly inside the box must be returned unchanged | %s", desc)
			}
		}
		if inside > 0 && outside > 0 {
			c.NonTrivial()
		}
	}
	logKeys := func(st mc.Stats) {
		if !dumpKeys {
			return
		}
		for _, f := range st.Fails {
			if strings.HasPrefix(f.Class, "smartclip:") {
				if i := strings.Index(f.Detail, "key="); i >= 0 {
					k := f.Detail[i+4:]
					keyLog = append(keyLog, f.Class+" "+k[:strings.IndexByte(k, ' ')])
				}
			}
		}
	}
	maxN := ev.Pick(r, 4, 5)
	for n := 3; n <= maxN; n++ {
		n := n
		st := r.Explore(fmt.Sprintf("rings-%d-integer-box", n), fmt.Sprintf("box [1,3]^2 x all simple rings of %d grid vertices meeting the open box", n), mc.Opts{MaxDev: -1, Split: 2, MaxFails: 2000000, StopAfter: 1 << 30}, func(c *mc.Ctx) { ringCase(c, n, nil) })
		if dumpKeys {
			for _, f := range st.Fails {
				if strings.HasPrefix(f.Class, "smartclip:") {
					if i := strings.Index(f.Detail, "key="); i >= 0 {
						k := f.Detail[i+4:]
						keyLog = append(keyLog, f.Class+" "+k[:strings.IndexByte(k, ' ')])
					}
				}
			}
		}
		for bi, gb := range []orb.Bound{gbox, tallBox, wideBox} {
			gb := gb
			r.Explore(fmt.Sprintf("rings-%d-general-box-%s", n, []string{"a", "tall", "wide"}[bi]), fmt.Sprintf("general-position box %v x all simple rings of %d grid vertices meeting the open box", gb, n), mc.Opts{MaxDev: -1, Split: 2}, func(c *mc.Ctx) { ringCase(c, n, &gb) })
		}
	}
	// frames: rings that go around the whole box (the four corners of the grid, in order) with a notch of two
	// free vertices cut into one side. Their pieces must be closed by wrapping around the rest of the box, and
	// the notch edges reach the box through its corners and edges in every combination the grid allows.
	family.keyed = true
	stf := r.Explore("frames-integer-box", "box [1,3]^2 x the grid frame (0,0)-(4,0)-(4,4)-(0,4) with two free grid vertices inserted on each of its 4 sides x 6 start vertices x both directions; simple rings meeting the open box only", mc.Opts{MaxDev: -1, Split: 3, MaxFails: 2000000, StopAfter: 1 << 30}, func(c *mc.Ctx) {
		side := c.Choose(4)
		v1, v2 := c.Choose(G*G), c.Choose(G*G)
		start := c.Choose(6)
		rev := c.Bool()
		frame := []int{0, 4, 24, 20}
		var seq []int
		for i := 0; i < 4; i++ {
			seq = append(seq, frame[i])
			if i == side {
				seq = append(seq, v1, v2)
			}
		}
		seq = append(seq[start:], seq[:start]...)
		if rev {
			for i, j := 0, len(seq)-1; i < j; i, j = i+1, j-1 {
				seq[i], seq[j] = seq[j], seq[i]
			}
		}
		ringCaseOf(c, 6, nil, func(i int) int { return seq[i] })
	})
	logKeys(stf)
	// touching vertices: a ring that comes from outside through one side, touches another side of the box from the
	// inside with a single vertex, and leaves again - so that two of its clipped pieces end in the same boundary point
	// while another result polygon is completed first. Half-step grid (the open box holds 3x3 grid points), all 8
	// symmetries of the square, every start vertex, both directions.
	family.half = true
	stt := r.Explore("touching-vertices", "box [1,3]^2, half-step grid: rings (outside-left A, inside B, T on the top side, inside C, outside-top D, outer corner) with A in 3, B and C in 9, T in 3, D in 4 positions x 8 symmetries of the square x 6 start vertices x both directions; simple rings only", mc.Opts{MaxDev: -1, Split: 3, MaxFails: 2000000, StopAfter: 1 << 30}, func(c *mc.Ctx) {
		a := [2]int{0, 3 + c.Choose(3)}
		b := [2]int{3 + c.Choose(3), 3 + c.Choose(3)}
		t := [2]int{3 + c.Choose(3), 6}
		cc := [2]int{3 + c.Choose(3), 3 + c.Choose(3)}
		d := [2]int{3 + c.Choose(4), 8}
		e := [2]int{0, 8}
		sym := c.Choose(8)
		start := c.Choose(6)
		rev := c.Bool()
		seq := make([]int, 0, 6)
		for _, p := range [][2]int{a, b, t, cc, d, e} {
			x, y := p[0]-4, p[1]-4
			if sym&4 != 0 {
				x, y = y, x
			}
			if sym&1 != 0 {
				x = -x
			}
			if sym&2 != 0 {
				y = -y
			}
			seq = append(seq, (y+4)*9+(x+4))
		}
		seq = append(seq[start:], seq[:start]...)
		if rev {
			for i, j := 0, len(seq)-1; i < j; i, j = i+1, j-1 {
				seq[i], seq[j] = seq[j], seq[i]
			}
		}
		ringCaseOf(c, 6, nil, func(i int) int { return seq[i] })
	})
	logKeys(stt)
	family.half = false
	// rings wholly outside: the boundary never enters the open box and the region does not hold the box (a ring
	// around the whole box is neither inside nor outside; it is left out). They may touch the box from outside -
	// share a corner, run along a side - and still yield nothing, through every entry point.
	for n := 3; n <= 4; n++ {
		n := n
		sto := r.Explore(fmt.Sprintf("outside-rings-%d", n), fmt.Sprintf("box [1,3]^2 x all simple rings of %d grid vertices that do not enter the open box and do not surround it (touching corners and sides included), as given and reversed: Ring / Polygon / MultiPolygon / Geometry return nothing", n), mc.Opts{MaxDev: -1, Split: 2, MaxFails: 2000000, StopAfter: 1 << 30}, func(c *mc.Ctx) {
			ring := make(orb.Ring, 0, n+1)
			ir := make([]ip, n)
			for i := 0; i < n; i++ {
				p, e := gpt(c.Choose(G * G))
				ring = append(ring, p)
				ir[i] = e
			}
			if !simple(ir) {
				c.Skip()
				return
			}
			for i := range ir {
				if entersOpen(ib, ir[i], ir[(i+1)%n]) {
					c.Skip()
					return
				}
			}
			if in, on := exact.InRingI(ir, ip{2, 2}); in || on {
				c.Skip() // the ring surrounds the box
				return
			}
			ring = append(ring, ring[0])
			o := orb.CCW
			if exact.Area2I(ir) < 0 {
				o = orb.CW
			}
			key := ringKey(ring, o)
			cl := "outside-not-empty"
			switch {
			case tangency(ib, ir):
				cl = "smartclip:interior-tangency:families"
			case cornerPass(ib, ir):
				cl = "smartclip:corner-pass-through:families"
			}
			desc := fmt.Sprintf("key=%s box=%v orientation=%d ring=%v", key, ibox, o, ring)
			touches := false
			for _, p := range ring {
				if ibox.Contains(p) {
					touches = true
				}
			}
			if got := smartclip.Ring(ibox, ring.Clone(), o); len(got) != 0 {
				c.Failf(cl, "smartclip.Ring of a ring wholly outside the box = %v | %s", got, desc)
			}
			if got := smartclip.Polygon(ibox, orb.Polygon{ring.Clone()}, o); len(got) != 0 {
				c.Failf(cl, "smartclip.Polygon of a ring wholly outside the box = %v | %s", got, desc)
			}
			if got := smartclip.MultiPolygon(ibox, orb.MultiPolygon{{ring.Clone()}}, o); len(got) != 0 {
				c.Failf(cl, "smartclip.MultiPolygon of a ring wholly outside the box = %v | %s", got, desc)
			}
			if got := smartclip.Geometry(ibox, ring.Clone(), o); got != nil {
				c.Failf(cl, "smartclip.Geometry of a ring wholly outside the box = %v | %s", got, desc)
			}
			if touches {
				c.NonTrivial()
			}
		})
		logKeys(sto)
	}
	family.keyed = false
	if dumpKeys {
		sort.Strings(keyLog)
		byClass := map[string][]string{}
		for _, l := range keyLog {
			f := strings.SplitN(l, " ", 2)
			byClass[f[0]] = append(byClass[f[0]], f[1])
		}
		for cl, ks := range byClass {
			name := ev.Root + "/known/KF-C16-" + strings.ReplaceAll(strings.TrimPrefix(cl, "smartclip:"), ":", "-") + ".keys"
			os.WriteFile(name, []byte(strings.Join(dedupe(ks), "\n")+"\n"), 0o644)
			fmt.Println("wrote", name, len(dedupe(ks)))
		}
	}

	// polygons with holes and multi-polygons (general-position box: no degenerate contacts)
	outers := []orb.Ring{
		{{0, 0}, {4, 0}, {4, 2}, {0, 2}, {0, 0}},
		{{0, 1.3}, {4, 1.3}, {2, 4}, {0, 1.3}},
		{{0, 0}, {2, 0}, {2, 4}, {0, 4}, {0, 0}},
		{{1.5, 1.25}, {2.5, 1.25}, {2.5, 2.25}, {1.5, 2.25}, {1.5, 1.25}},
		{{0, 0}, {4, 0}, {4, 4}, {0, 4}, {0, 0}}, // around the whole box: only a hole's boundary can cross the box
	}
	holes := []orb.Ring{
		{{1.55, 1.5}, {1.55, 1.75}, {1.75, 1.75}, {1.75, 1.5}, {1.55, 1.5}}, // inside the box
		{{1, 1.35}, {1, 1.75}, {1.5, 1.75}, {1.5, 1.35}, {1, 1.35}},         // crosses the left edge of the general box
		{{1.625, 1.3}, {1.625, 1.4}, {1.9, 1.4}, {1.9, 1.3}, {1.625, 1.3}},  // inside
	}
	r.Explore("polygons", "5 outer rings (one around the whole box, taken with the hole that crosses the box) x every subset of 3 holes that lie inside the outer ring x both orientations, general-position box: region = outer minus holes, holes that stay inside are attached to the polygon that contains them; multi-polygon with a second polygon (for the surrounding ring: an island inside the crossing hole, in both member orders)", mc.Opts{MaxDev: -1}, func(c *mc.Ctx) {
		oi := c.Choose(len(outers))
		outer := outers[oi].Clone()
		o := orb.CCW
		if c.Bool() {
			o = orb.CW
			outer.Reverse()
		}
		poly := orb.Polygon{outer}
		var used []orb.Ring
		for hi, h := range holes {
			if !c.Bool() {
				continue
			}
			ok := true
			for _, p := range h {
				if !inFloat(outers[oi], p) {
					ok = false
				}
			}
			if !ok || (oi == 3 && hi == 1) {
				c.Skip()
				return
			}
			hh := h.Clone()
			if o == orb.CCW { // holes wind against the outer ring
				// h is given clockwise already
			} else {
				hh.Reverse()
			}
			poly = append(poly, hh)
			used = append(used, h)
		}
		if oi == 4 {
			crossing := false
			for _, h := range used {
				if &h[0] == &holes[1][0] {
					crossing = true
				}
			}
			if !crossing {
				c.Skip() // a ring around the whole box with nothing crossing it is outside the statement
				return
			}
		}
		inOrig := func(q qpt) bool {
			if !inFloat(outers[oi], q.f) {
				return false
			}
			for _, h := range used {
				if inFloat(h, q.f) {
					return false
				}
			}
			return true
		}
		id := func(s string) string { return s }
		got := smartclip.Polygon(gbox, poly.Clone(), o)
		desc := fmt.Sprintf("box=%v orientation=%d polygon=%v result=%v", gbox, o, poly, got)
		validate(c, id, gbox, got, o, inOrig, desc)
		// holes wholly inside the box must be rings of the polygon that contains them
		for _, h := range used {
			allIn := true
			for _, p := range h {
				if !(p[0] > gbox.Min[0] && p[0] < gbox.Max[0] && p[1] > gbox.Min[1] && p[1] < gbox.Max[1]) {
					allIn = false
				}
			}
			if !allIn {
				continue
			}
			found := false
			for _, gp := range got {
				for _, gr := range gp[1:] {
					if len(gr) == len(h) && math.Abs(math.Abs(shoelace(gr))-math.Abs(shoelace(h))) < 1e-12 && inFloat(gp[0], h[0]) {
						found = true
					}
				}
			}
			if !found {
				c.Failf("hole-attachment", "the hole %v stays inside the box but is not a ring of the polygon containing it | %s", h, desc)
			}
		}
		second := orb.Ring{{2.6, 2.3}, {4, 2.3}, {4, 4}, {2.6, 4}, {2.6, 2.3}}
		if oi == 4 {
			// the same polygon as the only member of a multi-polygon, and through the generic entry point
			if gm := smartclip.MultiPolygon(gbox, orb.MultiPolygon{poly.Clone()}, o); !refgeom.Equal(gm, got) {
				c.Failf("multi:single-member", "smartclip.MultiPolygon of the polygon alone = %v, smartclip.Polygon gives %v | %s", gm, got, desc)
			}
			// and with an island inside the crossing hole that the box cuts as well: the surrounding polygon's outer ring
			// never reaches the box, the island's does - the hole still has to be clipped out of the box
			island := orb.Ring{{1.1, 1.45}, {1.4, 1.45}, {1.4, 1.65}, {1.1, 1.65}, {1.1, 1.45}}
			if o == orb.CW {
				island.Reverse()
			}
			for order := 0; order < 2; order++ {
				mp := orb.MultiPolygon{poly.Clone(), {island.Clone()}}
				if order == 1 {
					mp[0], mp[1] = mp[1], mp[0]
				}
				in := mp.Clone()
				gm := smartclip.MultiPolygon(gbox, mp, o)
				validate(c, func(s string) string { return "multi:island:" + s }, gbox, gm, o, func(q qpt) bool {
					return inOrig(q) || inFloat(island, q.f)
				}, fmt.Sprintf("box=%v orientation=%d multipolygon=%v result=%v", gbox, o, in, gm))
			}
		}
		if oi < 3 {
			if o == orb.CW {
				second.Reverse()
			}
			mp := orb.MultiPolygon{poly.Clone(), {second}}
			gm := smartclip.MultiPolygon(gbox, mp, o)
			validate(c, id, gbox, gm, o, func(q qpt) bool {
				return inOrig(q) || (q.f[0] > 2.6 && q.f[1] > 2.3)
			}, fmt.Sprintf("box=%v orientation=%d multipolygon=%v result=%v", gbox, o, mp, gm))
			g := smartclip.Geometry(gbox, orb.MultiPolygon{poly.Clone(), {second.Clone()}}, o)
			switch {
			case len(gm) == 0 && g != nil, len(gm) == 1 && !refgeom.Equal(g, gm[0]), len(gm) > 1 && !refgeom.Equal(g, gm):
				c.Failf("generic", "smartclip.Geometry = %v, MultiPolygon gives %v", g, gm)
			}
		}
		if len(poly) > 1 {
			c.NonTrivial()
		}
	})

	// multi-polygons mixing polygons that cross the box with polygons wholly inside it (with holes)
	r.Explore("multipolygon-inside-members", "multi-polygons of 1..2 polygons crossing the general-position box (one optionally with a hole far outside the box and / or a hole the box cuts), a polygon wholly inside it with 0..2 holes, optionally a second one without holes, and optionally a polygon far from the box, every order of the members, both orientations: region, and the inside polygon keeps exactly its own holes", mc.Opts{MaxDev: -1}, func(c *mc.Ctx) {
		o := orb.CCW
		if c.Bool() {
			o = orb.CW
		}
		wind := func(r orb.Ring, ccw bool) orb.Ring { // r is given counter-clockwise
			r = r.Clone()
			if !ccw {
				r.Reverse()
			}
			return r
		}
		crossA := orb.Ring{{2.6, 2.3}, {4, 2.3}, {4, 4}, {2.6, 4}, {2.6, 2.3}}
		crossB := orb.Ring{{0, 1.3}, {1.45, 1.3}, {1.45, 1.4}, {0, 1.4}, {0, 1.3}}
		inner := orb.Ring{{1.5, 1.25}, {2.5, 1.25}, {2.5, 2.25}, {1.5, 2.25}, {1.5, 1.25}}
		h1 := orb.Ring{{1.55, 1.5}, {1.75, 1.5}, {1.75, 1.75}, {1.55, 1.75}, {1.55, 1.5}}
		h2 := orb.Ring{{2.1, 1.5}, {2.3, 1.5}, {2.3, 1.75}, {2.1, 1.75}, {2.1, 1.5}}
		in := orb.Polygon{wind(inner, o == orb.CCW)}
		var holesIn []orb.Ring
		for _, h := range []orb.Ring{h1, h2} {
			if c.Bool() {
				in = append(in, wind(h, o != orb.CCW))
				holesIn = append(holesIn, h)
			}
		}
		// members and holes far from the box (bounding boxes disjoint from it): they contribute nothing, wherever they
		// stand in the list - in particular first among the polygons, or first among all the holes
		far := orb.Ring{{6, 6}, {7, 6}, {7, 7}, {6, 7}, {6, 6}}
		farHole := orb.Ring{{3.2, 3.2}, {3.6, 3.2}, {3.6, 3.6}, {3.2, 3.6}, {3.2, 3.2}}
		a := orb.Polygon{wind(crossA, o == orb.CCW)}
		if c.Bool() {
			a = append(a, wind(farHole, o != orb.CCW))
		}
		// a hole of the crossing polygon that the box cuts (through its right side only): its section becomes part of
		// the cut polygon's boundary, while the inside polygon and its holes are carried over untouched next to it
		cutHole := orb.Ring{{2.7, 2.35}, {3.3, 2.35}, {3.3, 2.45}, {2.7, 2.45}, {2.7, 2.35}}
		withCut := c.Bool()
		if withCut {
			a = append(a, wind(cutHole, o != orb.CCW))
		}
		members := []orb.Polygon{a, in}
		// a second polygon wholly inside the box, without holes: the holes of the first one stay its own wherever the
		// two stand in the list
		inner2 := orb.Ring{{1.5, 2.3}, {2.0, 2.3}, {2.0, 2.5}, {1.5, 2.5}, {1.5, 2.3}}
		withIn2 := c.Bool()
		if withIn2 {
			members = append(members, orb.Polygon{wind(inner2, o == orb.CCW)})
		}
		two := c.Bool()
		if two {
			members = append(members, orb.Polygon{wind(crossB, o == orb.CCW)})
		}
		if c.Bool() {
			members = append(members, orb.Polygon{wind(far, o == orb.CCW)})
		}
		// every order of the members
		idx := []int{0, 1, 2, 3, 4}[:len(members)]
		var mp orb.MultiPolygon
		for len(idx) > 0 {
			k := c.Choose(len(idx))
			mp = append(mp, members[idx[k]])
			idx = append(idx[:k], idx[k+1:]...)
		}
		got := smartclip.MultiPolygon(gbox, mp.Clone(), o)
		desc := fmt.Sprintf("box=%v orientation=%d multipolygon=%v result=%v", gbox, o, mp, got)
		inOrig := func(q qpt) bool {
			if withCut && inFloat(cutHole, q.f) {
				return false
			}
			if inFloat(crossA, q.f) || (two && inFloat(crossB, q.f)) || (withIn2 && inFloat(inner2, q.f)) {
				return true
			}
			if !inFloat(inner, q.f) {
				return false
			}
			for _, h := range holesIn {
				if inFloat(h, q.f) {
					return false
				}
			}
			return true
		}
		validate(c, func(s string) string { return "multi:" + s }, gbox, got, o, inOrig, desc)
		// the inside polygon must come back with exactly its own holes
		found := false
		for _, gp := range got {
			if len(gp) > 0 && len(gp[0]) == len(inner) && math.Abs(math.Abs(shoelace(gp[0]))-math.Abs(shoelace(inner))) < 1e-12 && inFloat(gp[0], orb.Point{2, 2}) {
				found = true
				if len(gp)-1 != len(holesIn) {
					c.Failf("multi:hole-attachment", "the polygon wholly inside the box has %d holes in the result, want %d | %s", len(gp)-1, len(holesIn), desc)
				}
			} else if len(gp) > 1 {
				c.Failf("multi:hole-attachment", "a polygon cut at the box edge carries %d holes that are not its own | %s", len(gp)-1, desc)
			}
		}
		if !found {
			c.Failf("multi:inside-member-lost", "the polygon wholly inside the box is missing from the result | %s", desc)
		}
		if withIn2 {
			n2 := 0
			for _, gp := range got {
				if len(gp) > 0 && len(gp[0]) == len(inner2) && math.Abs(math.Abs(shoelace(gp[0]))-math.Abs(shoelace(inner2))) < 1e-12 && inFloat(gp[0], orb.Point{1.75, 2.4}) {
					n2++
				}
			}
			if n2 != 1 {
				c.Failf("multi:inside-member-lost", "the second polygon wholly inside the box appears %d times in the result | %s", n2, desc)
			}
		}
		if len(holesIn) > 0 {
			c.NonTrivial()
		}
	})

	// hole placement: an outer ring the box cuts into two lobes, and a hole that stays inside one of them. The
	// hole's vertices share their coordinates with vertices of the other lobe (half-integer grid), which is
	// where a point-in-ring test has its degenerate cases.
	r.Explore("hole-placement", "box [0,10]^2; an outer ring with two lobes hanging through one side (4 rotations) x 25 ways to put an extra pass-through vertex on a lobe edge (edge, level, displacement) x unit hole at 24 half-grid positions in either lobe x both orientations x every start vertex: region on a half-unit lattice, two result polygons, the hole attached to the lobe that contains it", mc.Opts{MaxDev: -1, Split: 3}, func(c *mc.Ctx) {
		rot := c.Choose(4)
		o := orb.CCW
		if c.Bool() {
			o = orb.CW
		}
		tv := c.Choose(25)
		hl := c.Choose(24)
		outer := []orb.Point{{1, 1}, {4, 1}, {4, 11}, {6, 11}, {6, 1}, {9, 1}, {9, 13}, {1, 13}}
		if tv > 0 {
			e, lvl, dx := (tv-1)/6, float64(2+(tv-1)/3%2), []float64{0, 0.25, -0.25}[(tv-1)%3]
			after := []int{7, 1, 3, 5}[e] // LL, LR, RL, RR: insert after this vertex
			x := []float64{1, 4, 6, 9}[e]
			ins := orb.Point{x + dx, lvl}
			outer = append(outer[:after+1], append([]orb.Point{ins}, outer[after+1:]...)...)
		}
		lobe := hl / 12
		hx := []float64{1, 6}[lobe] + []float64{0.5, 1, 1.5}[hl%12/4]
		hy := []float64{1.5, 2, 2.5, 3}[hl%4]
		hole := []orb.Point{{hx, hy}, {hx, hy + 1}, {hx + 1, hy + 1}, {hx + 1, hy}}
		turn := func(ps []orb.Point) orb.Ring {
			out := make(orb.Ring, len(ps))
			for i, p := range ps {
				for k := 0; k < rot; k++ {
					p = orb.Point{10 - p[1], p[0]}
				}
				out[i] = p
			}
			return out
		}
		or, hr := turn(outer), turn(hole)
		st := c.Choose(9) % len(or)
		or = append(append(orb.Ring{}, or[st:]...), or[:st]...)
		or = append(or, or[0])
		hr = append(hr, hr[0])
		if o == orb.CW {
			or.Reverse()
			hr.Reverse()
		}
		box := orb.Bound{Min: orb.Point{0, 0}, Max: orb.Point{10, 10}}
		poly := orb.Polygon{or, hr}
		c.NonTrivial()
		for variant := 0; variant < 2; variant++ {
			var got orb.MultiPolygon
			if variant == 0 {
				got = smartclip.Polygon(box, poly.Clone(), o)
			} else {
				got = smartclip.MultiPolygon(box, orb.MultiPolygon{poly.Clone()}, o)
			}
			desc := fmt.Sprintf("via=%s box=%v orientation=%d polygon=%v result=%v", []string{"Polygon", "MultiPolygon"}[variant], box, o, poly, got)
			if len(got) != 2 {
				c.Failf("hole-placement:polygons", "the box cuts the outer ring into two lobes, the result has %d polygons | %s", len(got), desc)
				return
			}
			for _, gp := range got {
				if len(gp) == 0 || len(gp[0]) < 4 || gp[0][0] != gp[0][len(gp[0])-1] {
					c.Failf("hole-placement:ring-shape", "result polygon without a closed outer ring | %s", desc)
					return
				}
				if sh := shoelace(gp[0]); (sh > 0) != (o == orb.CCW) {
					c.Failf("hole-placement:winding", "outer ring %v winds against the requested orientation | %s", gp[0], desc)
					return
				}
			}
			for i := 0; i < 20; i++ {
				for j := 0; j < 20; j++ {
					q := orb.Point{float64(i)/2 + 1.0/7, float64(j)/2 + 1.0/11}
					want := inFloat(or, q) && !inFloat(hr, q)
					if have := inMulti(got, q); have != want {
						c.Failf("hole-placement:region", "point %v: in the smart-clipped result = %v, in the original region = %v | %s", q, have, want, desc)
						return
					}
				}
			}
			centre := orb.Point{(hr[0][0] + hr[2][0]) / 2, (hr[0][1] + hr[2][1]) / 2}
			for _, gp := range got {
				contains := inFloat(gp[0], centre)
				if contains && len(gp) != 2 || !contains && len(gp) != 1 {
					c.Failf("hole-placement:attachment", "the lobe %v contains the hole: %v, and carries %d inner rings | %s", gp[0], contains, len(gp)-1, desc)
					return
				}
			}
		}
	})

	// concave pieces and concave holes: the piece that owns a hole is not convex (a notch reaches into it), and the
	// hole wraps around the tip of the notch - the centre of the hole's bounding box, its centroid and the mean of
	// its vertices may all lie outside the piece, only its own points are inside
	r.Explore("concave-pieces", "box [0,10]^2; an outer ring cut into a notched main piece and a lobe (4 rotations, mirrored or not) x every non-empty subset of 4 holes (chevron and C around the notch tip, L in one arm, a square) x hole start vertex x both orientations, through Polygon / MultiPolygon / Geometry: two result polygons, region on a half-unit lattice, every hole attached to the main piece", mc.Opts{MaxDev: -1, Split: 2}, func(c *mc.Ctx) {
		rot := c.Choose(4)
		mirror := c.Bool()
		o := orb.CCW
		if c.Bool() {
			o = orb.CW
		}
		mask := 1 + c.Choose(15)
		shift := c.Choose(4)
		outer := []orb.Point{{-2, 1}, {9, 1}, {9, 4}, {3.5, 5}, {9, 6}, {9, 9}, {-1, 9}, {-1, 10.5}, {9.5, 10.5}, {9.5, 2}, {12, 2}, {12, 12}, {-2, 12}}
		menu := [][]orb.Point{
			{{2, 5}, {6, 2.5}, {6, 3}, {3, 5}, {6, 7}, {6, 7.5}},                         // chevron "<" around the notch tip
			{{1, 1.5}, {8, 1.5}, {8, 2}, {1.5, 2}, {1.5, 8}, {8, 8}, {8, 8.5}, {1, 8.5}}, // C open to the right, around the whole notch
			{{0.25, 6}, {0.75, 6}, {0.75, 8.6}, {8.5, 8.6}, {8.5, 8.9}, {0.25, 8.9}},     // L along the left and the top side
			{{0.25, 2}, {0.75, 2}, {0.75, 3}, {0.25, 3}},                                 // a square
		}
		turn := func(ps []orb.Point, st int) orb.Ring {
			out := make(orb.Ring, 0, len(ps)+1)
			for i := range ps {
				p := ps[(i+st)%len(ps)]
				if mirror {
					p = orb.Point{p[0], 10 - p[1]}
				}
				for k := 0; k < rot; k++ {
					p = orb.Point{10 - p[1], p[0]}
				}
				out = append(out, p)
			}
			out = append(out, out[0])
			if (shoelace(out) > 0) != (o == orb.CCW) {
				out.Reverse()
			}
			return out
		}
		or := turn(outer, 0)
		poly := orb.Polygon{or}
		var holes []orb.Ring
		for i, h := range menu {
			if mask&(1<<i) != 0 {
				hr := turn(h, shift)
				hr.Reverse() // holes wind against the outer ring
				holes = append(holes, hr)
				poly = append(poly, hr)
			}
		}
		box := orb.Bound{Min: orb.Point{0, 0}, Max: orb.Point{10, 10}}
		probe := turn([]orb.Point{{0.1, 1.2}}, 0)[0] // a point of the main piece that no hole covers
		c.NonTrivial()
		for variant := 0; variant < 3; variant++ {
			var got orb.MultiPolygon
			switch variant {
			case 0:
				got = smartclip.Polygon(box, poly.Clone(), o)
			case 1:
				got = smartclip.MultiPolygon(box, orb.MultiPolygon{poly.Clone()}, o)
			default:
				g := smartclip.Geometry(box, poly.Clone(), o)
				mp, ok := g.(orb.MultiPolygon)
				if !ok {
					c.Failf("concave:generic", "smartclip.Geometry returns %T %v for a polygon cut into two pieces", g, g)
					return
				}
				got = mp
			}
			desc := fmt.Sprintf("via=%s box=%v orientation=%d polygon=%v result=%v", []string{"Polygon", "MultiPolygon", "Geometry"}[variant], box, o, poly, got)
			if len(got) != 2 {
				c.Failf("concave:polygons", "the box cuts the outer ring into two pieces, the result has %d polygons | %s", len(got), desc)
				return
			}
			for _, gp := range got {
				for _, gr := range gp {
					if len(gr) < 4 || gr[0] != gr[len(gr)-1] {
						c.Failf("concave:ring-shape", "result ring %v is not closed | %s", gr, desc)
						return
					}
				}
				if sh := shoelace(gp[0]); (sh > 0) != (o == orb.CCW) {
					c.Failf("concave:winding", "outer ring %v winds against the requested orientation | %s", gp[0], desc)
					return
				}
			}
			for i := 0; i < 20; i++ {
				for j := 0; j < 20; j++ {
					q := orb.Point{float64(i)/2 + 1.0/7, float64(j)/2 + 1.0/11}
					want := inFloat(or, q)
					for _, h := range holes {
						want = want && !inFloat(h, q)
					}
					if have := inMulti(got, q); have != want {
						c.Failf("concave:region", "point %v: in the smart-clipped result = %v, in the original region = %v | %s", q, have, want, desc)
						return
					}
				}
			}
			for _, gp := range got {
				main := inFloat(gp[0], probe)
				if main && len(gp)-1 != len(holes) || !main && len(gp) != 1 {
					c.Failf("concave:attachment", "the piece %v (main piece: %v) carries %d inner rings, the polygon has %d holes, all inside the main piece | %s", gp[0], main, len(gp)-1, len(holes), desc)
					return
				}
			}
		}
	})

	// pieces inside each other's bounding box: a "C" that leaves the box on one side falls apart into an L-shaped piece
	// and a small rectangle in the notch of the L - the rectangle lies inside the L's bounding box but not inside the L.
	// A hole belongs to the piece that contains it, not to the first piece whose box covers it
	r.Explore("pieces-in-each-others-box", "box [0,10]^2; a C-shaped outer ring cut into an L and a rectangle in the notch of the L (4 rotations, mirrored or not) x every non-empty subset of 3 holes (in the rectangle, in either arm of the L) x hole start vertex x both orientations, through Polygon / MultiPolygon / Geometry: two result polygons, region on a half-unit lattice, every hole a ring of the piece that contains it", mc.Opts{MaxDev: -1, Split: 2}, func(c *mc.Ctx) {
		rot := c.Choose(4)
		mirror := c.Bool()
		o := orb.CCW
		if c.Bool() {
			o = orb.CW
		}
		mask := 1 + c.Choose(7)
		shift := c.Choose(4)
		outer := []orb.Point{{-3, 1}, {9, 1}, {9, 9}, {6, 9}, {6, 4}, {-1, 4}, {-1, 5}, {4, 5}, {4, 8}, {-3, 8}}
		menu := [][]orb.Point{
			{{1, 6}, {1, 7}, {3, 7}, {3, 6}},     // in the rectangle
			{{7, 5}, {8, 5}, {8, 8}, {7, 8}},     // in the upright arm of the L
			{{2, 2}, {5, 2}, {5, 3.5}, {2, 3.5}}, // in the lying arm of the L
		}
		turn := func(ps []orb.Point, st int) orb.Ring {
			out := make(orb.Ring, 0, len(ps)+1)
			for i := range ps {
				p := ps[(i+st)%len(ps)]
				if mirror {
					p = orb.Point{p[0], 10 - p[1]}
				}
				for k := 0; k < rot; k++ {
					p = orb.Point{10 - p[1], p[0]}
				}
				out = append(out, p)
			}
			out = append(out, out[0])
			if (shoelace(out) > 0) != (o == orb.CCW) {
				out.Reverse()
			}
			return out
		}
		or := turn(outer, 0)
		poly := orb.Polygon{or}
		var holes []orb.Ring
		for i, h := range menu {
			if mask&(1<<i) != 0 {
				hr := turn(h, shift)
				hr.Reverse()
				holes = append(holes, hr)
				poly = append(poly, hr)
			}
		}
		box := orb.Bound{Min: orb.Point{0, 0}, Max: orb.Point{10, 10}}
		c.NonTrivial()
		for variant := 0; variant < 3; variant++ {
			var got orb.MultiPolygon
			switch variant {
			case 0:
				got = smartclip.Polygon(box, poly.Clone(), o)
			case 1:
				got = smartclip.MultiPolygon(box, orb.MultiPolygon{poly.Clone()}, o)
			default:
				mp, ok := smartclip.Geometry(box, poly.Clone(), o).(orb.MultiPolygon)
				if !ok {
					c.Failf("pieces:generic", "smartclip.Geometry does not return a multi-polygon for a polygon cut into two pieces")
					return
				}
				got = mp
			}
			desc := fmt.Sprintf("via=%s box=%v orientation=%d polygon=%v result=%v", []string{"Polygon", "MultiPolygon", "Geometry"}[variant], box, o, poly, got)
			if len(got) != 2 {
				c.Failf("pieces:polygons", "the box cuts the outer ring into two pieces, the result has %d polygons | %s", len(got), desc)
				return
			}
			for _, gp := range got {
				for _, gr := range gp {
					if len(gr) < 4 || gr[0] != gr[len(gr)-1] {
						c.Failf("pieces:ring-shape", "result ring %v is not closed | %s", gr, desc)
						return
					}
				}
				if sh := shoelace(gp[0]); (sh > 0) != (o == orb.CCW) {
					c.Failf("pieces:winding", "outer ring %v winds against the requested orientation | %s", gp[0], desc)
					return
				}
			}
			for i := 0; i < 20; i++ {
				for j := 0; j < 20; j++ {
					q := orb.Point{float64(i)/2 + 1.0/7, float64(j)/2 + 1.0/11}
					want := inFloat(or, q)
					for _, h := range holes {
						want = want && !inFloat(h, q)
					}
					if have := inMulti(got, q); have != want {
						c.Failf("pieces:region", "point %v: in the smart-clipped result = %v, in the original region = %v | %s", q, have, want, desc)
						return
					}
				}
			}
			for _, h := range holes {
				inside := orb.Point{(h[0][0] + h[2][0]) / 2, (h[0][1] + h[2][1]) / 2}
				for _, gp := range got {
					owner := inFloat(gp[0], inside)
					carries := false
					for _, gr := range gp[1:] {
						if math.Abs(math.Abs(shoelace(gr))-math.Abs(shoelace(h))) < 1e-12 && inFloat(gr, inside) {
							carries = true
						}
					}
					if owner != carries {
						c.Failf("pieces:attachment", "the piece %v contains the hole %v: %v, carries it: %v | %s", gp[0], h, owner, carries, desc)
						return
					}
				}
			}
		}
	})

	// open input: contiguous sub-paths cut at the box
	r.Explore("open-subpaths", "every simple ring of 3..4 grid vertices x every contiguous sub-path that starts and ends outside the closed general-position box and contains all of the ring's contact with it, fed as an open ring with its winding: the result encloses region x box", mc.Opts{MaxDev: -1, Split: 2}, func(c *mc.Ctx) {
		n := 3 + c.Choose(2)
		ring := make(orb.Ring, n)
		ir := make([]ip, n)
		for i := 0; i < n; i++ {
			ring[i], ir[i] = gpt(c.Choose(G * G))
		}
		if !simple(ir) {
			c.Skip()
			return
		}
		s, L := c.Choose(n), 2+c.Choose(n-1)
		if L > n {
			c.Skip()
			return
		}
		path := make(orb.Ring, 0, L)
		for i := 0; i < L; i++ {
			path = append(path, ring[(s+i)%n])
		}
		if gbox.Contains(path[0]) || gbox.Contains(path[L-1]) || path[0] == path[L-1] {
			c.Skip()
			return
		}
		touch := func(a, b orb.Point) bool {
			return len(clip.LineString(gbox, orb.LineString{a, b})) > 0
		}
		inPath := false
		for i := 0; i+1 < L; i++ {
			if touch(path[i], path[i+1]) {
				inPath = true
			}
		}
		for i := L - 1; i < n; i++ { // omitted edges of the ring must not touch the box
			if touch(ring[(s+i)%n], ring[(s+i+1)%n]) {
				c.Skip()
				return
			}
		}
		if !inPath {
			c.Skip()
			return
		}
		o := orb.CCW
		if exact.Area2I(ir) < 0 {
			o = orb.CW
		}
		ex := make([]ip, n)
		for i := range ir {
			ex[i] = ip{ir[i][0] * S, ir[i][1] * S}
		}
		got := smartclip.Ring(gbox, path.Clone(), o)
		desc := fmt.Sprintf("box=%v orientation=%d open path=%v (of ring %v) result=%v", gbox, o, path, ring, got)
		validate(c, func(s string) string { return "open:" + s }, gbox, got, o, func(q qpt) bool { in, _ := exact.InRingI(ex, q.e); return in }, desc)
		c.NonTrivial()
	})
	r.Sample(map[string]interface{}{"box": "[1,3]^2", "ring": "[[0,0],[4,2],[0,4],[0,0]] CW", "expected": "one polygon, closed along the left box edge, wound clockwise, same region as clip.Ring"})
	r.Finish()
}

func dedupe(s []string) []string {
	sort.Strings(s)
	var o []string
	for i, x := range s {
		if i == 0 || x != s[i-1] {
			o = append(o, x)
		}
	}
	return o
}
