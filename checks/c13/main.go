// C13: map tile arithmetic is a consistent quadtree of the mercator square.
package main

import (
	"fmt"
	"math"

	"github.com/paulmach/orb"
	"github.com/paulmach/orb/maptile"

	"verif/lib/ev"
	"verif/lib/mc"
)

func patterns(z uint32) []uint32 {
	max := uint32(1)<<z - 1
	cand := []uint32{0, 1, max, 1 << (z - 1), 1<<(z-1) - 1, 0x55555555 & max, 0xAAAAAAAA & max, 0x00FF00FF & max, max - 1}
	var out []uint32
	seen := map[uint32]bool{}
	for _, c := range cand {
		if !seen[c] {
			seen[c] = true
			out = append(out, c)
		}
	}
	return out
}

func ancestor(t maptile.Tile, z maptile.Zoom) maptile.Tile {
	for t.Z > z {
		t = maptile.Tile{X: t.X / 2, Y: t.Y / 2, Z: t.Z - 1}
	}
	return t
}

func checkTile(c *mc.Ctx, t maptile.Tile, bounds bool) {
	z := uint32(t.Z)
	if !t.Valid() {
		c.Failf("valid", "%v reported invalid", t)
	}
	if k := t.Quadkey(); maptile.FromQuadkey(k, t.Z) != t {
		c.Failf("quadkey", "%v -> quadkey %d -> %v", t, k, maptile.FromQuadkey(k, t.Z))
	}
	// quadkey is the bit interleave: independent computation
	var want uint64
	for i := uint32(0); i < z; i++ {
		want |= uint64((t.X>>i)&1) << (2 * i)
		want |= uint64((t.Y>>i)&1) << (2*i + 1)
	}
	if t.Quadkey() != want {
		c.Failf("quadkey", "%v quadkey = %d want %d", t, t.Quadkey(), want)
	}
	if t.Z > 0 {
		p := t.Parent()
		if p != (maptile.Tile{X: t.X / 2, Y: t.Y / 2, Z: t.Z - 1}) || !p.Contains(t) || t.Contains(p) {
			c.Failf("parent", "%v parent %v", t, p)
		}
		sib := t.Siblings()
		found := false
		for _, s := range sib {
			if s == t {
				found = true
			}
			if s.Parent() != p {
				c.Failf("siblings", "%v sibling %v has another parent", t, s)
			}
		}
		if !found || len(sib) != 4 {
			c.Failf("siblings", "%v siblings %v", t, sib)
		}
	} else {
		if t.Parent() != t {
			c.Failf("parent", "parent of the root is %v", t.Parent())
		}
		// the root: "the 4 tiles that share this tile's parent" are four distinct valid tiles whose parent is the root
		seen := map[maptile.Tile]bool{}
		for _, s := range t.Siblings() {
			if !s.Valid() || s.Parent() != t.Parent() || seen[s] {
				c.Failf("siblings", "sibling %v of the root (valid=%v, parent %v)", s, s.Valid(), s.Parent())
			}
			seen[s] = true
		}
		if len(seen) != 4 {
			c.Failf("siblings", "the root has %d distinct siblings: %v", len(seen), t.Siblings())
		}
	}
	if z <= 30 {
		ch := t.Children()
		seen := map[maptile.Tile]bool{}
		for _, k := range ch {
			if !k.Valid() || k.Parent() != t || k.Z != t.Z+1 || seen[k] || !t.Contains(k) {
				c.Failf("children", "%v child %v (valid=%v parent=%v)", t, k, k.Valid(), k.Parent())
			}
			seen[k] = true
		}
		if len(ch) != 4 {
			c.Failf("children", "%v has %d children", t, len(ch))
		}
		if bounds && len(ch) == 4 {
			b := t.Bound()
			var u orb.Bound
			for i, k := range ch {
				kb := k.Bound()
				if i == 0 {
					u = kb
				} else {
					u = u.Union(kb)
				}
				// each child shares exactly two edges with the parent and two with its siblings
				lx, by := (k.X&1) == 0, (k.Y&1) == 1
				if (lx && kb.Min[0] != b.Min[0]) || (!lx && kb.Max[0] != b.Max[0]) || (by && kb.Min[1] != b.Min[1]) || (!by && kb.Max[1] != b.Max[1]) {
					c.Failf("children-bounds", "%v child %v bound %v does not share the parent's edges %v", t, k, kb, b)
				}
			}
			if u != b {
				c.Failf("children-bounds", "%v: union of the children's bounds %v != %v", t, u, b)
			}
			mx, my := ch[0].Bound().Max[0], ch[0].Bound().Min[1]
			for _, k := range ch {
				kb := k.Bound()
				if (kb.Min[0] != mx && kb.Max[0] != mx) || (kb.Min[1] != my && kb.Max[1] != my) {
					c.Failf("children-bounds", "%v children do not meet exactly at the centre lines: %v", t, kb)
				}
			}
		}
	}
	if bounds {
		b := t.Bound()
		max := uint32(1)<<z - 1
		if t.X < max {
			if n := (maptile.Tile{X: t.X + 1, Y: t.Y, Z: t.Z}).Bound(); n.Min[0] != b.Max[0] || n.Min[1] != b.Min[1] || n.Max[1] != b.Max[1] {
				c.Failf("neighbours", "%v and its east neighbour do not share edge coordinates exactly: %v %v", t, b, n)
			}
		}
		if t.Y < max {
			if n := (maptile.Tile{X: t.X, Y: t.Y + 1, Z: t.Z}).Bound(); n.Max[1] != b.Min[1] || n.Min[0] != b.Min[0] || n.Max[0] != b.Max[0] {
				c.Failf("neighbours", "%v and its south neighbour do not share edge coordinates exactly: %v %v", t, b, n)
			}
		}
		if !(b.Min[0] < b.Max[0] && b.Min[1] < b.Max[1]) || b.Min[0] < -180 || b.Max[0] > 180 || b.Min[1] < -85.06 || b.Max[1] > 85.06 {
			c.Failf("bound", "%v bound %v", t, b)
		}
		// absolute anchor: the edges by the check's own closed forms of the web-mercator tiling
		n := math.Ldexp(1, int(z))
		lat := func(y float64) float64 { return math.Atan(math.Sinh(math.Pi*(1-2*y/n))) * 180 / math.Pi }
		wx0, wx1 := float64(t.X)/n*360-180, float64(t.X+1)/n*360-180
		wy0, wy1 := lat(float64(t.Y+1)), lat(float64(t.Y))
		if math.Abs(b.Min[0]-wx0) > 1e-9 || math.Abs(b.Max[0]-wx1) > 1e-9 || math.Abs(b.Min[1]-wy0) > 1e-9 || math.Abs(b.Max[1]-wy1) > 1e-9 {
			c.Failf("bound-anchor", "%v bound %v, closed form [%v %v] [%v %v]", t, b, wx0, wy0, wx1, wy1)
		}
		if at := maptile.At(t.Center(), t.Z); at != t {
			cl := "centre"
			if ctr := t.Center(); math.Abs(ctr[1]) > 85.0511 && at.X == t.X && (at.Y == 0 || at.Y == 1<<z-1) {
				// the tile lies (partly) beyond the latitude at which At/Fraction clamp
				cl = "centre:beyond-clamp-latitude:snapped-to-edge-row"
			}
			c.Failf(cl, "centre %v of %v maps to %v", t.Center(), t, at)
		}
	}
}

func checkPair(c *mc.Ctx, a, b maptile.Tile) {
	// containment == ancestor relation
	want := a.Z <= b.Z && ancestor(b, a.Z) == a
	if a.Contains(b) != want {
		c.Failf("contains", "%v.Contains(%v) = %v, ancestor relation says %v", a, b, a.Contains(b), want)
	}
	// shared parent == deepest common ancestor
	x, y := a, b
	if x.Z > y.Z {
		x = ancestor(x, y.Z)
	} else {
		y = ancestor(y, x.Z)
	}
	for x != y {
		x, y = ancestor(x, x.Z-1), ancestor(y, y.Z-1)
	}
	if sp := a.SharedParent(b); sp != x {
		c.Failf("shared-parent", "%v.SharedParent(%v) = %v, deepest common ancestor is %v", a, b, sp, x)
	}
}

func checkRange(c *mc.Ctx, t maptile.Tile, z maptile.Zoom) {
	lo, hi := t.Range(z)
	if z <= t.Z {
		if anc := ancestor(t, z); lo != anc || hi != anc {
			c.Failf("range", "%v.Range(%d) = %v,%v want the ancestor %v", t, z, lo, hi, anc)
		}
		return
	}
	d := uint32(z - t.Z)
	wl := maptile.Tile{X: t.X << d, Y: t.Y << d, Z: z}
	wh := maptile.Tile{X: (t.X+1)<<d - 1, Y: (t.Y+1)<<d - 1, Z: z}
	if lo != wl || hi != wh || !lo.Valid() || !hi.Valid() {
		c.Failf("range", "%v.Range(%d) = %v,%v want %v,%v", t, z, lo, hi, wl, wh)
		return
	}
	if d <= 5 {
		// exactly the descendants: brute force over a margin around the range
		for xx := int64(lo.X) - 1; xx <= int64(hi.X)+1; xx++ {
			for yy := int64(lo.Y) - 1; yy <= int64(hi.Y)+1; yy++ {
				if xx < 0 || yy < 0 || xx >= 1<<z || yy >= 1<<z {
					continue
				}
				k := maptile.Tile{X: uint32(xx), Y: uint32(yy), Z: z}
				in := uint32(xx) >= lo.X && uint32(xx) <= hi.X && uint32(yy) >= lo.Y && uint32(yy) <= hi.Y
				if in != (ancestor(k, t.Z) == t) || in != t.Contains(k) {
					c.Failf("range", "%v.Range(%d): %v in range = %v but descendant = %v", t, z, k, in, ancestor(k, t.Z) == t)
					return
				}
			}
		}
		if d <= 3 {
			kids := maptile.ChildrenInZoomRange(t, t.Z, z)
			n := 0
			for dd := uint32(0); dd <= d; dd++ {
				n += 1 << (2 * dd)
			}
			seen := map[maptile.Tile]bool{}
			for _, k := range kids {
				if seen[k] || ancestor(k, t.Z) != t || k.Z > z || !k.Valid() {
					c.Failf("children-in-zoom-range", "%v zoom %d..%d lists %v", t, t.Z, z, k)
					return
				}
				seen[k] = true
			}
			if len(kids) != n {
				c.Failf("children-in-zoom-range", "%v zoom %d..%d lists %d tiles want %d", t, t.Z, z, len(kids), n)
			}
		}
	}
}

func checkPoint(c *mc.Ctx, p orb.Point, z maptile.Zoom) {
	t := maptile.At(p, z)
	if !t.Valid() {
		cl := "at-invalid"
		if p[0] == 180 {
			cl = "at-invalid:lon180"
		}
		c.Failf(cl, "At(%v, %d) = %v is not a valid tile", p, z, t)
		return
	}
	b := t.Bound()
	const pad = 1e-9
	if p[0] < b.Min[0]-pad || p[0] > b.Max[0]+pad {
		c.Failf("at-bound", "At(%v, %d) = %v whose bound %v does not contain the longitude", p, z, t, b)
	}
	switch {
	case p[1] > 85.0511:
		if t.Y != 0 {
			c.Failf("at-clamp", "At(%v, %d) = %v: latitude beyond the range must clamp to the top row", p, z, t)
		}
	case p[1] < -85.0511:
		if t.Y != 1<<z-1 {
			c.Failf("at-clamp", "At(%v, %d) = %v: latitude beyond the range must clamp to the bottom row", p, z, t)
		}
	default:
		if p[1] < b.Min[1]-pad || p[1] > b.Max[1]+pad {
			c.Failf("at-bound", "At(%v, %d) = %v whose bound %v does not contain the latitude", p, z, t, b)
		}
	}
	// absolute anchor: the check's own projection, away from tile edges
	n := math.Ldexp(1, int(z))
	fx := (p[0] + 180) / 360 * n
	if p[0] >= -180 && p[0] < 180 && math.Abs(fx-math.Round(fx)) > 1e-6 && float64(t.X) != math.Floor(fx) {
		c.Failf("at-anchor", "At(%v, %d) = %v, own projection says column %v", p, z, t, math.Floor(fx))
	}
	if math.Abs(p[1]) < 85.05 {
		rad := p[1] * math.Pi / 180
		fy := (1 - math.Log(math.Tan(rad)+1/math.Cos(rad))/math.Pi) / 2 * n
		if math.Abs(fy-math.Round(fy)) > 1e-6 && float64(t.Y) != math.Floor(fy) {
			c.Failf("at-anchor", "At(%v, %d) = %v, own projection says row %v", p, z, t, math.Floor(fy))
		}
	}
}

func main() {
	r := ev.New("C13", "exploration")
	r.Rule = "every tile up to the stated zoom (one execution per tile), every ordered pair of tiles up to the stated zoom, bit-pattern tiles {0,1,2^z-1,2^(z-1),2^(z-1)-1,0101..,1010..,00FF..,2^z-2}^2 at zooms 11..30, every (tile, target zoom) for Range; points: corners, edge midpoints and centre of every tile to zoom 6 plus the antimeridian / pole menu, each looked up at every zoom 0..30; non-trivial = tile below the root / pair in an ancestor relation or sharing a proper ancestor below the root / point strictly inside the mercator range"
	r.Assume = []string{
		"the bound of the tile found for a point is allowed 1e-9 degrees of slack (coordinate rounding); edge sharing between neighbours, siblings and parents is required bit-for-bit",
		"zooms above 30 are not exercised (1<<z in uint32)",
	}
	zt := ev.Pick(r, 10, 11)
	r.Explore("tiles", fmt.Sprintf("every tile of zoom 0..%d: quadkey, parent, siblings, children (distinct, valid, bounds tile the parent exactly), neighbours share edges exactly, centre maps back", zt), mc.Opts{MaxDev: -1, Split: 2}, func(c *mc.Ctx) {
		z := uint32(c.Choose(zt + 1))
		t := maptile.Tile{X: uint32(c.Choose(1 << z)), Y: uint32(c.Choose(1 << z)), Z: maptile.Zoom(z)}
		checkTile(c, t, true)
		if z > 0 {
			c.NonTrivial()
		}
	})
	zp := ev.Pick(r, 5, 6)
	var small []maptile.Tile
	for z := 0; z <= zp; z++ {
		for x := 0; x < 1<<z; x++ {
			for y := 0; y < 1<<z; y++ {
				small = append(small, maptile.Tile{X: uint32(x), Y: uint32(y), Z: maptile.Zoom(z)})
			}
		}
	}
	r.Explore("pairs", fmt.Sprintf("every ordered pair of the %d tiles of zoom 0..%d: Contains == ancestor, SharedParent == deepest common ancestor", len(small), zp), mc.Opts{MaxDev: -1, Split: 1}, func(c *mc.Ctx) {
		a := small[c.Choose(len(small))]
		nt := false
		for _, b := range small {
			checkPair(c, a, b)
			if a != b && a.SharedParent(b).Z > 0 {
				nt = true
			}
		}
		if nt {
			c.NonTrivial()
		}
	})
	r.Explore("range", fmt.Sprintf("every tile of zoom 0..%d x every target zoom 0..%d: Range is the ancestor / exactly the descendants, ChildrenInZoomRange lists each descendant once", zp, zp+5), mc.Opts{MaxDev: -1, Split: 1}, func(c *mc.Ctx) {
		t := small[c.Choose(len(small))]
		z := maptile.Zoom(c.Choose(zp + 6))
		checkRange(c, t, z)
		if z != t.Z {
			c.NonTrivial()
		}
	})
	r.Explore("high-zoom", "zooms 11..30 x bit-pattern x and y: tile laws, Contains/SharedParent against every ancestor and against the other pattern tiles, Range to every zoom", mc.Opts{MaxDev: -1, Split: 2}, func(c *mc.Ctx) {
		z := uint32(11 + c.Choose(20))
		ps := patterns(z)
		t := maptile.Tile{X: ps[c.Choose(len(ps))], Y: ps[c.Choose(len(ps))], Z: maptile.Zoom(z)}
		checkTile(c, t, true)
		for az := maptile.Zoom(0); az <= t.Z; az++ {
			a := ancestor(t, az)
			checkPair(c, a, t)
			checkPair(c, t, a)
			checkRange(c, a, t.Z)
			checkRange(c, t, az)
		}
		for _, x := range ps {
			for _, y := range ps {
				checkPair(c, t, maptile.Tile{X: x, Y: y, Z: t.Z})
				checkPair(c, t, ancestor(maptile.Tile{X: x, Y: y, Z: t.Z}, t.Z/2))
			}
		}
		if z < 30 {
			checkRange(c, t, t.Z+1)
		}
		c.NonTrivial()
	})
	// points
	var pts []orb.Point
	for z := 0; z <= 6; z++ {
		for x := 0; x < 1<<z; x++ {
			for y := 0; y < 1<<z; y++ {
				b := maptile.Tile{X: uint32(x), Y: uint32(y), Z: maptile.Zoom(z)}.Bound()
				cx, cy := (b.Min[0]+b.Max[0])/2, (b.Min[1]+b.Max[1])/2
				pts = append(pts, b.Min, b.Max, orb.Point{b.Min[0], b.Max[1]}, orb.Point{b.Max[0], b.Min[1]},
					orb.Point{cx, b.Min[1]}, orb.Point{cx, b.Max[1]}, orb.Point{b.Min[0], cy}, orb.Point{b.Max[0], cy}, orb.Point{cx, cy})
			}
		}
	}
	for _, lon := range []float64{-180, 180, -179.99999999, 179.99999999, 0, 12.5} {
		for _, lat := range []float64{85.0511, -85.0511, 85.06, -85.06, 90, -90, 85.05112877980659, -85.05112877980659, 0, 45.3,
			// "any latitude": far beyond the poles, where periodic functions of the latitude come back into range
			94, -94, 96, -96, 100, -120, 180, -180, 270, -270, 1000, math.MaxFloat64, -math.MaxFloat64} {
			pts = append(pts, orb.Point{lon, lat})
		}
	}
	// just off the tile edges: 2e-10, 5e-8 and 1e-5 degrees to either side of every tile corner up to zoom 3 (at zoom
	// 30 a tile is 3.4e-7 degrees wide: these are points well inside a deep tile, next to its edge)
	for z := 0; z <= 3; z++ {
		for x := 0; x <= 1<<z; x++ {
			for y := 1; y < 1<<z; y++ {
				n := float64(uint32(1) << z)
				lon := float64(x)/n*360 - 180
				lat := math.Atan(math.Sinh(math.Pi*(1-2*float64(y)/n))) * 180 / math.Pi
				for _, d := range []float64{2e-10, 5e-8, 1e-5} {
					for _, sx := range []float64{-1, 1} {
						for _, sy := range []float64{-1, 1} {
							if l := lon + sx*d; l > -180 && l < 180 {
								pts = append(pts, orb.Point{l, lat + sy*d})
							}
						}
					}
				}
			}
		}
	}
	r.Count("points", int64(len(pts)))
	r.Explore("points", fmt.Sprintf("%d points (tile corners, edge midpoints, centres to zoom 6; points 2e-10 .. 1e-5 degrees off the tile corners to zoom 3; antimeridian, range ends, poles) x every zoom 0..30: At is valid and its bound contains the point", len(pts)), mc.Opts{MaxDev: -1, Split: 1}, func(c *mc.Ctx) {
		p := pts[c.Choose(len(pts))]
		for z := maptile.Zoom(0); z <= 30; z++ {
			checkPoint(c, p, z)
		}
		if math.Abs(p[1]) < 85.0511 && math.Abs(p[0]) < 180 {
			c.NonTrivial()
		}
	})
	r.Sample(map[string]interface{}{"tile": "{X:5 Y:3 Z:3}", "checked": "quadkey 0b011111 round-trip, 4 children tile its bound exactly, east/south neighbours share edges bit-for-bit"})
	r.Sample(map[string]interface{}{"point": "[180, 0]", "zooms": "0..30", "checked": "At returns a valid tile whose bound contains the point"})
	r.Finish()
}
