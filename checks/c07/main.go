// C07: line clipping returns exactly the part of the line inside the box.
// Exhaustive enumeration (engine E1) of every lattice path against an exact
// Liang-Barsky reference (engine E5).
package main

import (
	"fmt"
	"math"

	"github.com/paulmach/orb"
	"github.com/paulmach/orb/clip"

	"verif/lib/ev"
	"verif/lib/exact"
	"verif/lib/mc"
	"verif/lib/refgeom"
)

const tol = 1e-9

type seg struct {
	a, b         exact.P
	af, bf       [2]float64
	startsInside bool // a is strictly inside the box
}

func ex(p orb.Point) exact.P { return exact.PtF(p[0], p[1]) }

// portion is the exact clip of one lattice segment, memoised per box.
type portion struct {
	ok, midStrict bool
	s             seg
}

type boxTable struct {
	bx  exact.Box
	tab []portion // index a*49+b
}

var tables = map[orb.Bound]*boxTable{}

func tableFor(box orb.Bound) *boxTable {
	bx := exact.Box{MinX: exact.FromFloat(box.Min[0]), MinY: exact.FromFloat(box.Min[1]), MaxX: exact.FromFloat(box.Max[0]), MaxY: exact.FromFloat(box.Max[1])}
	t := &boxTable{bx: bx, tab: make([]portion, 49*49)}
	for ai := 0; ai < 49; ai++ {
		for bi := 0; bi < 49; bi++ {
			a, b := exact.P{X: exact.I(int64(ai % 7)), Y: exact.I(int64(ai / 7))}, exact.P{X: exact.I(int64(bi % 7)), Y: exact.I(int64(bi / 7))}
			t0, t1, ok := exact.ClipSegment(bx, a, b)
			if !ok || !t0.Less(t1) || a.Eq(b) {
				continue
			}
			p, q := exact.Lerp(a, b, t0), exact.Lerp(a, b, t1)
			mid := exact.Lerp(p, q, exact.New(1, 2))
			t.tab[ai*49+bi] = portion{ok: true, midStrict: bx.StrictlyInside(mid),
				s: seg{a: p, b: q, af: [2]float64{p.X.Float(), p.Y.Float()}, bf: [2]float64{q.X.Float(), q.Y.Float()}, startsInside: bx.StrictlyInside(p)}}
		}
	}
	return t
}

// reference: the non-degenerate clipped portion of every input segment, in order.
func reference(t *boxTable, in orb.LineString, open bool) []seg {
	var out []seg
	for i := 1; i < len(in); i++ {
		ai, bi := int(in[i-1][0])+7*int(in[i-1][1]), int(in[i][0])+7*int(in[i][1])
		p := &t.tab[ai*49+bi]
		if !p.ok || (open && !p.midStrict) { // open: runs along an edge vanish
			continue
		}
		out = append(out, p.s)
	}
	return out
}

func near(p orb.Point, e [2]float64) bool {
	return math.Abs(p[0]-e[0]) <= tol && math.Abs(p[1]-e[1]) <= tol
}

func bits(ls orb.LineString) []uint64 {
	o := make([]uint64, 0, 2*len(ls))
	for _, p := range ls {
		o = append(o, math.Float64bits(p[0]), math.Float64bits(p[1]))
	}
	return o
}

func sameBits(a, b []uint64) bool {
	if len(a) != len(b) {
		return false
	}
	for i := range a {
		if a[i] != b[i] {
			return false
		}
	}
	return true
}

// onInput reports whether p (float) lies within tol of the input polyline.
func onInput(in orb.LineString, p orb.Point) bool {
	for i := 1; i < len(in); i++ {
		a, b := in[i-1], in[i]
		dx, dy := b[0]-a[0], b[1]-a[1]
		l2 := dx*dx + dy*dy
		t := 0.0
		if l2 > 0 {
			t = ((p[0]-a[0])*dx + (p[1]-a[1])*dy) / l2
			t = math.Max(0, math.Min(1, t))
		}
		if math.Hypot(a[0]+t*dx-p[0], a[1]+t*dy-p[1]) <= tol {
			return true
		}
	}
	return len(in) == 1 && in[0] == p
}

func checkOne(c *mc.Ctx, box orb.Bound, in orb.LineString, open bool) {
	tb := tables[box]
	_ = tb.bx
	before := bits(in)
	var got orb.MultiLineString
	if open {
		got = clip.LineString(box, in, clip.OpenBound(true))
	} else {
		got = clip.LineString(box, in)
	}
	desc := func() string { return fmt.Sprintf("box=%v open=%v line=%v got=%v", box, open, in, got) }
	if !sameBits(before, bits(in)) {
		c.Failf("input-modified", "the input line was modified | %s", desc())
	}
	// the same problem translated far from the origin (exact in float64) must clip to the translated pieces:
	// same pieces, vertices within 1e-7 (honest interpolation is off by ~2e-10 there, cancelling formulas by ~1e-4)
	{
		const tx, ty = 1048576, -1048573
		sb := orb.Bound{Min: orb.Point{box.Min[0] + tx, box.Min[1] + ty}, Max: orb.Point{box.Max[0] + tx, box.Max[1] + ty}}
		sl := make(orb.LineString, len(in))
		for i, p := range in {
			sl[i] = orb.Point{p[0] + tx, p[1] + ty}
		}
		if in == nil {
			sl = nil
		}
		var gs orb.MultiLineString
		if open {
			gs = clip.LineString(sb, sl, clip.OpenBound(true))
		} else {
			gs = clip.LineString(sb, sl)
		}
		// compare the non-degenerate segments in order (a touch at a corner may or may not leave a zero-length piece)
		segs := func(m orb.MultiLineString, dx, dy float64) [][4]float64 {
			var out [][4]float64
			for _, l := range m {
				for j := 1; j < len(l); j++ {
					a, b := l[j-1], l[j]
					if math.Hypot(a[0]-b[0], a[1]-b[1]) > 1e-6 {
						out = append(out, [4]float64{a[0] - dx, a[1] - dy, b[0] - dx, b[1] - dy})
					}
				}
			}
			return out
		}
		s1, s2 := segs(got, 0, 0), segs(gs, tx, ty)
		same := len(s1) == len(s2)
		for i := 0; same && i < len(s1); i++ {
			for k := 0; k < 4; k++ {
				if math.Abs(s1[i][k]-s2[i][k]) > 1e-7 {
					same = false
				}
			}
		}
		if !same {
			c.Failf("translation", "translated by (2^20, -2^20+3) the line clips to %v | %s", gs, desc())
		}
	}
	// the same problem scaled by a power of two (exact in float64) must clip to the bit-for-bit scaled pieces
	for _, k := range []float64{1024, 1.0 / (1 << 40)} {
		sl, _ := refgeom.Scale(in, k).(orb.LineString)
		var gs orb.MultiLineString
		if open {
			gs = clip.LineString(refgeom.ScaleBound(box, k), sl, clip.OpenBound(true))
		} else {
			gs = clip.LineString(refgeom.ScaleBound(box, k), sl)
		}
		if !refgeom.Equal(refgeom.Scale(got, k), gs) {
			c.Failf("scaling", "scaled by %v the line clips to %v | %s", k, gs, desc())
		}
	}
	// the same line with spare capacity behind it must clip to the same pieces, and nothing may be written there
	sp := orb.LineString(refgeom.Spare(in))
	var got2 orb.MultiLineString
	if open {
		got2 = clip.LineString(box, sp, clip.OpenBound(true))
	} else {
		got2 = clip.LineString(box, sp)
	}
	if !got2.Equal(got) && !(len(got2) == 0 && len(got) == 0) {
		c.Failf("layout-dependent", "the line with spare capacity clips to %v | %s", got2, desc())
	}
	if full := sp[:cap(sp)]; len(full) > len(in) && (full[len(in)] != orb.Point{7e77, -7e77}) {
		c.Failf("input-modified", "clipping wrote into the spare capacity behind the input line | %s", desc())
	}
	// the generic entry point (closed box only): the same pieces, a single piece unwrapped, nothing as nil. It may use
	// its argument as scratch space, so it gets a copy of its own - and must not be confused by what it writes there
	if !open {
		g := clip.Geometry(box, orb.Geometry(append(orb.LineString(nil), in...)))
		var wg orb.Geometry
		switch len(got) {
		case 0:
		case 1:
			wg = got[0]
		default:
			wg = got
		}
		if !refgeom.Equal(g, wg) && !(g == nil && wg == nil) {
			c.Failf("generic", "clip.Geometry = %v, clip.LineString = %v | %s", g, got, desc())
		}
	}
	want := reference(tb, in, open)
	// flatten the output into its non-degenerate segments, remembering piece indices
	type fs struct {
		a, b  orb.Point
		piece int
	}
	var flat []fs
	for pi, piece := range got {
		if len(piece) == 0 {
			c.Failf("empty-piece", "an output piece has no vertices | %s", desc())
		}
		for i, p := range piece {
			if p[0] < box.Min[0]-tol || p[0] > box.Max[0]+tol || p[1] < box.Min[1]-tol || p[1] > box.Max[1]+tol {
				c.Failf("vertex-outside", "output vertex %v is outside the box | %s", p, desc())
			}
			if !onInput(in, p) {
				c.Failf("vertex-off-line", "output vertex %v is not on the input line | %s", p, desc())
			}
			if i > 0 && (math.Abs(piece[i-1][0]-p[0]) > tol || math.Abs(piece[i-1][1]-p[1]) > tol) {
				flat = append(flat, fs{piece[i-1], p, pi})
			}
		}
	}
	// closed box: the result is the set of points of the input in the closed box, so every input vertex that lies in
	// the box (on its boundary included: an isolated contact) is a point of some output piece
	if !open && len(in) >= 2 { // (a single vertex has no segment; the clipper returns nothing for it, as for an empty line)
		for vi, p := range in {
			if !box.Contains(p) {
				continue
			}
			found := false
			for _, piece := range got {
				if onInput(orb.LineString(piece), p) || (len(piece) == 1 && piece[0] == p) {
					found = true
					break
				}
			}
			if !found {
				c.Failf("vertex-missing", "input vertex %d = %v lies in the closed box but in no output piece | %s", vi, p, desc())
				break
			}
		}
	}
	if len(flat) != len(want) {
		c.Failf("portions", "output has %d non-degenerate segments, the exact clip has %d: want %v | %s", len(flat), len(want), want, desc())
		return
	}
	total, wantTotal := 0.0, 0.0
	for i := range flat {
		if !near(flat[i].a, want[i].af) || !near(flat[i].b, want[i].bf) {
			c.Failf("portions", "segment %d of the output is %v-%v, the exact clip has %v-%v | %s", i, flat[i].a, flat[i].b, want[i].a, want[i].b, desc())
			return
		}
		total += math.Hypot(flat[i].b[0]-flat[i].a[0], flat[i].b[1]-flat[i].a[1])
		wantTotal += math.Hypot(want[i].bf[0]-want[i].af[0], want[i].bf[1]-want[i].af[1])
		if i > 0 && flat[i].piece == flat[i-1].piece {
			// consecutive portions in one piece must be joined at one point
			if math.Abs(flat[i].a[0]-flat[i-1].b[0]) > tol || math.Abs(flat[i].a[1]-flat[i-1].b[1]) > tol {
				c.Failf("portions", "piece %d jumps from %v to %v | %s", flat[i].piece, flat[i-1].b, flat[i].a, desc())
			}
			if open && !want[i].startsInside {
				c.Failf("open-no-split", "open bound: the line touches the boundary at %v but the piece is not split there | %s", want[i].a, desc())
			}
		}
	}
	if math.Abs(total-wantTotal) > 1e-9 {
		c.Failf("length", "total length %v, exact %v | %s", total, wantTotal, desc())
	}
	// wholly inside => returned as is (closed mode)
	if !open && len(in) >= 2 {
		inside := true
		for _, p := range in {
			if !box.Contains(p) {
				inside = false
			}
		}
		if inside && (len(got) != 1 || !sameBits(bits(got[0]), before)) {
			c.Failf("inside-unchanged", "a line wholly inside the box must be returned as is | %s", desc())
		}
	}
	// re-clipping a piece returns it unchanged (closed mode; pieces with length)
	if !open {
		for _, piece := range got {
			hasLen := false
			for i := 1; i < len(piece); i++ {
				if piece[i] != piece[i-1] {
					hasLen = true
				}
			}
			if !hasLen {
				continue
			}
			pb := bits(piece)
			again := clip.LineString(box, piece.Clone())
			if len(again) != 1 || !sameBits(bits(again[0]), pb) {
				c.Failf("idempotent", "re-clipping piece %v gives %v | %s", piece, again, desc())
			}
		}
	}
	if len(want) > 0 && len(want) < len(in)-1 || len(got) > 1 {
		c.NonTrivial()
	} else if len(want) > 0 {
		for i := 1; i < len(in); i++ {
			if !box.Contains(in[i]) || !box.Contains(in[i-1]) {
				c.NonTrivial()
				break
			}
		}
	}
}

func main() {
	r := ev.New("C07", "exploration")
	r.Rule = "every lattice path (vertex list, repeated vertices allowed) up to the stated length on the 7x7 integer grid, against the stated boxes, in closed and open mode; each choice vector is a different (box, mode, path), so executions are distinct by construction; non-trivial = the path is partly inside and partly outside the box (something is cut) or more than one piece comes back"
	r.Assume = []string{
		"zero-length pieces where a segment merely touches the box between its vertices are validated for position only (the length clause cannot see them); an input vertex of a line of two or more vertices that lies in the closed box must be a point of some output piece",
		"piece boundaries are constrained only as the statement does: wholly-inside lines come back as one identical piece, re-clipping a piece is the identity, open mode must split at boundary contacts; other joins/splits are free",
		"output coordinates are compared with the exact rational clip within 1e-9",
	}
	grid := 7
	pt := func(k int) orb.Point { return orb.Point{float64(k % grid), float64(k / grid)} }
	path := func(c *mc.Ctx, maxN int) orb.LineString {
		n := c.Choose(maxN + 1)
		if n == 0 {
			if c.Bool() {
				return nil
			}
			return orb.LineString{}
		}
		ls := make(orb.LineString, n)
		for i := range ls {
			ls[i] = pt(c.Choose(grid * grid))
		}
		return ls
	}
	maxN := ev.Pick(r, 4, 5)
	center := orb.Bound{Min: orb.Point{2, 2}, Max: orb.Point{4, 4}}
	half := orb.Bound{Min: orb.Point{1.5, 2.5}, Max: orb.Point{4.5, 3.5}}
	tables[center] = tableFor(center)
	tables[half] = tableFor(half)
	var bx0 int
	st := r.Explore("center-box", fmt.Sprintf("box [2,4]^2, every path of 0..%d vertices on the 7x7 grid, closed and open", maxN),
		mc.Opts{MaxDev: -1, Split: 3}, func(c *mc.Ctx) {
			open := c.Bool()
			checkOne(c, center, path(c, maxN), open)
		})
	_ = st
	_ = bx0
	// all 100 sub-boxes of the inner 5x5 grid
	type bxs struct{ x0, x1, y0, y1 int }
	var boxes []orb.Bound
	for x0 := 1; x0 <= 5; x0++ {
		for x1 := x0 + 1; x1 <= 5; x1++ {
			for y0 := 1; y0 <= 5; y0++ {
				for y1 := y0 + 1; y1 <= 5; y1++ {
					boxes = append(boxes, orb.Bound{Min: orb.Point{float64(x0), float64(y0)}, Max: orb.Point{float64(x1), float64(y1)}})
				}
			}
		}
	}
	for _, b := range boxes {
		tables[b] = tableFor(b)
	}
	maxN2 := ev.Pick(r, 3, 4)
	r.Explore("sub-boxes", fmt.Sprintf("all %d sub-boxes of the inner 5x5 grid x every path of 0..%d vertices, closed and open", len(boxes), maxN2),
		mc.Opts{MaxDev: -1, Split: 3}, func(c *mc.Ctx) {
			b := boxes[c.Choose(len(boxes))]
			open := c.Bool()
			checkOne(c, b, path(c, maxN2), open)
		})
	// half-integer box: vertices never on the boundary, every crossing is interpolated
	r.Explore("half-box", "box [1.5,4.5]x[2.5,3.5], every path of 0..3 vertices", mc.Opts{MaxDev: -1, Split: 3}, func(c *mc.Ctx) {
		open := c.Bool()
		checkOne(c, half, path(c, 3), open)
	})
	// boxes on a 1/16 grid (exact in float64 and in the rational reference): no lattice vertex lies on an edge,
	// no lattice segment passes through a corner, every crossing parameter is a non-trivial fraction; one box
	// taller than wide, one wider than tall
	sixteenth := []orb.Bound{
		{Min: orb.Point{2.3125, 1.6875}, Max: orb.Point{4.4375, 4.5625}},
		{Min: orb.Point{2.8125, 0.4375}, Max: orb.Point{3.5625, 5.6875}},
		{Min: orb.Point{0.4375, 2.8125}, Max: orb.Point{5.6875, 3.4375}},
	}
	for _, b := range sixteenth {
		tables[b] = tableFor(b)
	}
	nSix := ev.Pick(r, 3, 4)
	r.Explore("sixteenth-boxes", fmt.Sprintf("3 general-position boxes with corners on the 1/16 grid (square-ish, tall, wide) x every path of 0..%d vertices, closed and open", nSix), mc.Opts{MaxDev: -1, Split: 3}, func(c *mc.Ctx) {
		b := sixteenth[c.Choose(len(sixteenth))]
		open := c.Bool()
		checkOne(c, b, path(c, nSix), open)
	})
	// MultiLineString and the generic entry point agree with LineString
	// long lines: tens of vertices (look-ahead windows, block skipping and reused buffers only come into play
	// there). Families on the 7x7 grid around box [2,4]^2, each judged segment by segment with the same exact reference.
	longN := []int{15, 16, 17, 18, 20, 33, 40}
	r.Explore("long-lines", fmt.Sprintf("box [2,4]^2 x 6 families (a crossing followed / preceded by a far tail, crossings separated by far detours, a zigzag across the box, a tail that hugs the box, a spiral into the box) x tail lengths %v x closed / open", longN), mc.Opts{MaxDev: -1, Split: 2}, func(c *mc.Ctx) {
		fam := c.Choose(6)
		k := longN[c.Choose(len(longN))]
		open := c.Bool()
		far := func(i int) orb.Point { return orb.Point{5 + float64(i%2), 5 + float64(i/2%2)} }        // stays right of and above the box
		hug := func(i int) orb.Point { return orb.Point{float64([]int{5, 5, 4, 5}[i%4]), float64(i % 7)} } // runs along the right side, touching it
		var in orb.LineString
		switch fam {
		case 0: // crossing, then a far tail
			in = orb.LineString{{0, 3}, {6, 3}}
			for i := 0; i < k; i++ {
				in = append(in, far(i))
			}
		case 1: // far tail, then the crossing
			for i := 0; i < k; i++ {
				in = append(in, far(i))
			}
			in = append(in, orb.Point{6, 3}, orb.Point{0, 3})
		case 2: // crossings separated by far detours
			for rep := 0; rep < 3; rep++ {
				in = append(in, orb.Point{0, float64(2 + rep)}, orb.Point{6, float64(2 + rep)})
				for i := 0; i < k; i++ {
					in = append(in, far(i))
				}
			}
		case 3: // zigzag: every segment crosses the box
			for i := 0; i < k+2; i++ {
				in = append(in, orb.Point{float64(i % 2 * 6), 1 + float64(i%5)})
			}
		case 4: // crossing, then a tail that hugs the right side
			in = orb.LineString{{0, 3}, {6, 3}}
			for i := 0; i < k; i++ {
				in = append(in, hug(i))
			}
		case 5: // a spiral from outside into the box
			for i := 0; i < k+2; i++ { // grid points only (the exact reference is tabulated for the 7x7 grid)
				r := math.Max(0, 3-float64(i/4))
				q := [][2]float64{{1, 0}, {0, 1}, {-1, 0}, {0, -1}}[i%4]
				in = append(in, orb.Point{3 + r*q[0], 3 + r*q[1]})
			}
		}
		checkOne(c, center, in, open)
		c.NonTrivial()
	})
	r.Explore("multi-and-generic", "pairs of 2..3-vertex paths through clip.MultiLineString and clip.Geometry", mc.Opts{MaxDev: -1, Split: 3}, func(c *mc.Ctx) {
		open := c.Bool()
		a := make(orb.LineString, 2)
		for i := range a {
			a[i] = pt(c.Choose(49))
		}
		b := make(orb.LineString, 2)
		for i := range b {
			b[i] = pt(c.Choose(49))
		}
		var opts []clip.Option
		if open {
			opts = append(opts, clip.OpenBound(true))
		}
		ra := clip.LineString(center, a.Clone(), opts...)
		rb := clip.LineString(center, b.Clone(), opts...)
		m := clip.MultiLineString(center, orb.MultiLineString{a.Clone(), b.Clone()}, opts...)
		want := append(append(orb.MultiLineString{}, ra...), rb...)
		if !m.Equal(want) {
			c.Failf("multi", "MultiLineString(%v,%v) = %v, want the concatenation %v", a, b, m, want)
		}
		if !open {
			g := clip.Geometry(center, a.Clone())
			switch {
			case len(ra) == 0:
				if g != nil {
					c.Failf("generic", "Geometry(%v) = %v, want nil", a, g)
				}
			case len(ra) == 1:
				if !refgeom.Equal(g, ra[0]) {
					c.Failf("generic", "Geometry(%v) = %v, want %v", a, g, ra[0])
				}
			default:
				if !refgeom.Equal(g, ra) {
					c.Failf("generic", "Geometry(%v) = %v, want %v", a, g, ra)
				}
			}
		}
		if len(ra) > 0 && len(rb) > 0 {
			c.NonTrivial()
		}
	})
	// members of every shape, three at a time: empty and single-vertex members between ordinary ones
	memberMenu := []orb.LineString{
		nil, {}, {{3, 3}}, {{0, 0}}, {{2.5, 3}, {3.5, 3}}, {{0, 3}, {3, 3}}, {{0, 0}, {1, 5}}, {{0, 3}, {3, 3}, {6, 3}, {3, 2.5}}, {{1, 1}, {5, 5}},
	}
	r.Explore("multi-members", fmt.Sprintf("every ordered triple of %d member shapes (nil, empty, single vertex inside / outside, inside, crossing, outside, crossing twice, through two corners), closed and open: MultiLineString is the concatenation of the members' clips; Geometry agrees", len(memberMenu)), mc.Opts{MaxDev: -1, Split: 2}, func(c *mc.Ctx) {
		open := c.Bool()
		var opts []clip.Option
		if open {
			opts = append(opts, clip.OpenBound(true))
		}
		var mls orb.MultiLineString
		var want orb.MultiLineString
		for i := 0; i < 3; i++ {
			m := memberMenu[c.Choose(len(memberMenu))]
			mls = append(mls, m.Clone())
			want = append(want, clip.LineString(center, m.Clone(), opts...)...)
		}
		got := clip.MultiLineString(center, mls.Clone(), opts...)
		if !got.Equal(want) {
			c.Failf("multi", "MultiLineString(%v) = %v, want the concatenation of the members' clips %v (open=%v)", mls, got, want, open)
		}
		if !open {
			g := clip.Geometry(center, mls.Clone())
			var wg orb.Geometry
			switch len(want) {
			case 0:
			case 1:
				wg = want[0]
			default:
				wg = want
			}
			if !refgeom.Equal(g, wg) && !(g == nil && wg == nil) {
				c.Failf("generic", "Geometry(%v) = %v, want %v", mls, g, wg)
			}
		}
		if len(want) >= 2 {
			c.NonTrivial()
		}
	})
	r.Sample(map[string]interface{}{"box": "[2,4]^2", "open": false, "line": "[[0,3],[3,3],[6,0]]", "expected_portions": "[(2,3)-(3,3)], [(3,3)-(4,2)]"})
	r.Sample(map[string]interface{}{"box": "[2,4]^2", "open": true, "line": "[[1,1],[5,5]] through two corners", "expected_portions": "[(2,2)-(4,4)]"})
	r.Finish()
}
