// C20: generic geometry entry points are total and agree with the typed ones.
package main

import (
	"sync"
	"reflect"
	"encoding/json"
	"bytes"
	"fmt"
	"math"
	"strings"

	"github.com/paulmach/orb"
	"github.com/paulmach/orb/clip"
	"github.com/paulmach/orb/clip/smartclip"
	"github.com/paulmach/orb/encoding/ewkb"
	"github.com/paulmach/orb/encoding/mvt"
	"github.com/paulmach/orb/encoding/wkb"
	"github.com/paulmach/orb/encoding/wkt"
	"github.com/paulmach/orb/geo"
	"github.com/paulmach/orb/geojson"
	"github.com/paulmach/orb/maptile"
	"github.com/paulmach/orb/maptile/tilecover"
	"github.com/paulmach/orb/planar"
	"github.com/paulmach/orb/project"
	"github.com/paulmach/orb/simplify"

	"verif/lib/ev"
	"verif/lib/gg"
	"verif/lib/mc"
	"verif/lib/refgeom"
)

type entry struct {
	name     string // qualified as the static pass reports it
	readOnly bool   // documented as not modifying its argument
	call     func(g orb.Geometry) interface{}
}

var box = orb.Bound{Min: orb.Point{-1, -1}, Max: orb.Point{2.5, 2.5}}

type namedSimplifier struct {
	name string
	s    orb.Simplifier
}

// simplifierSpecs: the generic entry point is called on one long-lived simplifier per worker (whose history grows
// with every execution), the kind-specific methods it is compared with on a fresh simplifier each time.
var simplifierSpecs = []struct {
	name string
	mk   func() orb.Simplifier
}{
	{"DouglasPeucker(0.5)", func() orb.Simplifier { return simplify.DouglasPeucker(0.5) }}, {"DouglasPeucker(50)", func() orb.Simplifier { return simplify.DouglasPeucker(50) }},
	{"Radial(0.5)", func() orb.Simplifier { return simplify.Radial(planar.Distance, 0.5) }}, {"Radial(50)", func() orb.Simplifier { return simplify.Radial(planar.Distance, 50) }},
	{"VisvalingamThreshold(0.5)", func() orb.Simplifier { return simplify.VisvalingamThreshold(0.5) }}, {"VisvalingamThreshold(50)", func() orb.Simplifier { return simplify.VisvalingamThreshold(50) }},
	{"VisvalingamKeep(3)", func() orb.Simplifier { return simplify.VisvalingamKeep(3) }}, {"Visvalingam(50,2)", func() orb.Simplifier { return simplify.Visvalingam(50, 2) }},
	// the threshold 0: only repeated vertices (radial), exactly collinear ones (Douglas-Peucker) or empty triangles go
	{"DouglasPeucker(0)", func() orb.Simplifier { return simplify.DouglasPeucker(0) }}, {"Radial(0)", func() orb.Simplifier { return simplify.Radial(planar.Distance, 0) }},
	{"VisvalingamThreshold(0)", func() orb.Simplifier { return simplify.VisvalingamThreshold(0) }},
}

var (
	liveMu   sync.Mutex
	liveSimp = map[[2]int]orb.Simplifier{}
)

type liveSimplifier struct {
	name string
	s    orb.Simplifier        // long-lived, per worker
	mk   func() orb.Simplifier // fresh
}

func simplifiersOf(worker int) []liveSimplifier {
	liveMu.Lock()
	defer liveMu.Unlock()
	var out []liveSimplifier
	for i, sp := range simplifierSpecs {
		k := [2]int{worker, i}
		if liveSimp[k] == nil {
			liveSimp[k] = sp.mk()
		}
		out = append(out, liveSimplifier{sp.name, liveSimp[k], sp.mk})
	}
	return out
}

func registry() []entry {
	dp, rd, vis := simplify.DouglasPeucker(0.5), simplify.Radial(planar.Distance, 0.5), simplify.VisvalingamThreshold(0.5)
	return []entry{
		{"github.com/paulmach/orb.Clone", true, func(g orb.Geometry) interface{} { return orb.Clone(g) }},
		{"github.com/paulmach/orb.Equal", true, func(g orb.Geometry) interface{} { return orb.Equal(g, g) }},
		{"github.com/paulmach/orb.Round", false, func(g orb.Geometry) interface{} { return orb.Round(g, 10) }},
		{"github.com/paulmach/orb/planar.Area", true, func(g orb.Geometry) interface{} { return planar.Area(g) }},
		{"github.com/paulmach/orb/planar.CentroidArea", true, func(g orb.Geometry) interface{} { c, a := planar.CentroidArea(g); return fmt.Sprint(c, a) }},
		{"github.com/paulmach/orb/planar.Length", true, func(g orb.Geometry) interface{} { return planar.Length(g) }},
		{"github.com/paulmach/orb/planar.DistanceFrom", true, func(g orb.Geometry) interface{} { return planar.DistanceFrom(g, orb.Point{0.5, 0.25}) }},
		{"github.com/paulmach/orb/planar.DistanceFromWithIndex", true, func(g orb.Geometry) interface{} {
			d, i := planar.DistanceFromWithIndex(g, orb.Point{0.5, 0.25})
			return fmt.Sprint(d, i)
		}},
		{"github.com/paulmach/orb/geo.Area", true, func(g orb.Geometry) interface{} { return geo.Area(g) }},
		{"github.com/paulmach/orb/geo.Length", true, func(g orb.Geometry) interface{} { return geo.Length(g) }},
		{"github.com/paulmach/orb/geo.LengthHaversine", true, func(g orb.Geometry) interface{} { return geo.LengthHaversine(g) }},
		{"github.com/paulmach/orb/geo.LengthHaversign", true, func(g orb.Geometry) interface{} { return geo.LengthHaversign(g) }},
		{"github.com/paulmach/orb/clip.Geometry", false, func(g orb.Geometry) interface{} { return clip.Geometry(box, g) }},
		{"github.com/paulmach/orb/clip/smartclip.Geometry", false, func(g orb.Geometry) interface{} { return smartclip.Geometry(box, g, orb.CCW) }},
		{"github.com/paulmach/orb/project.Geometry", false, func(g orb.Geometry) interface{} {
			return project.Geometry(g, func(p orb.Point) orb.Point { return orb.Point{p[0] + 1, p[1] * 2} })
		}},
		{"github.com/paulmach/orb/simplify.*DouglasPeuckerSimplifier.Simplify", false, func(g orb.Geometry) interface{} { return dp.Simplify(g) }},
		{"github.com/paulmach/orb/simplify.*RadialSimplifier.Simplify", false, func(g orb.Geometry) interface{} { return rd.Simplify(g) }},
		{"github.com/paulmach/orb/simplify.*VisvalingamSimplifier.Simplify", false, func(g orb.Geometry) interface{} { return vis.Simplify(g) }},
		{"github.com/paulmach/orb/maptile/tilecover.Geometry", true, func(g orb.Geometry) interface{} { s, err := tilecover.Geometry(g, 3); return fmt.Sprint(len(s), err) }},
		{"github.com/paulmach/orb/encoding/wkb.Marshal", true, func(g orb.Geometry) interface{} { b, err := wkb.Marshal(g); return fmt.Sprint(len(b), err) }},
		{"github.com/paulmach/orb/encoding/wkb.MustMarshal", true, func(g orb.Geometry) interface{} { return len(wkb.MustMarshal(g)) }},
		{"github.com/paulmach/orb/encoding/wkb.MarshalToHex", true, func(g orb.Geometry) interface{} { s, err := wkb.MarshalToHex(g); return fmt.Sprint(len(s), err) }},
		{"github.com/paulmach/orb/encoding/wkb.MustMarshalToHex", true, func(g orb.Geometry) interface{} { return len(wkb.MustMarshalToHex(g)) }},
		{"github.com/paulmach/orb/encoding/wkb.Value", true, func(g orb.Geometry) interface{} { v, err := wkb.Value(g).Value(); return fmt.Sprint(v == nil, err) }},
		{"github.com/paulmach/orb/encoding/wkb.*Encoder.Encode", true, func(g orb.Geometry) interface{} { var b bytes.Buffer; return wkb.NewEncoder(&b).Encode(g) }},
		{"github.com/paulmach/orb/encoding/ewkb.Marshal", true, func(g orb.Geometry) interface{} { b, err := ewkb.Marshal(g, 4326); return fmt.Sprint(len(b), err) }},
		{"github.com/paulmach/orb/encoding/ewkb.MustMarshal", true, func(g orb.Geometry) interface{} { return len(ewkb.MustMarshal(g, 4326)) }},
		{"github.com/paulmach/orb/encoding/ewkb.MarshalToHex", true, func(g orb.Geometry) interface{} { s, err := ewkb.MarshalToHex(g, 4326); return fmt.Sprint(len(s), err) }},
		{"github.com/paulmach/orb/encoding/ewkb.MustMarshalToHex", true, func(g orb.Geometry) interface{} { return len(ewkb.MustMarshalToHex(g, 4326)) }},
		{"github.com/paulmach/orb/encoding/ewkb.Value", true, func(g orb.Geometry) interface{} {
			v, err := ewkb.Value(g, 4326).Value()
			return fmt.Sprint(v == nil, err)
		}},
		{"github.com/paulmach/orb/encoding/ewkb.ValuePrefixSRID", true, func(g orb.Geometry) interface{} {
			v, err := ewkb.ValuePrefixSRID(g, 4326).Value()
			return fmt.Sprint(v == nil, err)
		}},
		{"github.com/paulmach/orb/encoding/ewkb.*Encoder.Encode", true, func(g orb.Geometry) interface{} { var b bytes.Buffer; return ewkb.NewEncoder(&b).Encode(g, 4326) }},
		{"github.com/paulmach/orb/encoding/wkt.Marshal", true, func(g orb.Geometry) interface{} { return string(wkt.Marshal(g)) }},
		{"github.com/paulmach/orb/encoding/wkt.MarshalString", true, func(g orb.Geometry) interface{} { return wkt.MarshalString(g) }},
		{"github.com/paulmach/orb/geojson.NewGeometry", true, func(g orb.Geometry) interface{} {
			b, err := geojson.NewGeometry(g).MarshalJSON()
			return fmt.Sprint(string(b), err)
		}},
		{"github.com/paulmach/orb/geojson.NewFeature", true, func(g orb.Geometry) interface{} {
			b, err := geojson.NewFeature(g).MarshalJSON()
			return fmt.Sprint(string(b), err)
		}},
	}
}

// guarded call: returns the result or the panic text
func try(fn func() interface{}) (res interface{}, pan string) {
	defer func() {
		if r := recover(); r != nil {
			pan = fmt.Sprint(r)
		}
	}()
	return fn(), ""
}

// degenerate-member predicates used to name the shape in a panic class
func degenerate(g orb.Geometry) string {
	switch v := g.(type) {
	case nil:
		return "nil-interface"
	case orb.Polygon:
		for _, r := range v {
			if len(r) == 0 {
				return "zero-vertex-ring"
			}
		}
		if len(v) == 0 {
			return "zero-ring-polygon"
		}
	case orb.MultiPolygon:
		for _, p := range v {
			if d := degenerate(p); d != "" {
				return d
			}
		}
	case orb.MultiLineString:
		for _, l := range v {
			if len(l) == 0 {
				return "zero-vertex-line"
			}
			if len(l) == 1 {
				return "one-vertex-line"
			}
		}
	case orb.LineString:
		if len(v) == 0 {
			return "zero-vertex-line"
		}
		if len(v) == 1 {
			return "one-vertex-line"
		}
	case orb.Ring:
		if len(v) == 0 {
			return "zero-vertex-ring"
		}
	case orb.MultiPoint:
		if len(v) == 0 {
			return "empty-multipoint"
		}
	case orb.Collection:
		for _, m := range v {
			if d := degenerate(m); d != "" {
				return d
			}
		}
	}
	return ""
}

// hasBound reports a bound anywhere in g (a projected bound is re-normalised, not mapped corner by corner).
func hasBound(g orb.Geometry) bool {
	switch v := g.(type) {
	case orb.Bound:
		return true
	case orb.Collection:
		for _, m := range v {
			if hasBound(m) {
				return true
			}
		}
	}
	return false
}

func short(name string) string { return strings.TrimPrefix(name, "github.com/paulmach/orb") }

func main() {
	r := ev.New("C20", "exploration")
	r.Rule = "programs: every type switch over a value of static type orb.Geometry in every non-test package of the working tree x {nil, nine kinds} (go/types, complete); inputs: the geometry grammar G(2,2) - all eight non-collection kinds in full product, collections to depth 3 within a deviation bound, typed nil slices, the nil interface, and degenerate members at every level (zero-ring polygons inside multi-polygons, zero-vertex rings inside polygons, zero- and one-vertex lines) - through every exported function with an orb.Geometry parameter found by the same pass; non-trivial = the geometry has a degenerate member or is a collection"
	r.Assume = []string{
		"collections never hold nil members (the quantifier excludes them)",
		"read-only is asserted only for functions documented so (Clone, Equal, planar/geo measures, the encoders, tilecover); clip, smartclip, simplify, project and Round work in place by documentation",
		"an exported function with a Geometry parameter that the registry does not know is reported in the evidence (unregistered_functions) but is not an alarm",
	}
	sites, fns, err := analyseRepo()
	if err != nil {
		r.HarnessError("static pass: %v", err)
	}
	// static matrix
	r.Custom("static-type-switches", "every type switch over orb.Geometry x {nil + nine kinds}: the selected clause (or default, or fall-through) must not be a panic", func(p *ev.Part) {
		if r.Replaying() {
			return
		}
		for _, s := range sites {
			for _, k := range append([]string{"nil"}, kinds...) {
				p.Execs++
				out := s.Matrix[k]
				if strings.Contains(out, "PANIC") {
					cl := "type-switch-panics:" + k
					p.Fail(cl, fmt.Sprintf("%s (func %s): a geometry of kind %s reaches %s", s.Pos, s.Func, k, out), map[string]string{"site": s.Pos, "kind": k})
				}
			}
			p.NonTrivial++
		}
		r.Programs = int64(len(sites) * 10)
		r.Extra["type_switch_sites"] = len(sites)
		if len(sites) > 0 {
			r.Sample(map[string]interface{}{"site": sites[0].Pos, "func": sites[0].Func, "matrix": sites[0].Matrix})
		}
	})
	reg := registry()
	known := map[string]bool{}
	for _, e := range reg {
		known[e.name] = true
	}
	var unreg []string
	for _, f := range fns {
		if !known[f.Pkg+"."+f.Name] {
			unreg = append(unreg, short(f.Pkg+"."+f.Name))
		}
	}
	r.Extra["exported_functions_with_geometry_parameter"] = len(fns)
	r.Extra["unregistered_functions"] = unreg

	// dynamic part
	type loc struct {
		g     *gg.Gen
		reset func(int)
	}
	coords := []float64{0, 0, 2, 0, 2, 2, 0, 2, 0, 0, 1.26, 1.333, 3, 0.5, -1.07, 4.449}
	newLocal := func(int) interface{} {
		next, reset := gg.CyclicAt(coords)
		return &loc{&gg.Gen{K: 2, M: 2, Depth: 3, NilSlice: true, SortBound: true, Next: next}, reset}
	}
	check := func(c *mc.Ctx, g orb.Geometry) {
		desc := fmt.Sprintf("%T %v", g, g)
		// the feature encoder writes its geometry member the way the geometry encoder writes the geometry alone
		if fv, p := try(func() interface{} { b, err := geojson.NewFeature(orb.Clone(g)).MarshalJSON(); return []interface{}{string(b), err} }); p == "" {
			gv, gp := try(func() interface{} { b, err := geojson.NewGeometry(orb.Clone(g)).MarshalJSON(); return []interface{}{string(b), err} })
			fb, ferr := fv.([]interface{})[0].(string), fv.([]interface{})[1]
			if gp == "" && ferr == nil && gv.([]interface{})[1] == nil {
				var doc struct {
					Geometry json.RawMessage `json:"geometry"`
				}
				var a, b interface{}
				if json.Unmarshal([]byte(fb), &doc) != nil || json.Unmarshal(doc.Geometry, &a) != nil || json.Unmarshal([]byte(gv.([]interface{})[0].(string)), &b) != nil || !reflect.DeepEqual(a, b) {
					c.Failf("typed-vs-generic", "the feature encoder writes the geometry of %s as %s, the geometry encoder writes %s", desc, doc.Geometry, gv.([]interface{})[0])
				}
			}
		}
		// a multi-polygon measures as the sum of its polygons, a polygon as its outer ring less its holes - whatever
		// spelling (closed or not) the rings have and wherever the member stands
		if mp, ok := g.(orb.MultiPolygon); ok && len(mp) > 0 {
			if v, p := try(func() interface{} { return planar.Area(mp.Clone()) }); p == "" {
				sum, bad := 0.0, false
				for _, m := range mp {
					mv, mp2 := try(func() interface{} { return planar.Area(m.Clone()) })
					if mp2 != "" {
						bad = true
						break
					}
					sum += mv.(float64)
				}
				if a := v.(float64); !bad && a != sum && math.Abs(a-sum) > 1e-9*math.Max(math.Abs(a), math.Abs(sum)) {
					c.Failf("collection-combination", "planar.Area(%s) = %v, its polygons alone add up to %v", desc, a, sum)
				}
			}
		}
		if pg, ok := g.(orb.Polygon); ok && len(pg) > 1 {
			if v, p := try(func() interface{} { return planar.Area(pg.Clone()) }); p == "" {
				want, bad := 0.0, false
				for i, rg := range pg {
					rv, rp := try(func() interface{} { return planar.Area(rg.Clone()) })
					if rp != "" {
						bad = true
						break
					}
					if a := math.Abs(rv.(float64)); i == 0 {
						want = a
					} else {
						want -= a
					}
				}
				if a := v.(float64); !bad && a != want && math.Abs(a-want) > 1e-9*math.Max(math.Abs(a), math.Abs(want)) {
					c.Failf("collection-combination", "planar.Area(%s) = %v, its outer ring less its holes is %v", desc, a, want)
				}
			}
		}
		for _, e := range reg {
			arg := orb.Clone(g)
			if arg == nil {
				arg = g // typed nil slices and the nil interface are passed as they are
			}
			before := refgeom.Bits(arg)
			res, pan := try(func() interface{} { return e.call(arg) })
			if pan != "" {
				c.Failf("panic:"+short(e.name)+":"+degenerate(g), "%s(%s) panicked: %s", short(e.name), desc, pan)
				continue
			}
			if e.readOnly && refgeom.Bits(arg) != before {
				c.Failf("mutates-argument:"+short(e.name), "%s modified its argument %s -> %v", short(e.name), desc, arg)
			}
			if e.readOnly {
				// the same value laid out as windows of one shared buffer (capacity running into the next member)
				warg, verify := refgeom.Windowed(g)
				wres, wpan := try(func() interface{} { return e.call(warg) })
				if wpan != "" {
					c.Failf("panic:"+short(e.name)+":windowed", "%s(%s) panicked when the slices of the argument share one buffer: %s", short(e.name), desc, wpan)
				} else if d := verify(); d != "" {
					c.Failf("mutates-argument:"+short(e.name), "%s(%s) wrote outside its argument: %s", short(e.name), desc, d)
				} else if fmt.Sprint(wres) != fmt.Sprint(res) && !strings.Contains(fmt.Sprint(res), "0x") {
					c.Failf("layout-dependent:"+short(e.name), "%s(%s) = %v, but %v when the slices of the argument share one buffer", short(e.name), desc, res, wres)
				}
			}
			_ = res
		}
		// a collection is the combination of its members
		if col, ok := g.(orb.Collection); ok && len(col) > 0 {
			sumLen, sumGeoLen, sumGeoArea, minD := 0.0, 0.0, 0.0, math.Inf(1)
			okAll := true
			for _, m := range col {
				_, p1 := try(func() interface{} {
					sumLen += planar.Length(m)
					sumGeoLen += geo.Length(m)
					sumGeoArea += geo.Area(m)
					return nil
				})
				_, p2 := try(func() interface{} { minD = math.Min(minD, planar.DistanceFrom(m, orb.Point{0.5, 0.25})); return nil })
				if p1 != "" || p2 != "" {
					okAll = false
				}
			}
			if okAll {
				close := func(a, b float64) bool { return a == b || math.Abs(a-b) <= 1e-9*math.Max(math.Abs(a), math.Abs(b)) }
				if v, p := try(func() interface{} { return planar.Length(g) }); p == "" && !close(v.(float64), sumLen) {
					c.Failf("collection-combination", "planar.Length(%s) = %v, sum over members %v", desc, v, sumLen)
				}
				if v, p := try(func() interface{} { return geo.Length(g) }); p == "" && !close(v.(float64), sumGeoLen) {
					c.Failf("collection-combination", "geo.Length(%s) = %v, sum over members %v", desc, v, sumGeoLen)
				}
				if v, p := try(func() interface{} { return geo.Area(g) }); p == "" && !close(v.(float64), sumGeoArea) {
					c.Failf("collection-combination", "geo.Area(%s) = %v, sum over members %v", desc, v, sumGeoArea)
				}
				if v, p := try(func() interface{} { return planar.DistanceFrom(g, orb.Point{0.5, 0.25}) }); p == "" && !close(v.(float64), minD) {
					c.Failf("collection-combination", "planar.DistanceFrom(%s) = %v, minimum over members %v", desc, v, minD)
				}
			}
			// clip / project / round / clone act member-wise
			if v, p := try(func() interface{} { return clip.Geometry(box, orb.Clone(g)) }); p == "" {
				var want orb.Collection
				bad := false
				for _, m := range col {
					mv, mp := try(func() interface{} { return clip.Geometry(box, orb.Clone(m)) })
					if mp != "" {
						bad = true
						break
					}
					if mg, _ := mv.(orb.Geometry); mg != nil {
						want = append(want, mg)
					}
				}
				if !bad && box.Intersects(g.Bound()) {
					got, _ := v.(orb.Geometry)
					var wg orb.Geometry
					switch len(want) {
					case 0:
					case 1:
						wg = want[0]
					default:
						wg = want
					}
					if refgeom.Struct(got) != refgeom.Struct(wg) {
						c.Failf("collection-combination", "clip.Geometry(%s) = %v, member-wise %v", desc, got, wg)
					}
				}
			}
			// the encoders write a collection as the list of what they write for each member alone
			{
				var wktParts, jsonParts []string
				var wkbParts []byte
				ok := true
				for _, m := range col {
					_, p1 := try(func() interface{} {
						wktParts = append(wktParts, wkt.MarshalString(m))
						b, err := wkb.Marshal(m)
						if err != nil || m == nil {
							ok = false
						}
						wkbParts = append(wkbParts, b...)
						j, err := geojson.NewGeometry(m).MarshalJSON()
						if err != nil {
							ok = false
						}
						jsonParts = append(jsonParts, string(j))
						return nil
					})
					if p1 != "" {
						ok = false
					}
				}
				if ok {
					if v, p := try(func() interface{} { return wkt.MarshalString(g) }); p == "" {
						if want := "GEOMETRYCOLLECTION(" + strings.Join(wktParts, ",") + ")"; v.(string) != want {
							c.Failf("collection-combination", "wkt.MarshalString(%s) = %q, member-wise %q", desc, v, want)
						}
					}
					if v, p := try(func() interface{} { b, _ := wkb.Marshal(g); return b }); p == "" {
						want := append([]byte{1, 7, 0, 0, 0, byte(len(col)), byte(len(col) >> 8), 0, 0}, wkbParts...)
						if !bytes.Equal(v.([]byte), want) {
							c.Failf("collection-combination", "wkb.Marshal(%s) = %x, member-wise %x", desc, v, want)
						}
					}
					if v, p := try(func() interface{} { b, _ := geojson.NewGeometry(g).MarshalJSON(); return string(b) }); p == "" {
						var got struct {
							Type       string            `json:"type"`
							Geometries []json.RawMessage `json:"geometries"`
						}
						same := json.Unmarshal([]byte(v.(string)), &got) == nil && got.Type == "GeometryCollection" && len(got.Geometries) == len(jsonParts)
						for i := 0; same && i < len(jsonParts); i++ {
							var a, b interface{}
							if json.Unmarshal(got.Geometries[i], &a) != nil || json.Unmarshal([]byte(jsonParts[i]), &b) != nil || !reflect.DeepEqual(a, b) {
								same = false
							}
						}
						if !same {
							c.Failf("collection-combination", "geojson of %s = %s, its members alone encode as %v", desc, v, jsonParts)
						}
					}
				}
			}
			pf := func(p orb.Point) orb.Point { return orb.Point{p[0]*2 + 1, 3 - p[1]} }
			if v, p := try(func() interface{} { return project.Geometry(orb.Clone(g), pf) }); p == "" {
				want := make(orb.Collection, len(col))
				bad := false
				for i, m := range col {
					mv, mp := try(func() interface{} { return project.Geometry(orb.Clone(m), pf) })
					if mp != "" {
						bad = true
						break
					}
					want[i], _ = mv.(orb.Geometry)
				}
				if got, _ := v.(orb.Geometry); !bad && refgeom.Struct(got) != refgeom.Struct(want) {
					c.Failf("collection-combination", "project.Geometry(%s) = %v, member-wise %v", desc, got, want)
				}
			}
			if v, p := try(func() interface{} { return orb.Round(orb.Clone(g), 10) }); p == "" {
				want := make(orb.Collection, len(col))
				for i, m := range col {
					want[i] = orb.Round(orb.Clone(m), 10)
				}
				if got, _ := v.(orb.Geometry); refgeom.Struct(got) != refgeom.Struct(want) {
					c.Failf("collection-combination", "orb.Round(%s) = %v, member-wise %v", desc, got, want)
				}
			}
		}
		// typed vs generic for the simplifiers: Simplify(g) is what the method for g's kind returns, at the top
		// level and for every member of a collection
		for _, sp := range simplifiersOf(c.Worker) {
			var typed func(m orb.Geometry) orb.Geometry
			typed = func(m orb.Geometry) orb.Geometry {
				fresh := sp.mk()
				switch v := orb.Clone(m).(type) {
				case orb.LineString:
					return fresh.LineString(v)
				case orb.Ring:
					return fresh.Ring(v)
				case orb.Polygon:
					return fresh.Polygon(v)
				case orb.MultiLineString:
					return fresh.MultiLineString(v)
				case orb.MultiPolygon:
					return fresh.MultiPolygon(v)
				case orb.Collection:
					return fresh.Collection(v)
				}
				return nil
			}
			cmp := func(what string, m orb.Geometry) {
				var want, got orb.Geometry
				_, p1 := try(func() interface{} { want = typed(m); return nil })
				_, p2 := try(func() interface{} { got = sp.s.Simplify(orb.Clone(m)); return nil })
				if p1 != "" || p2 != "" || want == nil {
					return // panics are reported above; value kinds have no typed method
				}
				if refgeom.Struct(got) != refgeom.Struct(want) && !(refgeom.Struct(want) == refgeom.Struct(refgeom.Normal(nil, false)) && got == nil) {
					if wl := fmt.Sprint(want); got == nil && (wl == "[]" || wl == "[[]]") {
						return // the generic entry point returns nil for an emptied geometry
					}
					c.Failf("typed-vs-generic", "%s.Simplify(%s %T %v) = %v, the %T method gives %v", sp.name, what, m, m, got, m, want)
				}
			}
			cmp("", g)
			if col, ok := g.(orb.Collection); ok {
				for _, m := range col {
					cmp("member", m)
				}
			}
		}
		// typed vs generic for smart clipping: Geometry(box, g, o) is the typed result for g's kind (nil for nothing,
		// the polygon itself for one, the multi-polygon otherwise), for boxes around, inside and across the data
		for _, sb := range []orb.Bound{box, {Min: orb.Point{0.25, 0.25}, Max: orb.Point{1.75, 1.75}}, {Min: orb.Point{0.25, -1}, Max: orb.Point{3, 3}}} {
			for _, o := range []orb.Orientation{orb.CCW, orb.CW} {
				var typed func() orb.MultiPolygon
				switch v := g.(type) {
				case orb.Ring:
					typed = func() orb.MultiPolygon { return smartclip.Ring(sb, v.Clone(), o) }
				case orb.Polygon:
					typed = func() orb.MultiPolygon { return smartclip.Polygon(sb, v.Clone(), o) }
				case orb.MultiPolygon:
					typed = func() orb.MultiPolygon { return smartclip.MultiPolygon(sb, v.Clone(), o) }
				}
				if typed == nil {
					continue
				}
				var mp orb.MultiPolygon
				var got orb.Geometry
				_, p1 := try(func() interface{} { mp = typed(); return nil })
				_, p2 := try(func() interface{} { got = smartclip.Geometry(sb, orb.Clone(g), o); return nil })
				if p1 != "" || p2 != "" {
					continue
				}
				var want orb.Geometry
				switch {
				case mp == nil:
				case len(mp) == 1:
					want = mp[0]
				default:
					want = mp
				}
				if refgeom.Struct(got) != refgeom.Struct(want) {
					c.Failf("typed-vs-generic", "smartclip.Geometry(%v, %s, %d) = %v, the typed function gives %v", sb, desc, o, got, want)
				}
			}
		}
		// typed vs generic for plain clipping: where the box meets the geometry's bound, Geometry(box, g) is the typed
		// result for g's kind (a single member unwrapped, nothing = nil), for boxes around, inside and across the data
		for _, sb := range []orb.Bound{box, {Min: orb.Point{-10, -10}, Max: orb.Point{10, 10}}, {Min: orb.Point{0.25, 0.25}, Max: orb.Point{1.75, 1.75}}, {Min: orb.Point{0.25, -1}, Max: orb.Point{3, 3}}} {
			var want, got orb.Geometry
			_, p1 := try(func() interface{} {
				if g == nil || !sb.Intersects(g.Bound()) {
					return nil
				}
				switch v := orb.Clone(g).(type) {
				case orb.MultiPoint:
					if m := clip.MultiPoint(sb, v); len(m) == 1 {
						want = m[0]
					} else if m != nil {
						want = m
					}
				case orb.LineString:
					if m := clip.LineString(sb, v); len(m) == 1 {
						want = m[0]
					} else if len(m) > 1 {
						want = m
					}
				case orb.MultiLineString:
					if m := clip.MultiLineString(sb, v); len(m) == 1 {
						want = m[0]
					} else if m != nil {
						want = m
					}
				case orb.Ring:
					if m := clip.Ring(sb, v); m != nil {
						want = m
					}
				case orb.Polygon:
					if m := clip.Polygon(sb, v); m != nil {
						want = m
					}
				case orb.MultiPolygon:
					if m := clip.MultiPolygon(sb, v); len(m) == 1 {
						want = m[0]
					} else if m != nil {
						want = m
					}
				case orb.Collection:
					if m := clip.Collection(sb, v); len(m) == 1 {
						want = m[0]
					} else if m != nil {
						want = m
					}
				case orb.Bound:
					if m := clip.Bound(sb, v); !m.IsEmpty() {
						want = m
					}
				case orb.Point:
					want = v
				}
				return nil
			})
			_, p2 := try(func() interface{} { got = clip.Geometry(sb, orb.Clone(g)); return nil })
			if p1 != "" || p2 != "" {
				continue // panics are reported above
			}
			if refgeom.Struct(got) != refgeom.Struct(want) {
				c.Failf("typed-vs-generic", "clip.Geometry(%v, %s) = %v, the typed function gives %v", sb, desc, got, want)
			}
		}
		// typed vs generic for projections: Geometry(g, f) is what the function for g's kind returns, and both are
		// the coordinate-wise image of g (structure, nil-ness of slices and vertex order kept)
		{
			f := func(p orb.Point) orb.Point { return orb.Point{p[0]*2 + 1, 3 - p[1]} }
			var want, got orb.Geometry
			_, p1 := try(func() interface{} {
				switch v := orb.Clone(g).(type) {
				case orb.Point:
					want = project.Point(v, f)
				case orb.MultiPoint:
					want = project.MultiPoint(v, f)
				case orb.LineString:
					want = project.LineString(v, f)
				case orb.MultiLineString:
					want = project.MultiLineString(v, f)
				case orb.Ring:
					want = project.Ring(v, f)
				case orb.Polygon:
					want = project.Polygon(v, f)
				case orb.MultiPolygon:
					want = project.MultiPolygon(v, f)
				case orb.Collection:
					want = project.Collection(v, f)
				case orb.Bound:
					want = project.Bound(v, f)
				}
				return nil
			})
			_, p2 := try(func() interface{} { got = project.Geometry(orb.Clone(g), f); return nil })
			if p1 == "" && p2 == "" && g != nil && orb.Clone(g) != nil {
				if refgeom.Struct(got) != refgeom.Struct(want) {
					c.Failf("typed-vs-generic", "project.Geometry(%s) = %v, the typed function gives %v", desc, got, want)
				}
				if _, isBound := g.(orb.Bound); !isBound && !hasBound(g) && refgeom.Struct(got) != refgeom.Struct(refgeom.Map(g, f)) {
					c.Failf("typed-vs-generic", "project.Geometry(%s) = %v, the coordinate-wise image is %v", desc, got, refgeom.Map(g, f))
				}
			}
		}
		// typed vs generic for tile covers: Geometry(g) is what the function for g's kind returns (degenerate
		// one-vertex lines and rings included), and a collection's cover is the union of its members' covers
		for _, z := range []maptile.Zoom{0, 3, 12} {
			var typedCover func(m orb.Geometry) (maptile.Set, error, bool)
			typedCover = func(m orb.Geometry) (maptile.Set, error, bool) {
				switch v := m.(type) {
				case orb.Point:
					return tilecover.Point(v, z), nil, true
				case orb.MultiPoint:
					return tilecover.MultiPoint(v, z), nil, true
				case orb.LineString:
					return tilecover.LineString(v, z), nil, true
				case orb.MultiLineString:
					return tilecover.MultiLineString(v, z), nil, true
				case orb.Ring:
					s, err := tilecover.Ring(v, z)
					return s, err, true
				case orb.Polygon:
					s, err := tilecover.Polygon(v, z)
					return s, err, true
				case orb.MultiPolygon:
					s, err := tilecover.MultiPolygon(v, z)
					return s, err, true
				case orb.Bound:
					return tilecover.Bound(v, z), nil, true
				case orb.Collection:
					u := maptile.Set{}
					for _, mm := range v {
						s, err, ok := typedCover(mm)
						if !ok || err != nil {
							return nil, err, ok
						}
						u.Merge(s)
					}
					return u, nil, true
				}
				return nil, nil, false
			}
			var want, got maptile.Set
			var werr, gerr error
			ok := false
			_, p1 := try(func() interface{} { want, werr, ok = typedCover(g); return nil })
			_, p2 := try(func() interface{} { got, gerr = tilecover.Geometry(g, z); return nil })
			if p1 != "" || p2 != "" || !ok {
				continue
			}
			same := (werr == nil) == (gerr == nil)
			if same && werr == nil {
				n := 0
				for t, v := range got {
					if v {
						n++
						if !want[t] {
							same = false
						}
					}
				}
				wn := 0
				for _, v := range want {
					if v {
						wn++
					}
				}
				same = same && n == wn
			}
			if !same {
				c.Failf("typed-vs-generic", "tilecover.Geometry(%s, %d) = %d tiles / %v, the kind-specific functions give %d tiles / %v", desc, z, len(got), gerr, len(want), werr)
				break
			}
		}
		// typed vs generic for the measures
		switch v := g.(type) {
		case orb.Polygon:
			if a, p := try(func() interface{} { return geo.Area(v) }); p == "" && len(v) > 0 {
				want := math.Abs(geo.SignedArea(v[0]))
				for _, h := range v[1:] {
					want -= math.Abs(geo.SignedArea(h))
				}
				if math.Abs(a.(float64)-want) > 1e-6*math.Max(1, math.Abs(want)) {
					c.Failf("typed-vs-generic", "geo.Area(%s) = %v, outer minus holes = %v", desc, a, want)
				}
			}
		case orb.Bound:
			// a bound measures as its boundary ring / polygon, in every metric
			for _, m := range []struct {
				name string
				f    func(orb.Geometry) float64
				as   orb.Geometry
			}{
				{"planar.Length", planar.Length, v.ToRing()}, {"geo.Length", geo.Length, v.ToRing()}, {"geo.LengthHaversine", geo.LengthHaversine, v.ToRing()},
				{"geo.Area", geo.Area, v.ToPolygon()}, {"planar.Area", planar.Area, v.ToRing()}, // the planar area of a bound is the signed area of its ring
			} {
				if m.name == "geo.Area" && v.IsEmpty() {
					continue // an inverted box has no defined geodesic area
				}
				m := m
				got, p1 := try(func() interface{} { return m.f(v) })
				want, p2 := try(func() interface{} { return m.f(m.as) })
				if p1 == "" && p2 == "" {
					g, w := got.(float64), want.(float64)
					if math.Abs(g-w) > 1e-9*math.Max(math.Abs(g), math.Abs(w)) {
						c.Failf("typed-vs-generic", "%s(%s) = %v, its boundary %T measures %v", m.name, desc, g, m.as, w)
					}
				}
			}
			if a, p := try(func() interface{} { return planar.Area(v) }); p == "" && !v.IsEmpty() {
				if want := (v.Max[0] - v.Min[0]) * (v.Max[1] - v.Min[1]); a.(float64) != want {
					c.Failf("typed-vs-generic", "planar.Area(%s) = %v want %v", desc, a, want)
				}
			}
		}
		if _, isCol := g.(orb.Collection); isCol || degenerate(g) != "" {
			c.NonTrivial()
		}
	}
	r.Explore("dynamic-noncollection", fmt.Sprintf("%d registered entry points x 8 rotations of the coordinate list x full product of the 8 non-collection kinds (k=2,m=2) and the nil interface", len(reg)), mc.Opts{MaxDev: -1, NewLocal: newLocal, StopAfter: 1 << 30}, func(c *mc.Ctx) {
		l := c.Local().(*loc)
		l.reset(c.Choose(len(coords) / 2)) // every rotation of the coordinate list: every pair of points at every slot
		k := c.Choose(gg.KCollection + 1)
		if k == gg.KCollection {
			check(c, nil)
			return
		}
		check(c, l.g.Kind(c, k, 0, true))
	})
	dev := ev.Pick(r, 6, 8)
	r.Explore("dynamic-collections", fmt.Sprintf("the same entry points x collections nested to depth 3 within %d deviations", dev), mc.Opts{MaxDev: dev, NewLocal: newLocal, StopAfter: 1 << 30}, func(c *mc.Ctx) {
		l := c.Local().(*loc)
		l.reset(c.Choose(len(coords) / 2))
		check(c, l.g.Kind(c, gg.KCollection, 0, true))
	})
	// rings of three and four vertices, closed and unclosed, in every container (the grammar above stops at two
	// vertices per list): this is where implicit closing happens, and with the windowed layout where a function
	// that closes a ring by appending writes into its neighbour
	ringMenu := []orb.Ring{
		{{0, 0}, {2, 0}, {2, 2}},
		{{0, 0}, {2, 0}, {2, 2}, {0, 2}, {0, 0}},
		{{0.5, 0.5}, {0.5, 1.5}, {1.5, 1.5}, {1.5, 0.5}},
		{{0.25, 0.25}, {1, 0.25}, {0.25, 1}, {0.25, 0.25}},
		{{0, 0}, {1, 0.1}, {2, 0}, {1, 2}, {0, 0}},       // one vertex within 0.5 of its chord: the 0.5-threshold simplifiers drop it
		{{0, 0}, {1, 0}, {2, 0}, {2, 1}, {2, 2}, {0, 0}}, // collinear vertices
	}
	r.Explore("ring-containers", fmt.Sprintf("every ordered pair of %d rings (3..5 vertices, closed and unclosed, two with vertices the simplifiers drop) x 6 container forms x the same entry points and checks", len(ringMenu)), mc.Opts{MaxDev: -1, NewLocal: newLocal, StopAfter: 1 << 30}, func(c *mc.Ctx) {
		a, b := ringMenu[c.Choose(len(ringMenu))].Clone(), ringMenu[c.Choose(len(ringMenu))].Clone()
		var g orb.Geometry
		switch c.Choose(6) {
		case 0:
			g = orb.Polygon{a, b}
		case 1:
			g = orb.MultiPolygon{{a}, {b}}
		case 2:
			g = orb.Collection{a, orb.Polygon{b}}
		case 3:
			g = orb.MultiLineString{orb.LineString(a), orb.LineString(b)}
		case 4:
			g = orb.Collection{orb.LineString(a), orb.MultiPoint(b)}
		case 5:
			g = orb.Collection{orb.MultiPolygon{{a, b}}, orb.Collection{b}}
		}
		check(c, g)
	})
	// bounds of every shape, alone and as collection members: ordered, degenerate, inverted on either axis, the
	// empty sentinel, the zero bound (the grammar above only builds ordered bounds)
	boundMenu := []orb.Bound{
		{Min: orb.Point{0, 0}, Max: orb.Point{2, 1}}, {Min: orb.Point{1, 1}, Max: orb.Point{1, 1}}, {Min: orb.Point{0, 1}, Max: orb.Point{2, 1}},
		{Min: orb.Point{4, 0}, Max: orb.Point{1, 2}}, {Min: orb.Point{0, 3}, Max: orb.Point{2, 1}}, {Min: orb.Point{2, 2}, Max: orb.Point{-1, -1}},
		orb.MultiPoint{}.Bound(), {},
	}
	r.Explore("bound-shapes", fmt.Sprintf("%d bounds (ordered, degenerate, inverted, empty sentinel, zero) alone, in a collection next to a polygon, and nested: every entry point and check", len(boundMenu)), mc.Opts{MaxDev: -1, NewLocal: newLocal, StopAfter: 1 << 30}, func(c *mc.Ctx) {
		b := boundMenu[c.Choose(len(boundMenu))]
		switch c.Choose(3) {
		case 0:
			check(c, b)
		case 1:
			check(c, orb.Collection{b, orb.Polygon{{{0, 0}, {2, 0}, {2, 2}, {0, 0}}}})
		case 2:
			check(c, orb.Collection{orb.Collection{b}, b})
		}
	})
	// nil members: a collection may hold nil geometries (orb.AllGeometries starts with one); they count for nothing,
	// wherever they stand in the list
	nilMenu := func() []orb.Collection { // fresh values for every execution: some entry points work in place
		return []orb.Collection{
			{orb.Point{1, 1}, nil}, {nil, orb.Point{1, 1}}, {nil, orb.Point{1, 1}, nil, orb.LineString{{0, 0}, {2, 2}}}, {nil}, {nil, nil},
			{orb.Collection{orb.Point{1, 1}, nil}, orb.Polygon{{{0, 0}, {2, 0}, {2, 2}, {0, 0}}}}, {orb.Polygon{{{0, 0}, {2, 0}, {2, 2}, {0, 0}}}, nil, orb.Collection{nil}},
		}
	}
	r.Explore("nil-members", fmt.Sprintf("%d collections with nil members (first, last, between, only, nested) x every registered entry point: no panic", len(nilMenu())), mc.Opts{MaxDev: -1}, func(c *mc.Ctx) {
		menu := nilMenu()
		g := menu[c.Choose(len(menu))]
		e := reg[c.Choose(len(reg))]
		arg := g
		if _, pan := try(func() interface{} { return e.call(arg) }); pan != "" {
			c.Failf("panic:"+short(e.name)+":nil-member", "%s(%v) panicked: %s", short(e.name), nilMenu()[c.Trail()[0]], pan)
		}
		c.NonTrivial()
	})
	// the one entry point that takes two geometries: every ordered pair of kinds (three kinds - ring, polygon, bound -
	// share the GeoJSON type "Polygon", so a dispatch on that name alone meets a value of another Go type)
	sq := orb.Ring{{0, 0}, {2, 0}, {2, 2}, {0, 2}, {0, 0}}
	pairMenu := []orb.Geometry{
		nil,
		orb.Point{0, 0}, orb.Point{2, 2},
		orb.MultiPoint{{0, 0}, {2, 2}}, orb.MultiPoint{}, orb.MultiPoint(nil),
		orb.LineString(sq), orb.LineString{}, orb.LineString(nil),
		orb.MultiLineString{orb.LineString(sq)}, orb.MultiLineString{}, orb.MultiLineString(nil),
		sq, orb.Ring{}, orb.Ring(nil),
		orb.Polygon{sq}, orb.Polygon{}, orb.Polygon(nil),
		orb.MultiPolygon{{sq}}, orb.MultiPolygon{}, orb.MultiPolygon(nil),
		orb.Collection{sq}, orb.Collection{orb.Polygon{sq}}, orb.Collection{}, orb.Collection(nil),
		sq.Bound(), orb.Bound{},
	}
	r.Explore("kind-pairs", fmt.Sprintf("every ordered pair of %d values (nil interface; each of the 9 kinds filled, empty and as a typed nil; the same square as line, ring, polygon, bound): orb.Equal returns, agrees with structural equality, also for the pair wrapped in collections", len(pairMenu)), mc.Opts{MaxDev: -1}, func(c *mc.Ctx) {
		a, b := pairMenu[c.Choose(len(pairMenu))], pairMenu[c.Choose(len(pairMenu))]
		desc := fmt.Sprintf("%T %v, %T %v", a, a, b, b)
		for wrap := 0; wrap < 3; wrap++ {
			x, y := a, b
			switch wrap {
			case 1:
				x, y = orb.Collection{a}, orb.Collection{b}
			case 2:
				x, y = orb.Collection{orb.Point{1, 1}, orb.Collection{a}}, orb.Collection{orb.Point{1, 1}, orb.Collection{b}}
			}
			res, pan := try(func() interface{} { return orb.Equal(x, y) })
			if pan != "" {
				c.Failf("panic:.Equal:kind-pair", "orb.Equal(%s) (wrapping %d) panicked: %s", desc, wrap, pan)
				continue
			}
			if a == nil || b == nil {
				continue // the nil interface has no kind; only termination is required
			}
			if want := refgeom.Equal(x, y); res.(bool) != want {
				c.Failf("equal-kind-pair", "orb.Equal(%s) (wrapping %d) = %v, structural equality is %v", desc, wrap, res, want)
			}
		}
		if a != nil && b != nil && fmt.Sprintf("%T", a) != fmt.Sprintf("%T", b) {
			c.NonTrivial()
		}
	})
	// multi-geometries as the combination of their members at map scale (the grammar above has coordinates in
	// [-2,3], where every tile cover is a single tile): members that are disjoint, touching, overlapping, nested
	members := []orb.Polygon{
		{{{-40, -40}, {40, -40}, {40, 40}, {-40, 40}, {-40, -40}}},
		{{{-10, -10}, {10, -10}, {10, 10}, {-10, 10}, {-10, -10}}},
		{{{0, 0}, {60, 0}, {60, 60}, {0, 60}, {0, 0}}},
		{{{50, -60}, {80, -60}, {65, -20}, {50, -60}}},
		{{{-40, -40}, {40, -40}, {40, 40}, {-40, 40}, {-40, -40}}, {{-10, -10}, {-10, 10}, {10, 10}, {10, -10}, {-10, -10}}},
		{{{40, -40}, {70, -40}, {70, 40}, {40, 40}, {40, -40}}},
	}
	r.Explore("map-scale-combination", fmt.Sprintf("every ordered pair and triple of %d map-scale polygons x zoom 0..7: tilecover of the multi-polygon, of the collection of polygons, of the multi-line-string / collection of their rings and of the multi-point / collection of their vertices equals the union of the typed member covers; geo.Area, geo.Length and planar.Area sum over the members", len(members)), mc.Opts{MaxDev: -1}, func(c *mc.Ctx) {
		z := maptile.Zoom(c.Choose(8))
		n := 2 + c.Choose(2)
		var mp orb.MultiPolygon
		var mls orb.MultiLineString
		var pts orb.MultiPoint
		var colP, colL, colPt orb.Collection
		wantP, wantL, wantPt := maptile.Set{}, maptile.Set{}, maptile.Set{}
		area, parea, length := 0.0, 0.0, 0.0
		for i := 0; i < n; i++ {
			p := members[c.Choose(len(members))]
			s, err := tilecover.Polygon(p, z)
			if err != nil {
				c.Failf("map-scale-combination", "tilecover.Polygon(%v,%d): %v", p, z, err)
				return
			}
			wantP.Merge(s)
			mp = append(mp, p)
			colP = append(colP, p)
			area += geo.Area(p)
			parea += planar.Area(p)
			length += geo.Length(p)
			for _, ring := range p {
				ls := orb.LineString(ring)
				wantL.Merge(tilecover.LineString(ls, z))
				mls = append(mls, ls)
				colL = append(colL, ls)
				for _, v := range ring {
					wantPt.Merge(tilecover.Point(v, z))
					pts = append(pts, v)
					colPt = append(colPt, v)
				}
			}
		}
		same := func(a, want maptile.Set) bool {
			k := 0
			for t, v := range a {
				if v {
					k++
					if !want[t] {
						return false
					}
				}
			}
			return k == len(want)
		}
		type tc struct {
			what string
			g    orb.Geometry
			want maptile.Set
		}
		for _, t := range []tc{{"multi-polygon", mp, wantP}, {"collection of polygons", colP, wantP}, {"collection holding the multi-polygon", orb.Collection{mp}, wantP},
			{"multi-line-string", mls, wantL}, {"collection of line strings", colL, wantL}, {"multi-point", pts, wantPt}, {"collection of points", colPt, wantPt}} {
			got, err := tilecover.Geometry(t.g, z)
			if err != nil || !same(got, t.want) {
				c.Failf("collection-combination", "tilecover.Geometry of the %s at zoom %d has %d tiles (err %v), the union of the typed member covers has %d | %v", t.what, z, len(got), err, len(t.want), t.g)
				return
			}
		}
		if got, err := tilecover.MultiPolygon(mp, z); err != nil || !same(got, wantP) {
			c.Failf("collection-combination", "tilecover.MultiPolygon at zoom %d has %d tiles (err %v), the union of the tilecover.Polygon member covers has %d | %v", z, len(got), err, len(wantP), mp)
		}
		close := func(a, b float64) bool { return math.Abs(a-b) <= 1e-9*math.Max(math.Abs(a), math.Abs(b)) }
		for _, g := range []orb.Geometry{mp, colP, orb.Collection{mp}} {
			if a := geo.Area(g); !close(a, area) {
				c.Failf("collection-combination", "geo.Area(%v) = %v, sum over members %v", g, a, area)
			}
			if a := planar.Area(g); !close(a, parea) {
				c.Failf("collection-combination", "planar.Area(%v) = %v, sum over members %v", g, a, parea)
			}
			if l := geo.Length(g); !close(l, length) {
				c.Failf("collection-combination", "geo.Length(%v) = %v, sum over members %v", g, l, length)
			}
		}
		c.NonTrivial()
	})
	_ = mvt.DefaultExtent
	r.Sample(map[string]interface{}{"input": "MultiPolygon{{}, {{{0,0},{2,0},{2,2}}}} (a zero-ring polygon inside a multi-polygon)", "entry_points": len(reg)})
	r.Finish()
}
