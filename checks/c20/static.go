package main

import (
	"fmt"
	"go/ast"
	"go/importer"
	"go/parser"
	"go/token"
	"go/types"
	"os"
	"path/filepath"
	"sort"
	"strings"
	"sync"
)

var kinds = []string{"Point", "MultiPoint", "LineString", "MultiLineString", "Ring", "Polygon", "MultiPolygon", "Collection", "Bound"}

type site struct {
	Pos    string
	Func   string
	Matrix map[string]string // kind (or "nil") -> outcome
}

type exportedFn struct {
	Pkg, Name string
}

var repoRoot = func() string {
	if r := os.Getenv("VERIF_REPO"); r != "" {
		return r
	}
	return "/repo"
}()

func pkgDirs(root string) []string {
	var dirs []string
	filepath.Walk(root, func(p string, info os.FileInfo, err error) error {
		if err != nil || !info.IsDir() {
			return nil
		}
		if n := info.Name(); strings.HasPrefix(n, ".") || n == "testdata" || n == "vectortile" {
			return filepath.SkipDir
		}
		ents, _ := os.ReadDir(p)
		for _, e := range ents {
			if strings.HasSuffix(e.Name(), ".go") && !strings.HasSuffix(e.Name(), "_test.go") {
				dirs = append(dirs, p)
				break
			}
		}
		return nil
	})
	sort.Strings(dirs)
	return dirs
}

func isPanic(s ast.Stmt) bool {
	es, ok := s.(*ast.ExprStmt)
	if !ok {
		return false
	}
	call, ok := es.X.(*ast.CallExpr)
	if !ok {
		return false
	}
	id, ok := call.Fun.(*ast.Ident)
	return ok && id.Name == "panic"
}

// analyse one package: every type switch over a value of static type orb.Geometry, and every
// exported function (or method) with an orb.Geometry parameter.
func analysePkg(dir string) (sites []site, fns []exportedFn, err error) {
	fset := token.NewFileSet()
	pkgs, perr := parser.ParseDir(fset, dir, func(fi os.FileInfo) bool { return !strings.HasSuffix(fi.Name(), "_test.go") }, 0)
	if perr != nil {
		return nil, nil, perr
	}
	rel, _ := filepath.Rel(repoRoot, dir)
	path := "github.com/paulmach/orb"
	if rel != "." {
		path += "/" + rel
	}
	for _, pkg := range pkgs {
		var files []*ast.File
		var names []string
		for n := range pkg.Files {
			names = append(names, n)
		}
		sort.Strings(names)
		for _, n := range names {
			files = append(files, pkg.Files[n])
		}
		info := &types.Info{Types: map[ast.Expr]types.TypeAndValue{}, Defs: map[*ast.Ident]types.Object{}}
		conf := types.Config{Importer: importer.ForCompiler(fset, "source", nil), Error: func(error) {}}
		tp, cerr := conf.Check(path, fset, files, info)
		if cerr != nil && tp == nil {
			return nil, nil, cerr
		}
		isGeom := func(t types.Type) bool {
			n, ok := t.(*types.Named)
			return ok && n.Obj().Name() == "Geometry" && n.Obj().Pkg() != nil && n.Obj().Pkg().Path() == "github.com/paulmach/orb"
		}
		kindOf := func(t types.Type) string {
			n, ok := t.(*types.Named)
			if !ok || n.Obj().Pkg() == nil || n.Obj().Pkg().Path() != "github.com/paulmach/orb" {
				return ""
			}
			return n.Obj().Name()
		}
		for _, f := range files {
			// exported functions with a Geometry parameter
			for _, d := range f.Decls {
				fd, ok := d.(*ast.FuncDecl)
				if !ok || !fd.Name.IsExported() || strings.Contains(path, "/internal/") {
					continue
				}
				if fd.Recv != nil && len(fd.Recv.List) > 0 {
					rt := info.Types[fd.Recv.List[0].Type].Type
					if p, ok := rt.(*types.Pointer); ok {
						rt = p.Elem()
					}
					if n, ok := rt.(*types.Named); !ok || !n.Obj().Exported() {
						continue
					}
				}
				for _, p := range fd.Type.Params.List {
					if tv, ok := info.Types[p.Type]; ok && isGeom(tv.Type) {
						name := fd.Name.Name
						if fd.Recv != nil && len(fd.Recv.List) > 0 {
							name = types.ExprString(fd.Recv.List[0].Type) + "." + name
						}
						fns = append(fns, exportedFn{path, name})
						break
					}
				}
			}
			// type switches
			var fnName string
			ast.Inspect(f, func(n ast.Node) bool {
				if fd, ok := n.(*ast.FuncDecl); ok {
					fnName = fd.Name.Name
				}
				blk, ok := n.(*ast.BlockStmt)
				var list []ast.Stmt
				if ok {
					list = blk.List
				} else if cc, ok := n.(*ast.CaseClause); ok {
					list = cc.Body
				} else {
					return true
				}
				for i, st := range list {
					ts, ok := st.(*ast.TypeSwitchStmt)
					if !ok {
						continue
					}
					var operand ast.Expr
					switch a := ts.Assign.(type) {
					case *ast.AssignStmt:
						operand = a.Rhs[0].(*ast.TypeAssertExpr).X
					case *ast.ExprStmt:
						operand = a.X.(*ast.TypeAssertExpr).X
					}
					tv, ok := info.Types[operand]
					if !ok || !isGeom(tv.Type) {
						continue
					}
					s := site{Pos: fmt.Sprintf("%s:%d", strings.TrimPrefix(fset.Position(ts.Pos()).Filename, repoRoot+"/"), fset.Position(ts.Pos()).Line), Func: fnName, Matrix: map[string]string{}}
					// is the nil interface handled before the switch (if x == nil { return })?
					nilGuard := false
					for _, prev := range list[:i] {
						if ifs, ok := prev.(*ast.IfStmt); ok {
							var hasNilDisjunct func(e ast.Expr) bool
							hasNilDisjunct = func(e ast.Expr) bool {
								be, ok := e.(*ast.BinaryExpr)
								if !ok {
									return false
								}
								if be.Op == token.LOR {
									return hasNilDisjunct(be.X) || hasNilDisjunct(be.Y)
								}
								id, ok := be.Y.(*ast.Ident)
								return be.Op == token.EQL && ok && id.Name == "nil" && types.ExprString(be.X) == types.ExprString(operand)
							}
							if hasNilDisjunct(ifs.Cond) && len(ifs.Body.List) > 0 {
								if _, ok := ifs.Body.List[len(ifs.Body.List)-1].(*ast.ReturnStmt); ok {
									nilGuard = true
								}
							}
						}
					}
					// guards the analysis understands (everything else is taken at face value):
					//  - `if x.Dimensions() != 2 { return ... }` before the switch: kinds of dimension 0 and 1 never reach it
					//  - an earlier type switch over the same operand whose clause for a kind reassigns the operand
					//    (x = orb.Polygon{g}): that kind reaches this switch as another kind
					dimGuard := false
					reassigned := map[string]bool{}
					for _, prev := range list[:i] {
						if ifs, ok := prev.(*ast.IfStmt); ok {
							if be, ok := ifs.Cond.(*ast.BinaryExpr); ok && be.Op == token.NEQ && types.ExprString(be.X) == types.ExprString(operand)+".Dimensions()" && types.ExprString(be.Y) == "2" && len(ifs.Body.List) > 0 {
								if _, ok := ifs.Body.List[len(ifs.Body.List)-1].(*ast.ReturnStmt); ok {
									dimGuard = true
								}
							}
						}
						if pts, ok := prev.(*ast.TypeSwitchStmt); ok {
							var pop ast.Expr
							switch a := pts.Assign.(type) {
							case *ast.AssignStmt:
								pop = a.Rhs[0].(*ast.TypeAssertExpr).X
							case *ast.ExprStmt:
								pop = a.X.(*ast.TypeAssertExpr).X
							}
							if types.ExprString(pop) != types.ExprString(operand) {
								continue
							}
							for _, c := range pts.Body.List {
								cc := c.(*ast.CaseClause)
								assigns := false
								for _, bs := range cc.Body {
									if as, ok := bs.(*ast.AssignStmt); ok && as.Tok == token.ASSIGN && len(as.Lhs) == 1 && types.ExprString(as.Lhs[0]) == types.ExprString(operand) {
										assigns = true
									}
								}
								if assigns {
									for _, e := range cc.List {
										if tv, ok := info.Types[e]; ok {
											if k := kindOf(tv.Type); k != "" {
												reassigned[k] = true
											}
										}
									}
								}
							}
						}
					}
					exportedFn := len(fnName) > 0 && fnName[0] >= 'A' && fnName[0] <= 'Z'
					after := "falls-through"
					if i+1 < len(list) && isPanic(list[i+1]) {
						after = "PANIC(after switch)"
					}
					var deflt *ast.CaseClause
					clauseOf := map[string]*ast.CaseClause{}
					for _, c := range ts.Body.List {
						cc := c.(*ast.CaseClause)
						if cc.List == nil {
							deflt = cc
							continue
						}
						for _, e := range cc.List {
							if id, ok := e.(*ast.Ident); ok && id.Name == "nil" {
								clauseOf["nil"] = cc
								continue
							}
							if tv, ok := info.Types[e]; ok {
								if k := kindOf(tv.Type); k != "" {
									clauseOf[k] = cc
								}
							}
						}
					}
					outcome := func(cc *ast.CaseClause) string {
						if len(cc.Body) > 0 && isPanic(cc.Body[len(cc.Body)-1]) {
							return "PANIC(in clause)"
						}
						// a clause that does not return continues after the switch
						if len(cc.Body) > 0 {
							if _, ok := cc.Body[len(cc.Body)-1].(*ast.ReturnStmt); ok {
								return "handled"
							}
						}
						if after == "PANIC(after switch)" {
							// the clause may still return on all its own paths; only flag clauses that are empty
							if len(cc.Body) == 0 {
								return after
							}
						}
						return "handled"
					}
					lowDim := map[string]bool{"Point": true, "MultiPoint": true, "LineString": true, "MultiLineString": true}
					for _, k := range append([]string{"nil"}, kinds...) {
						switch {
						case k == "nil" && nilGuard:
							s.Matrix[k] = "guarded-before"
						case k == "nil" && !exportedFn:
							s.Matrix[k] = "callers-duty(unexported)"
						case dimGuard && lowDim[k]:
							s.Matrix[k] = "guarded-before(dimension)"
						case reassigned[k] && clauseOf[k] == nil:
							s.Matrix[k] = "converted-before"
						case clauseOf[k] != nil:
							s.Matrix[k] = outcome(clauseOf[k])
						case deflt != nil:
							s.Matrix[k] = "default:" + outcome(deflt)
						default:
							s.Matrix[k] = after
						}
					}
					sites = append(sites, s)
				}
				return true
			})
		}
	}
	return
}

func analyseRepo() ([]site, []exportedFn, error) {
	os.Chdir(repoRoot)
	dirs := pkgDirs(repoRoot)
	var mu sync.Mutex
	var wg sync.WaitGroup
	var sites []site
	var fns []exportedFn
	var firstErr error
	sem := make(chan struct{}, 16)
	for _, d := range dirs {
		wg.Add(1)
		go func(d string) {
			defer wg.Done()
			sem <- struct{}{}
			defer func() { <-sem }()
			s, f, err := analysePkg(d)
			mu.Lock()
			defer mu.Unlock()
			if err != nil && firstErr == nil {
				firstErr = fmt.Errorf("%s: %v", d, err)
			}
			sites = append(sites, s...)
			fns = append(fns, f...)
		}(d)
	}
	wg.Wait()
	sort.Slice(sites, func(i, j int) bool { return sites[i].Pos < sites[j].Pos })
	sort.Slice(fns, func(i, j int) bool { return fns[i].Pkg+fns[i].Name < fns[j].Pkg+fns[j].Name })
	return sites, fns, firstErr
}
