// C08: ring / polygon clipping keeps exactly the region inside the box.
package main

import (
	"fmt"
	"math"

	"github.com/paulmach/orb"
	"github.com/paulmach/orb/clip"
	"github.com/paulmach/orb/encoding/mvt"
	"github.com/paulmach/orb/geojson"

	"verif/lib/ev"
	"verif/lib/exact"
	"verif/lib/mc"
	"verif/lib/refgeom"
)

const (
	G       = 5   // 5x5 grid, coordinates 0..4
	S       = 154 // query points are ((77i+22)/154, (77j+14)/154): never on a line through two half-grid points
	padNear = 1e-9
)

// pad is the tolerance for "inside the box"; shift, when set, moves every problem of a part far from the origin.
var (
	pad   = padNear
	shift orb.Point
)

type qpt struct {
	f orb.Point
	e exact.IP // scaled by S
}

var qpts []qpt

func init() {
	for i := 0; i < 9; i++ {
		for j := 0; j < 9; j++ {
			x, y := int64(77*i+22), int64(77*j+14)
			qpts = append(qpts, qpt{orb.Point{float64(x) / S, float64(y) / S}, exact.IP{x, y}})
		}
	}
}

func gp(k int) orb.Point { return orb.Point{float64(k % G), float64(k / G)} }

func scaled(r orb.Ring) []exact.IP {
	out := make([]exact.IP, len(r))
	for i, p := range r {
		out[i] = exact.IP{int64(p[0] * S), int64(p[1] * S)}
	}
	return out
}

// float even-odd for the clipped ring (query points are >= 1e-3 from every edge)
func inFloat(r orb.Ring, p orb.Point) bool {
	in := false
	n := len(r)
	for i := 0; i < n; i++ {
		a, b := r[i], r[(i+1)%n]
		if (a[1] > p[1]) != (b[1] > p[1]) {
			x := a[0] + (p[1]-a[1])*(b[0]-a[0])/(b[1]-a[1])
			if p[0] < x {
				in = !in
			}
		}
	}
	return in
}

func area(r orb.Ring) float64 {
	s := 0.0
	n := len(r)
	for i := 0; i < n; i++ {
		a, b := r[i], r[(i+1)%n]
		s += a[0]*b[1] - b[0]*a[1]
	}
	return s / 2
}

func bitsEq(a, b orb.Ring) bool {
	if len(a) != len(b) {
		return false
	}
	for i := range a {
		if math.Float64bits(a[i][0]) != math.Float64bits(b[i][0]) || math.Float64bits(a[i][1]) != math.Float64bits(b[i][1]) {
			return false
		}
	}
	return true
}

func strictlyIn(b orb.Bound, p orb.Point) bool {
	return p[0] > b.Min[0] && p[0] < b.Max[0] && p[1] > b.Min[1] && p[1] < b.Max[1]
}

// checkRing validates clip.Ring(box, ring) for a closed ring. Returns the result.
func checkRing(c *mc.Ctx, box orb.Bound, ring orb.Ring, what string) orb.Ring {
	got := clip.Ring(box, ring.Clone())
	if shift != (orb.Point{}) {
		// the same problem translated far from the origin (all inputs stay exact in float64): clip there,
		// translate the result back, and judge it with the looser tolerance `pad`
		sb := orb.Bound{Min: orb.Point{box.Min[0] + shift[0], box.Min[1] + shift[1]}, Max: orb.Point{box.Max[0] + shift[0], box.Max[1] + shift[1]}}
		sr := ring.Clone()
		for i := range sr {
			sr[i] = orb.Point{sr[i][0] + shift[0], sr[i][1] + shift[1]}
		}
		got = clip.Ring(sb, sr)
		for i := range got {
			got[i] = orb.Point{got[i][0] - shift[0], got[i][1] - shift[1]}
		}
	}
	desc := func() string { return fmt.Sprintf("%s box=%v ring=%v shift=%v got=%v", what, box, ring, shift, got) }
	if g2 := clip.Ring(box, orb.Ring(refgeom.Spare(ring))); shift == (orb.Point{}) && !bitsEq(g2, got) {
		c.Failf("layout-dependent", "the ring with spare capacity behind it clips to %v | %s", g2, desc())
	}
	// the same problem scaled by a power of two (exact in float64) must clip to the bit-for-bit scaled ring
	if shift == (orb.Point{}) {
		for _, k := range []float64{1024, 1.0 / (1 << 40)} {
			if gs := clip.Ring(refgeom.ScaleBound(box, k), refgeom.Scale(ring, k).(orb.Ring)); !refgeom.Equal(gs, refgeom.Scale(got, k)) {
				c.Failf("scaling", "scaled by %v the ring clips to %v | %s", k, gs, desc())
			}
		}
	}
	if got != nil && len(got) == 0 {
		c.Failf("empty-not-nil", "empty result must be nil | %s", desc())
	}
	for _, p := range got {
		if p[0] < box.Min[0]-pad || p[0] > box.Max[0]+pad || p[1] < box.Min[1]-pad || p[1] > box.Max[1]+pad || p[0] != p[0] || p[1] != p[1] {
			c.Failf("vertex-outside", "vertex %v outside the box | %s", p, desc())
			break
		}
	}
	if len(got) > 0 && got[0] != got[len(got)-1] {
		c.Failf("not-closed", "clipped ring is not closed | %s", desc())
	}
	ex := scaled(ring)
	for _, q := range qpts {
		if !strictlyIn(box, q.f) {
			continue
		}
		in, _ := exact.InRingI(ex, q.e)
		if g := inFloat(got, q.f); g != in {
			c.Failf("region", "point %v: in clipped ring = %v, in original ring = %v | %s", q.f, g, in, desc())
			break
		}
	}
	// wholly inside: unchanged; bound disjoint: nil
	inside, rb := true, ring.Bound()
	for _, p := range ring {
		if !box.Contains(p) {
			inside = false
		}
	}
	if inside && shift == (orb.Point{}) && !bitsEq(got, ring) {
		c.Failf("inside-unchanged", "ring wholly inside must come back unchanged | %s", desc())
	}
	if !box.Intersects(rb) && got != nil {
		c.Failf("disjoint-not-nil", "ring whose bound misses the box must yield nil | %s", desc())
	}
	return got
}

func halves(lo, hi float64) []float64 {
	var out []float64
	for v := lo + 0.5; v < hi; v += 0.5 {
		out = append(out, v)
	}
	return out
}

func checkSplits(c *mc.Ctx, box orb.Bound, ring orb.Ring, whole orb.Ring) {
	aw := area(whole)
	for _, x := range halves(box.Min[0], box.Max[0]) {
		l := clip.Ring(orb.Bound{Min: box.Min, Max: orb.Point{x, box.Max[1]}}, ring.Clone())
		r := clip.Ring(orb.Bound{Min: orb.Point{x, box.Min[1]}, Max: box.Max}, ring.Clone())
		if d := area(l) + area(r) - aw; math.Abs(d) > 1e-9 {
			c.Failf("additivity", "signed area %v != %v + %v for the vertical split at x=%v | box=%v ring=%v", aw, area(l), area(r), x, box, ring)
			return
		}
	}
	for _, y := range halves(box.Min[1], box.Max[1]) {
		l := clip.Ring(orb.Bound{Min: box.Min, Max: orb.Point{box.Max[0], y}}, ring.Clone())
		r := clip.Ring(orb.Bound{Min: orb.Point{box.Min[0], y}, Max: box.Max}, ring.Clone())
		if d := area(l) + area(r) - aw; math.Abs(d) > 1e-9 {
			c.Failf("additivity", "signed area %v != %v + %v for the horizontal split at y=%v | box=%v ring=%v", aw, area(l), area(r), y, box, ring)
			return
		}
	}
}

func main() {
	r := ev.New("C08", "exploration")
	r.Rule = "every closed vertex list of the stated lengths on the 5x5 integer grid (convex, concave, self-touching, self-intersecting, degenerate) against boxes with integer and half-integer edges; an execution is one (box, ring); non-trivial = the ring has non-zero area, some vertex inside and some outside the box and the clip is non-empty"
	r.Assume = []string{
		"region equality is decided on the lattice of query points ((77i+22)/154,(77j+14)/154), which provably never lie on a line through two half-grid points (distance >= 1e-3 from every edge), with exact integer even-odd for the original ring",
		"'a ring disjoint from the box yields nothing' is enforced for rings whose bound misses the box; Sutherland-Hodgman may leave zero-area slivers on the box boundary for concave rings that wrap the box without meeting it, which the point-set clause cannot see; those are counted, not reported",
		"clip.Ring uses its input as scratch space (documented), so inputs are cloned",
	}
	var boxes []orb.Bound
	for _, b := range [][4]float64{{1, 1, 3, 3}, {1.5, 1.5, 2.5, 2.5}, {0, 0, 4, 4}, {0.5, 1, 3.5, 2}, {2, 0, 4, 2}, {0, 2, 2, 4}, {1, 0.5, 2, 3.5}, {2, 2, 3, 3}, {0.5, 0.5, 3.5, 3.5}, {1, 1, 4, 4}, {0, 1.5, 4, 2.5}, {1.5, 0, 2.5, 4}} {
		boxes = append(boxes, orb.Bound{Min: orb.Point{b[0], b[1]}, Max: orb.Point{b[2], b[3]}})
	}
	// general-position boxes (no lattice vertex on an edge, no lattice segment through a corner): square-ish, tall, wide
	general := []orb.Bound{
		{Min: orb.Point{1.3127, 1.1533}, Max: orb.Point{2.9181, 2.5419}},
		{Min: orb.Point{1.6127, 0.6533}, Max: orb.Point{2.4181, 3.4419}},
		{Min: orb.Point{0.6213, 1.6127}, Max: orb.Point{3.4719, 2.4181}},
	}
	if !r.Quick() {
		for x0 := 0; x0 < 4; x0++ {
			for x1 := x0 + 1; x1 <= 4; x1++ {
				for y0 := 0; y0 < 4; y0++ {
					for y1 := y0 + 1; y1 <= 4; y1++ {
						boxes = append(boxes, orb.Bound{Min: orb.Point{float64(x0), float64(y0)}, Max: orb.Point{float64(x1), float64(y1)}})
					}
				}
			}
		}
	}
	slivers := make([]int64, 64)
	ringPart := func(n int) func(c *mc.Ctx) {
		return func(c *mc.Ctx) {
			box := boxes[c.Choose(len(boxes))]
			ring := make(orb.Ring, 0, n+1)
			for i := 0; i < n; i++ {
				ring = append(ring, gp(c.Choose(G*G)))
			}
			ring = append(ring, ring[0])
			got := checkRing(c, box, ring, "clip.Ring")
			checkSplits(c, box, ring, got)
			// generic entry point
			g := clip.Geometry(box, ring.Clone())
			if (g == nil) != (got == nil && true) {
				// Geometry pre-tests the bound; a nil from the pre-test with a non-nil Ring result would be a contradiction
				if g == nil && got != nil && box.Intersects(ring.Bound()) || g != nil && got == nil {
					c.Failf("generic", "clip.Geometry = %v but clip.Ring = %v | box=%v ring=%v", g, got, box, ring)
				}
			}
			if g != nil {
				if gr, ok := g.(orb.Ring); !ok || !bitsEq(gr, got) {
					c.Failf("generic", "clip.Geometry = %v differs from clip.Ring = %v | box=%v ring=%v", g, got, box, ring)
				}
			}
			a := area(ring)
			in, out := false, false
			for _, p := range ring {
				if box.Contains(p) {
					in = true
				} else {
					out = true
				}
			}
			if a != 0 && in && out && got != nil {
				c.NonTrivial()
			}
			if got != nil && math.Abs(area(got)) < 1e-12 && a != 0 {
				any := false
				ex := scaled(ring)
				for _, q := range qpts {
					if strictlyIn(box, q.f) {
						if i, _ := exact.InRingI(ex, q.e); i {
							any = true
						}
					}
				}
				if !any {
					slivers[c.Worker]++
				}
			}
		}
	}
	for n := 3; n <= ev.Pick(r, 4, 5); n++ {
		if n == 5 {
			boxes = boxes[:12]
		}
		r.Explore(fmt.Sprintf("rings-%d", n), fmt.Sprintf("%d boxes x all 25^%d closed vertex lists; region on the query lattice, vertices in box, closure, area additivity over every half-grid split, inside-unchanged, disjoint-nil, generic entry point", len(boxes), n),
			mc.Opts{MaxDev: -1, Split: 2}, ringPart(n))
	}
	nGen := ev.Pick(r, 4, 5)
	saved := boxes
	boxes = general
	r.Explore("rings-general-boxes", fmt.Sprintf("3 general-position boxes (square-ish, tall, wide) x all 25^3..25^%d closed vertex lists: same oracle", nGen), mc.Opts{MaxDev: -1, Split: 2}, func(c *mc.Ctx) {
		ringPart(3 + c.Choose(nGen-2))(c)
	})
	boxes = saved
	// far from the origin: every 3-vertex list again, translated by (2^20, -2^20+3). Crossing formulas that are
	// algebraically the same but cancel (products of absolute coordinates) are off by ~1e-4 there; an honest
	// interpolation is off by a few ulps (2e-10), so the box test allows 1e-7
	shift, pad = orb.Point{1 << 20, -(1 << 20) + 3}, 1e-7
	savedBoxes := boxes
	boxes = append(append([]orb.Bound{}, boxes[:4]...), general[0])
	r.Explore("rings-far-from-origin", "5 boxes x all 25^3 closed vertex lists translated by (2^20, -2^20+3): vertices in the box within 1e-7, region on the query lattice, closure", mc.Opts{MaxDev: -1, Split: 2}, func(c *mc.Ctx) {
		box := boxes[c.Choose(len(boxes))]
		ring := make(orb.Ring, 0, 4)
		for i := 0; i < 3; i++ {
			ring = append(ring, gp(c.Choose(G*G)))
		}
		ring = append(ring, ring[0])
		if checkRing(c, box, ring, "clip.Ring far from the origin") != nil {
			c.NonTrivial()
		}
	})
	boxes, shift, pad = savedBoxes, orb.Point{}, padNear
	// polygons, multi-polygons, collections, mvt layer clip: composition over rings
	outerCat := [][]int{{0, 4, 24, 20}, {6, 8, 18, 16}, {0, 4, 24}, {20, 24, 4, 0}, {0, 2, 12, 14, 24, 20}}
	mkRing := func(idx []int) orb.Ring {
		var ring orb.Ring
		for _, k := range idx {
			ring = append(ring, gp(k))
		}
		return append(ring, ring[0])
	}
	r.Explore("polygons-collections", "catalogue outer x every 3-vertex hole x box: Polygon, MultiPolygon, Collection, Geometry and mvt Layer.Clip compose ring clips; polygon region = outer minus holes on the query lattice",
		mc.Opts{MaxDev: -1, Split: 2}, func(c *mc.Ctx) {
			box := boxes[c.Choose(12)]
			outer := mkRing(outerCat[c.Choose(len(outerCat))])
			hole := make(orb.Ring, 0, 4)
			for i := 0; i < 3; i++ {
				hole = append(hole, gp(c.Choose(G*G)))
			}
			hole = append(hole, hole[0])
			poly := orb.Polygon{outer, hole}
			ro, rh := clip.Ring(box, outer.Clone()), clip.Ring(box, hole.Clone())
			got := clip.Polygon(box, poly.Clone())
			var want orb.Polygon
			if ro != nil {
				want = orb.Polygon{ro}
				if rh != nil {
					want = append(want, rh)
				}
			}
			if !got.Equal(want) || (got == nil) != (want == nil) {
				c.Failf("polygon", "clip.Polygon(%v, %v) = %v, want %v", box, poly, got, want)
			}
			// region: in outer and not in hole (even-odd), at lattice points
			oex, hex := scaled(outer), scaled(hole)
			for _, q := range qpts {
				if !strictlyIn(box, q.f) {
					continue
				}
				io, _ := exact.InRingI(oex, q.e)
				ih, _ := exact.InRingI(hex, q.e)
				g := len(got) > 0 && inFloat(got[0], q.f)
				for _, h := range got[min(1, len(got)):] {
					if inFloat(h, q.f) {
						g = false
					}
				}
				if g != (io && !ih) {
					c.Failf("polygon-region", "point %v: in clipped polygon = %v, in original = %v | box=%v polygon=%v got=%v", q.f, g, io && !ih, box, poly, got)
					break
				}
			}
			second := orb.Polygon{mkRing([]int{0, 1, 6, 5})}
			mp := orb.MultiPolygon{poly, second}
			gm := clip.MultiPolygon(box, mp.Clone())
			var wm orb.MultiPolygon
			if want != nil {
				wm = append(wm, want)
			}
			if s := clip.Polygon(box, second.Clone()); s != nil {
				wm = append(wm, s)
			}
			if !gm.Equal(wm) {
				c.Failf("multipolygon", "clip.MultiPolygon(%v, %v) = %v, want %v", box, mp, gm, wm)
			}
			// generic: nil exactly when nothing remains; single member unwrapped
			gg := clip.Geometry(box, mp.Clone())
			switch {
			case !box.Intersects(mp.Bound()) || len(wm) == 0:
				if gg != nil {
					c.Failf("generic-nil", "clip.Geometry(%v, %v) = %v, want nil", box, mp, gg)
				}
			case len(wm) == 1:
				if !refgeom.Equal(gg, wm[0]) {
					c.Failf("generic", "clip.Geometry(%v, %v) = %v, want the single polygon %v", box, mp, gg, wm[0])
				}
			default:
				if !refgeom.Equal(gg, wm) {
					c.Failf("generic", "clip.Geometry(%v, %v) = %v, want %v", box, mp, gg, wm)
				}
			}
			// collection mixing dimensions + mvt layer
			pt := orb.Point{2, 2}
			ls := orb.LineString{{0, 0}, {4, 4}}
			col := orb.Collection{poly.Clone(), pt, ls.Clone(), orb.MultiPoint{{0, 0}, {2.25, 2.25}}}
			gc := clip.Collection(box, col)
			var wc orb.Collection
			for _, m := range (orb.Collection{poly.Clone(), pt, ls.Clone(), orb.MultiPoint{{0, 0}, {2.25, 2.25}}}) {
				if x := clip.Geometry(box, m); x != nil {
					wc = append(wc, x)
				}
			}
			if !gc.Equal(wc) {
				c.Failf("collection", "clip.Collection(%v) = %v, want member-wise %v", box, gc, wc)
			}
			for _, m := range gc {
				mb := m.Bound()
				if mb.Min[0] < box.Min[0]-pad || mb.Max[0] > box.Max[0]+pad || mb.Min[1] < box.Min[1]-pad || mb.Max[1] > box.Max[1]+pad {
					c.Failf("collection-outside", "member %v of the clipped collection reaches outside %v", m, box)
				}
			}
			layer := &mvt.Layer{Name: "l", Features: []*geojson.Feature{geojson.NewFeature(poly.Clone()), geojson.NewFeature(orb.Point{9, 9}), geojson.NewFeature(ls.Clone())}}
			layer.Clip(box)
			wantN := 0
			if want != nil {
				wantN++
			}
			if clip.Geometry(box, ls.Clone()) != nil {
				wantN++
			}
			// the plural form: several layers (an empty one between them) clip like each layer alone
			mk := func() *mvt.Layer {
				return &mvt.Layer{Name: "l", Features: []*geojson.Feature{geojson.NewFeature(poly.Clone()), geojson.NewFeature(orb.Point{9, 9}), geojson.NewFeature(ls.Clone())}}
			}
			// features that carry an id, properties and a bbox member (a bbox says nothing about where the geometry is
			// now - here it lies inside the clip box): the geometries are clipped all the same, the rest is kept
			deco := mk()
			cx, cy := (box.Min[0]+box.Max[0])/2, (box.Min[1]+box.Max[1])/2
			for i, f := range deco.Features {
				f.ID = i
				f.Properties["k"] = i
				f.BBox = geojson.BBox{cx, cy, cx, cy}
			}
			deco.Clip(box)
			if len(deco.Features) != len(layer.Features) {
				c.Failf("mvt-layer-clip", "Layer.Clip(%v) keeps %d features when they carry id / properties / bbox, %d otherwise", box, len(deco.Features), len(layer.Features))
			} else {
				for fi, f := range deco.Features {
					if !refgeom.Equal(f.Geometry, layer.Features[fi].Geometry) || f.ID == nil || len(f.BBox) != 4 || f.Properties["k"] != f.ID {
						c.Failf("mvt-layer-clip", "Layer.Clip(%v): feature %d with id / properties / bbox = %v (id %v bbox %v), without them %v", box, fi, f.Geometry, f.ID, f.BBox, layer.Features[fi].Geometry)
					}
				}
			}
			many := mvt.Layers{mk(), {Name: "empty"}, mk()}
			many.Clip(box)
			for li, l := range many {
				wl := layer.Features
				if li == 1 {
					wl = nil
				}
				if len(l.Features) != len(wl) {
					c.Failf("mvt-layer-clip", "Layers.Clip(%v): layer %d keeps %d features, Layer.Clip keeps %d", box, li, len(l.Features), len(wl))
					break
				}
				for fi := range wl {
					if !refgeom.Equal(l.Features[fi].Geometry, wl[fi].Geometry) {
						c.Failf("mvt-layer-clip", "Layers.Clip(%v): layer %d feature %d = %v, Layer.Clip gives %v", box, li, fi, l.Features[fi].Geometry, wl[fi].Geometry)
					}
				}
			}
			if len(layer.Features) != wantN {
				c.Failf("mvt-layer-clip", "Layer.Clip(%v) kept %d features, want %d", box, len(layer.Features), wantN)
			} else if want != nil && !refgeom.Equal(layer.Features[0].Geometry, want) {
				c.Failf("mvt-layer-clip", "Layer.Clip(%v) polygon feature = %v, want %v", box, layer.Features[0].Geometry, want)
			}
			// a longer layer, with dropped features in front of, between and behind the ones that stay: every feature
			// is clipped on its own, wherever it stands (in particular right after one or two dropped ones)
			for _, ext := range []uint32{0, 512, 4096, 8192} {
				members := []orb.Geometry{orb.Point{9, 9}, poly.Clone(), orb.Point{-9, -9}, orb.Point{8, 8}, ls.Clone(), orb.LineString{{4, 0}, {0, 4}}, orb.Point{9, 0}, orb.MultiPoint{{2, 2}, {7, 7}}, orb.Point{-1, -1}}
				// (the layer's extent is a property of the tile encoding; the clip box is given in the coordinates the
				// features are in, whatever the extent)
				long := &mvt.Layer{Name: "long", Version: 2, Extent: ext}
				var wantG []orb.Geometry
				for i, m := range members {
					f := geojson.NewFeature(orb.Clone(m))
					f.ID = i
					long.Features = append(long.Features, f)
					if g := clip.Geometry(box, orb.Clone(m)); g != nil {
						wantG = append(wantG, g)
					}
				}
				long.Clip(box)
				same := len(long.Features) == len(wantG)
				for i := 0; same && i < len(wantG); i++ {
					same = refgeom.Equal(long.Features[i].Geometry, wantG[i])
				}
				if !same {
					var gotG []orb.Geometry
					for _, f := range long.Features {
						gotG = append(gotG, f.Geometry)
					}
					c.Failf("mvt-layer-clip", "Layer.Clip(%v) of a 9-feature layer = %v, each feature clipped on its own gives %v", box, gotG, wantG)
				}
			}
			if ro != nil && rh != nil {
				c.NonTrivial()
			}
		})
	// nothing remains: multi-polygons / collections whose members all miss the box while their union bound meets it
	unit := func(k int) orb.Ring {
		x, y := float64(k%4), float64(k/4)
		return orb.Ring{{x, y}, {x + 1, y}, {x + 1, y + 1}, {x, y + 1}, {x, y}}
	}
	// several holes: each hole is clipped on its own and dropped when nothing of it remains, wherever it stands in the
	// ring list (in particular right after a dropped one)
	{
		sq := func(x0, y0, x1, y1 float64) orb.Ring {
			return orb.Ring{{x0, y0}, {x0, y1}, {x1, y1}, {x1, y0}, {x0, y0}}
		}
		mbox := orb.Bound{Min: orb.Point{0, 0}, Max: orb.Point{10, 10}}
		mouter := orb.Ring{{-20, -20}, {30, -20}, {30, 30}, {-20, 30}, {-20, -20}}
		holeMenu := []orb.Ring{
			sq(2, 2, 4, 4),     // inside the box
			sq(15, 15, 18, 18), // away from the box: dropped
			sq(8, 3, 12, 6),    // across the right side
			sq(-5, -5, -2, -2), // away from the box: dropped
			sq(6, 8, 7, 13),    // across the top side
		}
		r.Explore("polygon-many-holes", fmt.Sprintf("box [0,10]^2 in a large outer ring x every ordered list of 1..3 distinct holes out of %d (inside, across a side, away from the box): clip.Polygon / MultiPolygon / Geometry = the outer ring and every hole clipped on its own, empty ones dropped", len(holeMenu)), mc.Opts{MaxDev: -1}, func(c *mc.Ctx) {
			k := 1 + c.Choose(3)
			used := map[int]bool{}
			poly := orb.Polygon{mouter.Clone()}
			for len(poly) <= k {
				h := c.Choose(len(holeMenu))
				if used[h] {
					c.Skip()
					return
				}
				used[h] = true
				poly = append(poly, holeMenu[h].Clone())
			}
			want := orb.Polygon{clip.Ring(mbox, mouter.Clone())}
			for _, h := range poly[1:] {
				if rh := clip.Ring(mbox, h.Clone()); rh != nil {
					want = append(want, rh)
				}
			}
			desc := fmt.Sprintf("box=%v polygon=%v", mbox, poly)
			got := clip.Polygon(mbox, poly.Clone())
			if !refgeom.Equal(got, want) {
				c.Failf("polygon", "clip.Polygon = %v, want %v | %s", got, want, desc)
			}
			for _, rg := range got {
				for _, p := range rg {
					if !mbox.Contains(p) {
						c.Failf("vertex-outside", "clip.Polygon result vertex %v outside the box | %s", p, desc)
					}
				}
			}
			if gm := clip.MultiPolygon(mbox, orb.MultiPolygon{poly.Clone(), {sq(40, 40, 41, 41)}}); !refgeom.Equal(gm, orb.MultiPolygon{want}) {
				c.Failf("multipolygon", "clip.MultiPolygon = %v, want %v | %s", gm, orb.MultiPolygon{want}, desc)
			}
			if gg := clip.Geometry(mbox, poly.Clone()); !refgeom.Equal(gg, want) {
				c.Failf("generic", "clip.Geometry = %v, want %v | %s", gg, want, desc)
			}
			c.NonTrivial()
		})
	}
	r.Explore("nothing-remains", "12 boxes x every pair of unit squares of the 4x4 cell grid as a 2-member MultiPolygon and as a Collection (also nested and mixed with a point): the generic clip returns nil exactly when nothing remains, and mvt Layer.Clip drops the feature", mc.Opts{MaxDev: -1, Split: 2}, func(c *mc.Ctx) {
		box := boxes[c.Choose(12)]
		a, b := unit(c.Choose(16)), unit(c.Choose(16))
		ra, rb := clip.Ring(box, a.Clone()), clip.Ring(box, b.Clone())
		remains := ra != nil || rb != nil
		for name, g := range map[string]orb.Geometry{
			"MultiPolygon":      orb.MultiPolygon{{a.Clone()}, {b.Clone()}},
			"Collection":        orb.Collection{orb.Polygon{a.Clone()}, b.Clone()},
			"nested Collection": orb.Collection{orb.Collection{orb.Polygon{a.Clone()}}, orb.MultiPolygon{{b.Clone()}}},
		} {
			got := clip.Geometry(box, g)
			if (got != nil) != remains {
				c.Failf("generic-nil", "clip.Geometry(%v, %s of %v and %v) = %#v, something remains = %v", box, name, a, b, got, remains)
			}
			layer := &mvt.Layer{Features: []*geojson.Feature{geojson.NewFeature(orb.Clone(g))}}
			layer.Clip(box)
			if (len(layer.Features) == 1) != remains {
				c.Failf("mvt-layer-clip", "Layer.Clip(%v) of a %s kept %d features, something remains = %v", box, name, len(layer.Features), remains)
			}
		}
		pt := orb.Point{a[0][0] + 0.5, a[0][1] + 0.5}
		if got := clip.Geometry(box, orb.Collection{orb.MultiPoint{pt}, orb.LineString{b[0], b[1]}}); (got != nil) != (box.Contains(pt) || clip.LineString(box, orb.LineString{b[0], b[1]}) != nil) {
			c.Failf("generic-nil", "clip.Geometry(%v, Collection{MultiPoint{%v}, LineString{%v,%v}}) = %#v", box, pt, b[0], b[1], got)
		}
		if !remains && box.Intersects(orb.MultiPolygon{{a}, {b}}.Bound()) {
			c.NonTrivial()
		}
	})

	// collections member by member: what the generic entry points do with a member depends on its kind alone (a bare
	// point is kept iff the closed box holds it, a box member is intersected, multi-kinds unwrap when one part
	// remains, nil members and members of which nothing remains are dropped), wherever it stands in the collection
	// and whatever its neighbours are
	memberMenu := []func() orb.Geometry{
		func() orb.Geometry { return nil },
		func() orb.Geometry { return orb.Point{2, 2} },
		func() orb.Geometry { return orb.Point{0, 0} },
		func() orb.Geometry { return orb.Point{4, 3} },
		func() orb.Geometry { return orb.Point{9, 9} },
		func() orb.Geometry { return orb.Point{-1, 2} },
		func() orb.Geometry { return orb.MultiPoint{{0, 0}, {2.25, 2.25}} },
		func() orb.Geometry { return orb.MultiPoint{{9, 9}} },
		func() orb.Geometry { return orb.LineString{{0, 0}, {4, 4}} },
		func() orb.Geometry { return orb.LineString{{9, 9}, {9, 8}} },
		func() orb.Geometry { return orb.Ring{{1, 1}, {2, 1}, {2, 2}, {1, 2}, {1, 1}} },
		func() orb.Geometry { return orb.Polygon{{{-1, -1}, {5, -1}, {5, 5}, {-1, 5}, {-1, -1}}} },
		func() orb.Geometry { return orb.Bound{Min: orb.Point{1, 1}, Max: orb.Point{3, 3}} },
		func() orb.Geometry { return orb.Bound{Min: orb.Point{8, 8}, Max: orb.Point{9, 9}} },
		func() orb.Geometry { return orb.MultiPoint{}.Bound() },
		func() orb.Geometry { return orb.Collection{orb.Point{9, 9}} },
		func() orb.Geometry { return orb.Collection{orb.Point{2, 2}, orb.Point{-5, -5}} },
		func() orb.Geometry { return orb.Collection{orb.Point{-5, -5}, orb.Point{7, 7}} },
	}
	var refMember func(box orb.Bound, g orb.Geometry) orb.Geometry
	refMember = func(box orb.Bound, g orb.Geometry) orb.Geometry {
		in := func(p orb.Point) bool {
			return p[0] >= box.Min[0] && p[0] <= box.Max[0] && p[1] >= box.Min[1] && p[1] <= box.Max[1]
		}
		switch v := g.(type) {
		case nil:
			return nil
		case orb.Point:
			if in(v) {
				return v
			}
			return nil
		case orb.MultiPoint:
			var out orb.MultiPoint
			for _, p := range v {
				if in(p) {
					out = append(out, p)
				}
			}
			switch len(out) {
			case 0:
				return nil
			case 1:
				return out[0]
			}
			return out
		case orb.LineString:
			mls := clip.LineString(box, v.Clone())
			switch len(mls) {
			case 0:
				return nil
			case 1:
				return mls[0]
			}
			return mls
		case orb.Ring:
			if r := clip.Ring(box, v.Clone()); r != nil {
				return r
			}
			return nil
		case orb.Polygon:
			if p := clip.Polygon(box, v.Clone()); p != nil {
				return p
			}
			return nil
		case orb.Bound:
			x := orb.Bound{Min: orb.Point{math.Max(box.Min[0], v.Min[0]), math.Max(box.Min[1], v.Min[1])}, Max: orb.Point{math.Min(box.Max[0], v.Max[0]), math.Min(box.Max[1], v.Max[1])}}
			if x.Min[0] > x.Max[0] || x.Min[1] > x.Max[1] {
				return nil
			}
			return x
		case orb.Collection:
			var out orb.Collection
			for _, m := range v {
				if x := refMember(box, m); x != nil {
					out = append(out, x)
				}
			}
			switch len(out) {
			case 0:
				return nil
			case 1:
				return out[0]
			}
			return out
		}
		panic("unexpected member kind")
	}
	r.Explore("collection-members", fmt.Sprintf("12 boxes x every collection of 1..3 members over %d shapes (nil, bare points inside / on the edge / outside, multi-points, lines, a ring, a polygon around everything, boxes overlapping / away / empty, nested collections whose members all miss or partly miss): clip.Collection keeps exactly what remains of each member, in order; clip.Geometry returns nil / the single survivor / the collection; mvt Layer.Clip keeps or drops the feature accordingly", len(memberMenu)), mc.Opts{MaxDev: -1, Split: 2}, func(c *mc.Ctx) {
		box := boxes[c.Choose(12)]
		n := 1 + c.Choose(3)
		idx := make([]int, n)
		for i := range idx {
			idx[i] = c.Choose(len(memberMenu))
		}
		mk := func() orb.Collection {
			col := make(orb.Collection, n)
			for i, k := range idx {
				col[i] = memberMenu[k]()
			}
			return col
		}
		var want orb.Collection
		for _, m := range mk() {
			if x := refMember(box, m); x != nil {
				want = append(want, x)
			}
		}
		in := mk()
		if got := clip.Collection(box, mk()); !refgeom.Equal(got, want) || (len(want) == 0 && got != nil) {
			c.Failf("collection", "clip.Collection(%v, %#v) = %#v, member by member %#v", box, in, got, want)
		}
		var wantG orb.Geometry
		switch len(want) {
		case 0:
		case 1:
			wantG = want[0]
		default:
			wantG = want
		}
		if got := clip.Geometry(box, mk()); !refgeom.Equal(got, wantG) {
			c.Failf("generic", "clip.Geometry(%v, %#v) = %#v, member by member %#v", box, in, got, wantG)
		}
		// one level down: the same collection as the only member of another one
		if got := clip.Geometry(box, orb.Collection{mk()}); !refgeom.Equal(got, wantG) {
			c.Failf("generic", "clip.Geometry(%v, Collection{%#v}) = %#v, member by member %#v", box, in, got, wantG)
		}
		layer := &mvt.Layer{Name: "l", Features: []*geojson.Feature{geojson.NewFeature(orb.Point{box.Min[0], box.Min[1]}), geojson.NewFeature(mk()), geojson.NewFeature(orb.Point{box.Max[0], box.Max[1]})}}
		layer.Clip(box)
		if wantG == nil {
			if len(layer.Features) != 2 {
				c.Failf("mvt-layer-clip", "Layer.Clip(%v) keeps %d of 3 features; of the middle one, %#v, nothing remains", box, len(layer.Features), in)
			}
		} else if len(layer.Features) != 3 || !refgeom.Equal(layer.Features[1].Geometry, wantG) {
			c.Failf("mvt-layer-clip", "Layer.Clip(%v) of a feature holding %#v: %d features kept, geometry %#v, want %#v", box, in, len(layer.Features), layer.Features[min(1, len(layer.Features)-1)].Geometry, wantG)
		}
		if len(want) > 0 && len(want) < n {
			c.NonTrivial()
		}
	})

	// combs: a size-parameterised family. The clipped ring grows by one or two vertices per tooth that leaves
	// the box, so the number of teeth drives the intermediate vertex lists far past the input length.
	maxTeeth := ev.Pick(r, 14, 40)
	r.Explore("combs", fmt.Sprintf("square body with 1..%d teeth (single-vertex spikes or two-vertex square teeth) leaving the box through every non-empty subset of its four sides x both orientations x start vertex rotations (quick: 6, thorough: all): vertices in box, closure, membership on a half-unit lattice in the tooth bands, exact area", maxTeeth), mc.Opts{MaxDev: -1, Split: 3}, func(c *mc.Ctx) {
		n := 1 + c.Choose(maxTeeth)
		mask := 1 + c.Choose(15)
		square := c.Bool()
		cw := c.Bool()
		L := float64(4*n + 4)
		box := orb.Bound{Min: orb.Point{0, 0}, Max: orb.Point{L, L}}
		at := func(side int, t, d float64) orb.Point {
			switch side {
			case 0:
				return orb.Point{t, d}
			case 1:
				return orb.Point{L - d, t}
			case 2:
				return orb.Point{L - t, L - d}
			}
			return orb.Point{d, L - t}
		}
		var ring orb.Ring
		want := (L - 4) * (L - 4)
		for side := 0; side < 4; side++ {
			ring = append(ring, at(side, 2, 2))
			if mask&(1<<side) == 0 {
				continue
			}
			for k := 0; k < n; k++ {
				t0 := float64(4*k + 3)
				if square {
					ring = append(ring, at(side, t0, 2), at(side, t0, -2), at(side, t0+2, -2), at(side, t0+2, 2))
					want += 4
				} else {
					ring = append(ring, at(side, t0, 2), at(side, t0+1, -2), at(side, t0+2, 2))
					want += 3
				}
			}
		}
		if cw {
			for i, j := 0, len(ring)-1; i < j; i, j = i+1, j-1 {
				ring[i], ring[j] = ring[j], ring[i]
			}
			want = -want
		}
		rot := 0
		if r.Quick() {
			rot = []int{0, 1, 2, len(ring) / 2, len(ring) - 2, len(ring) - 1}[c.Choose(6)] % len(ring)
		} else {
			rot = c.Choose(len(ring))
		}
		ring = append(append(orb.Ring{}, ring[rot:]...), ring[:rot]...)
		ring = append(ring, ring[0])
		c.NonTrivial()
		got := clip.Ring(box, ring.Clone())
		desc := func() string {
			return fmt.Sprintf("teeth=%d sides=%04b square=%v cw=%v rot=%d box=%v ring=%v got=%v", n, mask, square, cw, rot, box, ring, got)
		}
		for _, p := range got {
			if !box.Contains(p) {
				c.Failf("vertex-outside", "vertex %v outside the box | %s", p, desc())
				return
			}
		}
		if len(got) == 0 || got[0] != got[len(got)-1] {
			c.Failf("not-closed", "clipped ring is empty or not closed | %s", desc())
			return
		}
		if a := area(got); math.Abs(a-want) > 1e-9 {
			c.Failf("comb-area", "signed area of the clipped ring is %v, the part of the ring inside the box has %v | %s", a, want, desc())
			return
		}
		ex := scaled(ring)
		for side := 0; side < 4; side++ {
			for ti := 0; ti < int(2*L); ti++ {
				for di := 0; di < 6; di++ {
					q := at(side, float64(ti)/2+1.0/7, float64(di)/2+1.0/11)
					if !strictlyIn(box, q) {
						continue
					}
					in, bd := exact.InRingI(ex, exact.IP{int64(math.Round(q[0] * S)), int64(math.Round(q[1] * S))})
					if bd {
						continue
					}
					if g := inFloat(got, q); g != in {
						c.Failf("region", "point %v: in clipped ring = %v, in original ring = %v | %s", q, g, in, desc())
						return
					}
				}
			}
		}
		if g, ok := clip.Geometry(box, orb.Polygon{ring.Clone()}).(orb.Polygon); !ok || len(g) != 1 || !bitsEq(g[0], got) {
			c.Failf("generic", "clip.Geometry of the one-ring polygon = %v differs from clip.Ring | %s", g, desc())
		}
	})

	// clip.Bound: box intersection
	r.Explore("bound", "all pairs of boxes over {0,1,2,3}^2 corners: clip.Bound is the intersection", mc.Opts{MaxDev: -1}, func(c *mc.Ctx) {
		mk := func() orb.Bound {
			x0, x1, y0, y1 := c.Choose(4), c.Choose(4), c.Choose(4), c.Choose(4)
			if x0 > x1 {
				x0, x1 = x1, x0
			}
			if y0 > y1 {
				y0, y1 = y1, y0
			}
			return orb.Bound{Min: orb.Point{float64(x0), float64(y0)}, Max: orb.Point{float64(x1), float64(y1)}}
		}
		a, b := mk(), mk()
		got := clip.Bound(a, b)
		want := orb.Bound{Min: orb.Point{math.Max(a.Min[0], b.Min[0]), math.Max(a.Min[1], b.Min[1])}, Max: orb.Point{math.Min(a.Max[0], b.Max[0]), math.Min(a.Max[1], b.Max[1])}}
		if got != want {
			c.Failf("bound", "clip.Bound(%v,%v) = %v, want %v", a, b, got, want)
		}
		g := clip.Geometry(a, b)
		if a.Intersects(b) {
			c.NonTrivial()
			if gb, ok := g.(orb.Bound); !ok || gb != want {
				c.Failf("bound-generic", "clip.Geometry(%v,%v) = %v, want %v", a, b, g, want)
			}
		} else if g != nil {
			c.Failf("bound-generic", "clip.Geometry(%v,%v) = %v, want nil", a, b, g)
		}
	})
	var sl int64
	for _, s := range slivers {
		sl += s
	}
	r.Count("zero_area_slivers_for_region_disjoint_rings(informational)", sl)
	r.Sample(map[string]interface{}{"box": "[1,3]^2", "ring": "[[0,0],[4,0],[2,2],[4,4],[0,4],[0,0]]", "checked": "vertices in box, closed, 81-point lattice membership, area additivity over splits x=1.5,2,2.5 and y=1.5,2,2.5"})
	r.Finish()
}
