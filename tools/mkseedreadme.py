#!/usr/bin/env python3
"""Regenerate seeded/README.md from seeded/<id>/meta.json."""
import json, os, re
root = os.path.join(os.path.dirname(os.path.abspath(__file__)), "..", "seeded")
def cut(s, n):
    s = " ".join(str(s).split()).replace("|", "/")
    return s if len(s) <= n else s[:n - 1] + "…"
rows = []
for d in sorted(os.listdir(root), key=lambda x: (x[:3], x[3:])):
    m = os.path.join(root, d, "meta.json")
    if not os.path.isfile(m):
        continue
    j = json.load(open(m))
    v = j.get("verified_by_me", {})
    rows.append("| %s | %s | %s | %s |" % (d, cut(j.get("summary", ""), 260), cut(j.get("needs", ""), 220), cut(v.get("caught_by", "NOT VERIFIED"), 400)))
head = """# Independent property-breaking changes

Each directory holds a change to paulmach/orb produced by a fresh sub-agent that was given only the text of one
property and its own scratch worktree (nothing from /verif): `patch.diff`, the agent's demonstration
(`demo_test.go`, fails with the change, passes without) and `meta.json` (what it breaks, what it needs to manifest,
what I ran to confirm it and which check part reports it). None of these changes is ever committed to /repo.
`verify.sh <ID> <demo dir> <test regex> <check ids>` re-does the whole confirmation; `tools/mkseedreadme.py`
regenerates this table.

| id | change | needs | caught by (quick tier) |
|----|--------|-------|------------------------|
"""
open(os.path.join(root, "README.md"), "w").write(head + "\n".join(rows) + "\n")
print(len(rows), "rows")
