// instr is engine E4: it reads package sources from /repo's *current working
// tree*, writes instrumented copies under an output directory and an
// overlay.json for `go build -overlay`. /repo itself is never modified.
//
//	instr -out DIR [-yield pkgdir]... [-maprange pkgdir]... [-globals pkgdir]...
//
// -yield:    insert mcrt.Yield(site) before every statement of every function body
// -globals:  add zz_verif_globals.go returning the address of every package-level variable
// -maprange: rewrite every `for k, v := range X` whose X has map type (decided by
//
//	go/types) so that the harness owns the iteration order
//
// The run-time half is the virtual package github.com/paulmach/orb/zzverif/mcrt,
// which exists only in the overlay.
package main

import (
	"bytes"
	"encoding/json"
	"flag"
	"fmt"
	"go/ast"
	"go/format"
	"go/importer"
	"go/parser"
	"go/token"
	"go/types"
	"os"
	"path/filepath"
	"sort"
	"strings"
)

type multi []string

func (m *multi) String() string     { return strings.Join(*m, ",") }
func (m *multi) Set(s string) error { *m = append(*m, s); return nil }

var repo = "/repo"

const mcrtPath = "github.com/paulmach/orb/zzverif/mcrt"

const mcrtSrc = `// Package mcrt is the run-time half of the verification instrumentation.
// It exists only in a build overlay. With no hooks installed every entry point
// is a no-op / the identity.
package mcrt

import (
	"fmt"
	"reflect"
	"sort"
)

// YieldHook is called before every instrumented statement.
var YieldHook func(site int)

// Yield is inserted before statements by the instrumenter.
func Yield(site int) {
	if h := YieldHook; h != nil {
		h(site)
	}
}

// PermHook decides the iteration order of one map range: it receives the
// number of keys and the site and returns a permutation of 0..n-1.
var PermHook func(site, n int) []int

// Keys returns the keys of map m as a []K in the order chosen by the harness
// (canonical sorted order when no hook is installed).
func Keys(site int, m interface{}) interface{} {
	v := reflect.ValueOf(m)
	keys := v.MapKeys()
	sort.Slice(keys, func(i, j int) bool { return fmt.Sprint(keys[i].Interface()) < fmt.Sprint(keys[j].Interface()) })
	out := reflect.MakeSlice(reflect.SliceOf(v.Type().Key()), 0, len(keys))
	if h := PermHook; h != nil && len(keys) > 1 {
		for _, i := range h(site, len(keys)) {
			out = reflect.Append(out, keys[i])
		}
	} else {
		for _, k := range keys {
			out = reflect.Append(out, k)
		}
	}
	return out.Interface()
}
`

var (
	fset    = token.NewFileSet()
	overlay = map[string]string{}
	outDir  string
	sites   []string
)

func die(f string, a ...interface{}) {
	fmt.Fprintf(os.Stderr, "instr: "+f+"\n", a...)
	os.Exit(2)
}

func pkgFiles(dir string) []string {
	ents, err := os.ReadDir(dir)
	if err != nil {
		die("%v", err)
	}
	var out []string
	for _, e := range ents {
		n := e.Name()
		if strings.HasSuffix(n, ".go") && !strings.HasSuffix(n, "_test.go") && !strings.HasPrefix(n, "zz_verif") {
			out = append(out, filepath.Join(dir, n))
		}
	}
	sort.Strings(out)
	return out
}

func parsePkg(dir string) (map[string]*ast.File, []string) {
	files := map[string]*ast.File{}
	names := pkgFiles(dir)
	for _, fn := range names {
		f, err := parser.ParseFile(fset, fn, nil, parser.ParseComments)
		if err != nil {
			die("%v", err)
		}
		files[fn] = f
	}
	return files, names
}

func addImport(f *ast.File) {
	for _, im := range f.Imports {
		if strings.Trim(im.Path.Value, `"`) == mcrtPath {
			return
		}
	}
	spec := &ast.ImportSpec{Name: ast.NewIdent("zzmcrt"), Path: &ast.BasicLit{Kind: token.STRING, Value: `"` + mcrtPath + `"`}}
	decl := &ast.GenDecl{Tok: token.IMPORT, Specs: []ast.Spec{spec}}
	f.Decls = append([]ast.Decl{decl}, f.Decls...)
	f.Imports = append(f.Imports, spec)
}

func emit(orig string, f *ast.File) {
	var buf bytes.Buffer
	// comments are dropped on purpose: positions shift; build constraints are re-added verbatim
	f.Comments = nil
	for _, d := range f.Decls {
		if fd, ok := d.(*ast.FuncDecl); ok {
			fd.Doc = nil
		}
		if gd, ok := d.(*ast.GenDecl); ok {
			gd.Doc = nil
		}
	}
	f.Doc = nil
	if err := format.Node(&buf, token.NewFileSet(), f); err != nil {
		die("format %s: %v", orig, err)
	}
	src, _ := os.ReadFile(orig)
	var head bytes.Buffer
	for _, l := range strings.Split(string(src), "\n") {
		t := strings.TrimSpace(l)
		if strings.HasPrefix(t, "//go:build") || strings.HasPrefix(t, "// +build") {
			head.WriteString(l + "\n")
		}
		if strings.HasPrefix(t, "package ") {
			break
		}
	}
	if head.Len() > 0 {
		head.WriteString("\n")
	}
	rel, _ := filepath.Rel(repo, orig)
	dst := filepath.Join(outDir, "src", rel)
	os.MkdirAll(filepath.Dir(dst), 0o755)
	if err := os.WriteFile(dst, append(head.Bytes(), buf.Bytes()...), 0o644); err != nil {
		die("%v", err)
	}
	overlay[orig] = dst
}

func yieldCall(pos token.Pos) ast.Stmt {
	p := fset.Position(pos)
	rel, _ := filepath.Rel(repo, p.Filename)
	sites = append(sites, fmt.Sprintf("%s:%d", rel, p.Line))
	return &ast.ExprStmt{X: &ast.CallExpr{
		Fun:  &ast.SelectorExpr{X: ast.NewIdent("zzmcrt"), Sel: ast.NewIdent("Yield")},
		Args: []ast.Expr{&ast.BasicLit{Kind: token.INT, Value: fmt.Sprint(len(sites) - 1)}},
	}}
}

func withYields(list []ast.Stmt) []ast.Stmt {
	var out []ast.Stmt
	for _, s := range list {
		out = append(out, yieldCall(s.Pos()), s)
	}
	return out
}

func instrumentYield(f *ast.File) {
	ast.Inspect(f, func(n ast.Node) bool {
		switch x := n.(type) {
		case *ast.BlockStmt:
			// the body of a switch / select holds clauses, not statements: the clause bodies get the yields
			if len(x.List) > 0 {
				switch x.List[0].(type) {
				case *ast.CaseClause, *ast.CommClause:
					return true
				}
			}
			x.List = withYields(x.List)
		case *ast.CaseClause:
			x.Body = withYields(x.Body)
		case *ast.CommClause:
			x.Body = withYields(x.Body)
		}
		return true
	})
}

func globalsFile(dir string, files map[string]*ast.File) {
	var pkg string
	var names []string
	for _, f := range files {
		pkg = f.Name.Name
		for _, d := range f.Decls {
			gd, ok := d.(*ast.GenDecl)
			if !ok || gd.Tok != token.VAR {
				continue
			}
			for _, sp := range gd.Specs {
				for _, n := range sp.(*ast.ValueSpec).Names {
					if n.Name != "_" {
						names = append(names, n.Name)
					}
				}
			}
		}
	}
	sort.Strings(names)
	var b strings.Builder
	fmt.Fprintf(&b, "//go:build verif\n\npackage %s\n\n// ZZVerifGlobals returns the address of every package-level variable.\nfunc ZZVerifGlobals() map[string]interface{} {\n\treturn map[string]interface{}{\n", pkg)
	for _, n := range names {
		fmt.Fprintf(&b, "\t\t%q: &%s,\n", n, n)
	}
	b.WriteString("\t}\n}\n")
	rel, _ := filepath.Rel(repo, dir)
	dst := filepath.Join(outDir, "src", rel, "zz_verif_globals.go")
	os.MkdirAll(filepath.Dir(dst), 0o755)
	os.WriteFile(dst, []byte(b.String()), 0o644)
	overlay[filepath.Join(dir, "zz_verif_globals.go")] = dst
}

// ---- map range rewriting ----

func typeCheck(dir string, files map[string]*ast.File, names []string) *types.Info {
	info := &types.Info{Types: map[ast.Expr]types.TypeAndValue{}}
	conf := types.Config{Importer: importer.ForCompiler(fset, "source", nil), Error: func(err error) {}}
	var fl []*ast.File
	for _, n := range names {
		fl = append(fl, files[n])
	}
	rel, _ := filepath.Rel(repo, dir)
	os.Chdir(dir)
	if _, err := conf.Check("github.com/paulmach/orb/"+rel, fset, fl, info); err != nil {
		die("type-check %s: %v", dir, err)
	}
	return info
}

func pureExpr(e ast.Expr) bool {
	switch x := e.(type) {
	case *ast.Ident:
		return true
	case *ast.SelectorExpr:
		return pureExpr(x.X)
	case *ast.ParenExpr:
		return pureExpr(x.X)
	case *ast.StarExpr:
		return pureExpr(x.X)
	}
	return false
}

var mapSites int

func rewriteMapRanges(fn string, f *ast.File, info *types.Info) int {
	n := 0
	qual := func(p *types.Package) string {
		// the local name under which this file imports p
		for _, im := range f.Imports {
			if strings.Trim(im.Path.Value, `"`) == p.Path() {
				if im.Name != nil {
					return im.Name.Name
				}
				return p.Name()
			}
		}
		if p.Name() == f.Name.Name {
			return ""
		}
		die("%s: key type from package %s which the file does not import", fn, p.Path())
		return ""
	}
	ast.Inspect(f, func(node ast.Node) bool {
		rs, ok := node.(*ast.RangeStmt)
		if !ok {
			return true
		}
		tv, ok := info.Types[rs.X]
		if !ok {
			die("%s: no type for range expression at %v", fn, fset.Position(rs.Pos()))
		}
		mt, ok := tv.Type.Underlying().(*types.Map)
		if !ok {
			return true
		}
		if !pureExpr(rs.X) {
			// the rewrite evaluates the expression once per key; an expression with possible side effects keeps its
			// native range (its order is then the run-time's, not the harness's) rather than failing the build
			fmt.Fprintf(os.Stderr, "instr: maprange NOT rewritten at %v: range expression with possible side effects\n", fset.Position(rs.Pos()))
			return true
		}
		keyT := types.TypeString(mt.Key(), func(p *types.Package) string {
			if p.Name() == f.Name.Name && !strings.Contains(p.Path(), "/"+f.Name.Name+"/") {
				if q := qual(p); q != "" {
					return q
				}
				return ""
			}
			return qual(p)
		})
		keyExpr, err := parser.ParseExpr("[]" + keyT)
		if err != nil {
			die("%s: cannot spell key type %q", fn, keyT)
		}
		site := mapSites
		mapSites++
		p := fset.Position(rs.Pos())
		rel, _ := filepath.Rel(repo, p.Filename)
		fmt.Fprintf(os.Stderr, "instr: maprange site %d = %s:%d range %s (key %s)\n", site, rel, p.Line, exprString(rs.X), keyT)
		orig := rs.X
		zk := ast.NewIdent(fmt.Sprintf("zzk%d", site))
		var pre []ast.Stmt
		// v, ok := X[zzk]; if !ok { continue }
		zok := ast.NewIdent(fmt.Sprintf("zzok%d", site))
		zv := ast.NewIdent(fmt.Sprintf("zzv%d", site))
		pre = append(pre,
			&ast.AssignStmt{Lhs: []ast.Expr{zv, zok}, Tok: token.DEFINE, Rhs: []ast.Expr{&ast.IndexExpr{X: orig, Index: zk}}},
			&ast.IfStmt{Cond: &ast.UnaryExpr{Op: token.NOT, X: zok}, Body: &ast.BlockStmt{List: []ast.Stmt{&ast.BranchStmt{Tok: token.CONTINUE}}}},
			&ast.AssignStmt{Lhs: []ast.Expr{ast.NewIdent("_")}, Tok: token.ASSIGN, Rhs: []ast.Expr{zv}},
		)
		tok := rs.Tok
		if rs.Key != nil && !isBlank(rs.Key) {
			pre = append(pre, &ast.AssignStmt{Lhs: []ast.Expr{rs.Key}, Tok: tok, Rhs: []ast.Expr{zk}})
			if tok == token.DEFINE {
				pre = append(pre, &ast.AssignStmt{Lhs: []ast.Expr{ast.NewIdent("_")}, Tok: token.ASSIGN, Rhs: []ast.Expr{rs.Key}})
			}
		}
		if rs.Value != nil && !isBlank(rs.Value) {
			pre = append(pre, &ast.AssignStmt{Lhs: []ast.Expr{rs.Value}, Tok: tok, Rhs: []ast.Expr{zv}})
			if tok == token.DEFINE {
				pre = append(pre, &ast.AssignStmt{Lhs: []ast.Expr{ast.NewIdent("_")}, Tok: token.ASSIGN, Rhs: []ast.Expr{rs.Value}})
			}
		}
		rs.Key = ast.NewIdent("_")
		rs.Value = zk
		rs.Tok = token.DEFINE
		rs.X = &ast.TypeAssertExpr{
			X: &ast.CallExpr{Fun: &ast.SelectorExpr{X: ast.NewIdent("zzmcrt"), Sel: ast.NewIdent("Keys")},
				Args: []ast.Expr{&ast.BasicLit{Kind: token.INT, Value: fmt.Sprint(site)}, orig}},
			Type: keyExpr,
		}
		rs.Body.List = append(pre, rs.Body.List...)
		n++
		return true
	})
	return n
}

func isBlank(e ast.Expr) bool { id, ok := e.(*ast.Ident); return ok && id.Name == "_" }

func exprString(e ast.Expr) string {
	var b bytes.Buffer
	format.Node(&b, fset, e)
	return b.String()
}

func main() {
	var yields, mapranges, globals multi
	flag.Var(&yields, "yield", "package dir (relative to /repo) to instrument with yields")
	flag.Var(&mapranges, "maprange", "package dir to rewrite map ranges in")
	flag.Var(&globals, "globals", "package dir to add a globals accessor to")
	flag.StringVar(&outDir, "out", "", "output directory")
	flag.StringVar(&repo, "repo", "/repo", "checkout of paulmach/orb to instrument")
	flag.Parse()
	if outDir == "" {
		die("-out required")
	}
	outDir, _ = filepath.Abs(outDir)
	os.RemoveAll(filepath.Join(outDir, "src"))
	os.MkdirAll(filepath.Join(outDir, "src"), 0o755)
	dirs := map[string]bool{}
	for _, d := range append(append(append([]string{}, yields...), mapranges...), globals...) {
		dirs[d] = true
	}
	has := func(l multi, d string) bool {
		for _, x := range l {
			if x == d {
				return true
			}
		}
		return false
	}
	dl := make([]string, 0, len(dirs))
	for d := range dirs {
		dl = append(dl, d)
	}
	sort.Strings(dl)
	totalMap := 0
	for _, d := range dl {
		dir := filepath.Join(repo, d)
		files, names := parsePkg(dir)
		if has(globals, d) {
			globalsFile(dir, files)
		}
		var info *types.Info
		if has(mapranges, d) {
			info = typeCheck(dir, files, names)
		}
		for _, fn := range names {
			f := files[fn]
			changed := false
			if info != nil {
				if n := rewriteMapRanges(fn, f, info); n > 0 {
					totalMap += n
					changed = true
				}
			}
			if has(yields, d) {
				instrumentYield(f)
				changed = true
			}
			if changed {
				addImport(f)
				emit(fn, f)
			}
		}
	}
	// virtual run-time package
	mdst := filepath.Join(outDir, "src", "zzverif", "mcrt", "mcrt.go")
	os.MkdirAll(filepath.Dir(mdst), 0o755)
	os.WriteFile(mdst, []byte(mcrtSrc), 0o644)
	overlay[filepath.Join(repo, "zzverif", "mcrt", "mcrt.go")] = mdst
	ob, _ := json.MarshalIndent(map[string]interface{}{"Replace": overlay}, "", " ")
	os.WriteFile(filepath.Join(outDir, "overlay.json"), ob, 0o644)
	sb, _ := json.Marshal(sites)
	os.WriteFile(filepath.Join(outDir, "sites.json"), sb, 0o644)
	fmt.Fprintf(os.Stderr, "instr: %d yield sites, %d map ranges, %d files overlaid -> %s\n", len(sites), totalMap, len(overlay), outDir)
}
