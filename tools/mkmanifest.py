#!/usr/bin/env python3
"""Generates /verif/MANIFEST.json from the table below (single source of truth)."""
import json, os
ROOT = os.path.dirname(os.path.dirname(os.path.abspath(__file__)))
CHECKS = json.load(open(os.path.join(ROOT, "tools", "checks.json")))
ALL = ["C%02d" % i for i in range(1, 21)]
m = {
 "version": 1,
 "setup_cmd": "./setup.sh",
 "hooks": {
  "guard": "verif",
  "enable": "no hook is committed to /repo: instrumentation is generated at check time from /repo's working tree and injected with `go build -tags verif -overlay /verif/.work/<check>/overlay.json` (see DESIGN.md section 4)",
  "baseline_off_cmd": "cd /repo && go test -mod=mod -json -vet=off -count=1 -timeout 25m ./...",
  "source_commits": [],
  "add_only": True,
 },
 "engines": [
  {"name": "E1 choose", "path": "lib/mc/choose.go", "serves_properties": [c["property_id"] for c in CHECKS if c.get("engine","").startswith("E1")], "kind_free_text": "stateless exhaustive explorer of nondeterministic drivers (full product or deviation-bounded), parallel by subtree"},
  {"name": "E3 bfs", "path": "checks/c11/main.go", "serves_properties": ["C11"], "kind_free_text": "explicit-state breadth-first search over operation histories of the real quadtree, deduplicated by a complete reflective dump"},
 ],
 "checks": [],
 "not_applicable": [],
}
claimed = set()
for c in CHECKS:
    pid = c["property_id"]; claimed.add(pid)
    m["checks"].append({
      "property_id": pid,
      "quick_cmd": "./run.sh %s quick" % pid,
      "thorough_cmd": "./run.sh %s thorough" % pid,
      "evidence_file": "/verif/evidence/%s.json" % pid,
      "replay_cmd_template": "./run.sh %s replay {path}" % pid,
      "engine": c["engine"],
      "level_claimed": {"category": c["category"], "text": c["text"], "design_ref": c["design_ref"]},
      "level_note": c["note"],
      "technique": c["technique"],
    })
for pid in ALL:
    if pid not in claimed:
        m["not_applicable"].append({"property_id": pid, "reason": "check not built yet in this revision of /verif (planned, see DESIGN.md section 3); nothing is claimed for it"})
m["notes"] = "All checks are bounded-exhaustive explorations of the real code; VERIF_SEED is recorded but nothing samples."
json.dump(m, open(os.path.join(ROOT, "MANIFEST.json"), "w"), indent=1)
print("claimed", sorted(claimed))
