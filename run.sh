#!/bin/bash
# usage: run.sh <ID> <quick|thorough> [extra args]   |   run.sh <ID> replay <file>
# Rebuilds the check binary against /repo's current working tree, then runs it.
set -u
cd "$(dirname "$(readlink -f "$0")")"
export VERIF_ROOT="$(pwd)"
export GOFLAGS=-mod=mod GOPROXY=off GOSUMDB=off GOTOOLCHAIN=local GOCACHE=/verif/.gocache CGO_ENABLED=0 GOGC=400
id="$1"; mode="${2:-quick}"; shift; shift || true
lc=$(echo "$id" | tr 'A-Z' 'a-z')
mkdir -p .work/bin
if [ -x "checks/$lc/build.sh" ]; then
  "checks/$lc/build.sh" ".work/bin/$lc" || { echo "HARNESS-ERROR build failed for $id"; exit 2; }
else
  go build -o ".work/bin/$lc" "./checks/$lc" || { echo "HARNESS-ERROR build failed for $id"; exit 2; }
fi
if [ "$mode" = replay ]; then
  exec ".work/bin/$lc" --replay "$1"
fi
export VERIF_TIER="$mode"
exec ".work/bin/$lc" --tier "$mode" "$@"
