#!/bin/bash
# usage: run.sh <ID> <quick|thorough> [extra args]   |   run.sh <ID> replay <file>
# Rebuilds the check binary against /repo's current working tree, then runs it.
set -u
cd "$(dirname "$(readlink -f "$0")")"
export VERIF_ROOT="$(pwd)"
export GOFLAGS=-mod=mod GOPROXY=off GOSUMDB=off GOTOOLCHAIN=local GOCACHE=/verif/.gocache CGO_ENABLED=0 GOGC=400
id="$1"; mode="${2:-quick}"; shift; shift || true
lc=$(echo "$id" | tr 'A-Z' 'a-z')
# VERIF_REPO=<dir> (development aid): build against another checkout of paulmach/orb instead of /repo, with its
# own binaries and overlays and without touching evidence/. The registered commands never set it.
export VERIF_REPO="${VERIF_REPO:-/repo}"
export VERIF_BINDIR=".work/bin" VERIF_TAG="" VERIF_MODFLAG=""
if [ "$VERIF_REPO" != /repo ]; then
  VERIF_TAG="-$(echo "$VERIF_REPO" | md5sum | cut -c1-8)"
  VERIF_BINDIR=".work/bin$VERIF_TAG"
  mkdir -p ".work/alt$VERIF_TAG"
  sed "s|=> /repo|=> $VERIF_REPO|" go.mod > ".work/alt$VERIF_TAG/go.mod"; cp go.sum ".work/alt$VERIF_TAG/go.sum"
  VERIF_MODFLAG="-modfile=$(pwd)/.work/alt$VERIF_TAG/go.mod"
  export VERIF_NO_EVIDENCE=1
fi
mkdir -p "$VERIF_BINDIR"
if [ -x "checks/$lc/build.sh" ]; then
  "checks/$lc/build.sh" "$VERIF_BINDIR/$lc" || { echo "HARNESS-ERROR build failed for $id"; exit 2; }
else
  go build $VERIF_MODFLAG -o "$VERIF_BINDIR/$lc" "./checks/$lc" || { echo "HARNESS-ERROR build failed for $id"; exit 2; }
fi
if [ "$mode" = replay ]; then
  exec "$VERIF_BINDIR/$lc" --replay "$1"
fi
export VERIF_TIER="$mode"
exec "$VERIF_BINDIR/$lc" --tier "$mode" "$@"
